---------------------------- MODULE CtrlConnTrace ----------------------------
(* X05 judge (property level) for the life cycle of the client's control connection.  It knows    *)
(* nothing about flags, locks or loops; it sees, per trace and in real-time order (one mutex):    *)
(*   Cfg     [tag, init, max, bo, jit, maxAtt, brkN, brkMs, enabled, cal, hooks, dl, auto]  ReconnectConfig (ms, jitter in %), *)
(*                                      what the driver can observe (cal = goroutine census works), auto = the first Connect  *)
(*                                      runs the automatic end-point detection (several handshakes in parallel by design)     *)
(*   Call    [p, op, t] / Ret [p, op, r, t]   user calls Connect | Reconnect | Disconnect | Stop (r = ok | err | panic)  *)
(*   Dial    [n, by, t]                 the transport's dial function was entered (by = rc: reconnect loop, else the user) *)
(*   DialRet [n, by, ok, c, why, t]     it returned connection c / an error                        *)
(*   Hs      [c, r, id, t]              the server answers the handshake on c: ok | auth | other (id = identity it assigned) *)
(*   Closed  [c, by, to, t]             the client closed its socket c (first close); to = a read on c had run into the     *)
(*                                      client's own deadline before (the handshake deadline expired)                      *)
(*   Drop    [c, how, t]                the server dropped c; Kick [c, t]: it sent KickClient on c  *)
(*   Wait    [att, t]                   the reconnect loop arms its timer for attempt att          *)
(*   GaveUp  [t]                        the loop announced that MaxAttempts is reached             *)
(*   Obs / Final [open, estab, hang, connected, id, rl, hb, rc, dl, cn, dials, q, t]   a standstill: sockets open at the   *)
(*                                      client; those established (handshake ok, not dropped); connections on which a      *)
(*                                      Connect is blocked reading the handshake reply of a silent server without any      *)
(*                                      deadline; IsConnected(); GetClientID(); goroutines of the client by role (read     *)
(*                                      loop, heart-beat loop, reconnect loop, dial, inside Connect); dials in flight;     *)
(*                                      q = no user call in flight.  Final = everything has come to rest.                  *)
(*   Exit    [code]                     the client ended the process (child-process scenes)        *)
(*   Panic   [p, op, site, msg]         a call of the user panicked (p, op) or the client crashed the process (op = crash);  *)
(*                                      site = innermost tunnox-core function of the panicking goroutine                   *)
(* Clauses (detail = Cfg.tag + ...):                                                               *)
(*   OneLive          more than one established control connection at a standstill                *)
(*   NoOrphan         at rest more than one socket open, or a socket open while IsConnected() is   *)
(*                    false (and no Connect is blocked on it)                                      *)
(*   Served           at rest, connected and established, not stopped: no read loop (:deaf) or no  *)
(*                    heart-beat loop (:silent) - only when the census is calibrated               *)
(*   StopClean        Stop returned and the client is at rest: a socket still open (:open), a loop *)
(*                    or a Connect still alive (:goroutines)                                       *)
(*                    (a dial that was under way when Stop ran may still return: it must fail or    *)
(*                    its connection must be closed - what is left at rest is judged, not the dial) *)
(*   KickQuiet        a dial after the client closed the connection it was kicked on; at rest      *)
(*                    after a kick: sockets / goroutines left                                      *)
(*   AuthQuiet        a dial after the server refused the credentials; AuthExit: the process did   *)
(*                    not end with the documented code 10                                          *)
(*   Recovers         at rest, not connected although a connection had been established and lost   *)
(*                    and nothing releases the client from reconnecting (Stop, kick, refused       *)
(*                    credentials, MaxAttempts, reconnect disabled, a user's Reconnect() that      *)
(*                    returned an error): :stuck, or :hang when a Connect is blocked for good on   *)
(*                    a silent server; :deadconn when IsConnected() but nothing is established     *)
(*   NoSpuriousClose  the client closed an established, healthy connection although the user did   *)
(*                    not call Stop/Disconnect/Reconnect since it was established and the server   *)
(*                    neither dropped it nor kicked (connections dialled by the auto-detection are  *)
(*                    exempt: the losers are closed by design; so is a connection whose handshake  *)
(*                    ran into the client's deadline while the server was answering)              *)
(*   BackoffLower     the loop dialled sooner after arming its timer than (1-jitter) x             *)
(*                    min(Initial x Backoff^(att-1), MaxDelay) (1 ms tolerance for truncation);    *)
(*                    only the lower bound is judged (a loaded machine lengthens waits)            *)
(*   MaxAttempts      the loop armed a timer for an attempt beyond MaxAttempts                     *)
(*   Breaker          with the circuit breaker on: a dial sooner than its timeout after the        *)
(*                    threshold-th consecutive failure                                             *)
(*   Identity         at rest, connected: GetClientID() differs from the identity the server gave  *)
(*                    on the established connection                                                *)
(*   NoPanic          detail @<site>:<tag>:<op>                                                    *)
(* Where the contract is silent the judge accepts: reconnect after Disconnect(); IsConnected() after *)
(* Stop; the upper end of a delay; dials by the user; several handshakes in flight during          *)
(* auto-detection (only standstills are judged for OneLive).                                       *)
EXTENDS VLib

VARIABLES j    \* the judge's knowledge of the current trace (record, fields below)
vars == <<l, viol, j>>

Cf0 == [tag |-> "?", init |-> 0, max |-> 0, bo |-> 1, jit |-> 0, maxAtt |-> 0, brkN |-> 0, brkMs |-> 0, enabled |-> TRUE, cal |-> FALSE,
        hooks |-> FALSE, dl |-> FALSE, auto |-> FALSE]
NoWait == [att |-> 0, t |-> 0]
J0 == [cf |-> Cf0,
       stopC |-> FALSE, stopR |-> FALSE,     \* Stop called / returned
       kickOn |-> {},                        \* connections the server kicked on
       kickDone |-> FALSE,                   \* the client closed a kicked connection
       authRej |-> FALSE,                    \* the server refused the credentials
       everEst |-> FALSE,                    \* some connection was established
       reconnErr |-> FALSE,                  \* a user's Reconnect() returned an error after the last establishment
       lastUser |-> 0,                       \* line of the latest user Disconnect/Reconnect call (0 = none)
       born |-> <<>>,                        \* c -> line of the DialRet that created c: closing c is the user's wish if such a call came later
       probing |-> FALSE, probes |-> {},     \* auto-detection: connections dialled before the first Connect returned (losers are closed by design)
       est |-> <<>>,                         \* connections the server established: c -> identity it assigned (0 = none)
       dropped |-> {},                       \* connections the server dropped
       closed |-> {},                        \* connections the client closed
       lastWait |-> NoWait,                  \* [att, t] of the loop's latest Wait not yet followed by its dial
       fails |-> 0, lastFailT |-> 0,         \* consecutive failed attempts of the loop, time of the latest
       rcConns |-> {},                       \* connections dialled by the loop
       gaveUp |-> FALSE, exited |-> FALSE]

Init == l = 1 /\ viol = {} /\ j = J0

SeqSet(q) == {q[i] : i \in 1..Len(q)}
Vs(b, c, d) == IF b THEN {V(c, j.cf.tag \o d)} ELSE {}
Min2(a, b) == IF a < b THEN a ELSE b
RECURSIVE Pow(_, _)
Pow(b, e) == IF e = 0 THEN 1 ELSE IF e > 20 THEN 1000000 ELSE Min2(b * Pow(b, e - 1), 1000000)
\* smallest permitted distance (ms) between arming the timer for attempt att and the dial
Lower(att) == LET base == Min2(j.cf.init * Pow(j.cf.bo, att - 1), j.cf.max) IN (base * (100 - j.cf.jit)) \div 100
Released == j.stopC \/ j.kickOn # {} \/ j.authRej \/ j.gaveUp \/ ~j.cf.enabled \/ j.reconnErr \/ j.exited
ToStr(n) == ToString(n)
Put(f, k, v) == [x \in DOMAIN f \cup {k} |-> IF x = k THEN v ELSE f[x]]
Same == UNCHANGED viol

TrCfg == /\ Is("Cfg")
         /\ j' = [j EXCEPT !.cf = [tag |-> Ev.tag, init |-> Ev.init, max |-> Ev.max, bo |-> Ev.bo, jit |-> Ev.jit, maxAtt |-> Ev.maxAtt,
                                   brkN |-> Ev.brkN, brkMs |-> Ev.brkMs, enabled |-> Ev.enabled, cal |-> Ev.cal, hooks |-> Ev.hooks,
                                   dl |-> Ev.dl, auto |-> Ev.auto],
                           !.probing = Ev.auto]
         /\ l' = l + 1 /\ Same

TrCall == /\ Is("Call")
          /\ j' = [j EXCEPT !.stopC = @ \/ Ev.op = "Stop",
                            !.lastUser = IF Ev.op \in {"Disconnect", "Reconnect"} THEN l ELSE @]
          /\ l' = l + 1 /\ Same

TrRet == /\ Is("Ret")
         /\ j' = [j EXCEPT !.stopR = @ \/ Ev.op = "Stop",
                           !.reconnErr = @ \/ (Ev.op = "Reconnect" /\ Ev.r = "err"),
                           !.probing = @ /\ Ev.op # "Connect"]
         /\ l' = l + 1 /\ Same

TrDial ==
  /\ Is("Dial")
  /\ LET rc == Ev.by = "rc"
         gap == Ev.t - j.lastWait.t IN
     /\ viol' = viol \cup Vs(j.kickDone, "KickQuiet", ":dial")
                     \cup Vs(j.authRej, "AuthQuiet", ":dial")
                     \cup Vs(rc /\ j.lastWait.att > 0 /\ gap + 1 < Lower(j.lastWait.att), "BackoffLower", ":att" \o ToStr(j.lastWait.att))
                     \cup Vs(rc /\ j.cf.brkN > 0 /\ j.fails >= j.cf.brkN /\ (Ev.t - j.lastFailT) + 1 < j.cf.brkMs, "Breaker", "")
     /\ j' = [j EXCEPT !.lastWait = IF rc THEN NoWait ELSE @]
  /\ l' = l + 1

TrDialRet ==
  /\ Is("DialRet")
  /\ LET rcf == Ev.by = "rc" /\ ~Ev.ok IN
     j' = [j EXCEPT !.fails = IF rcf THEN @ + 1 ELSE @,
                    !.lastFailT = IF rcf THEN Ev.t ELSE @,
                    !.rcConns = IF Ev.by = "rc" /\ Ev.ok THEN @ \cup {Ev.c} ELSE @,
                    !.born = IF Ev.ok THEN Put(@, Ev.c, l) ELSE @,
                    !.probes = IF Ev.ok /\ j.probing THEN @ \cup {Ev.c} ELSE @]
  /\ l' = l + 1 /\ Same

TrHs ==
  /\ Is("Hs")
  /\ LET byRc == Ev.c \in j.rcConns IN
     j' = IF Ev.r = "ok"
          THEN [j EXCEPT !.est = Put(@, Ev.c, Ev.id), !.everEst = TRUE, !.reconnErr = FALSE, !.fails = IF byRc THEN 0 ELSE @]
          ELSE [j EXCEPT !.authRej = @ \/ Ev.r = "auth", !.fails = IF byRc THEN @ + 1 ELSE @, !.lastFailT = IF byRc THEN Ev.t ELSE @]
  /\ l' = l + 1 /\ Same

TrClosed ==
  /\ Is("Closed")
  /\ LET c == Ev.c
         healthy == c \in DOMAIN j.est /\ c \notin j.dropped /\ c \notin j.kickOn
         asked == c \in DOMAIN j.born /\ j.lastUser > j.born[c] IN
     /\ viol' = viol \cup Vs(healthy /\ ~j.stopC /\ ~asked /\ c \notin j.probes /\ ~Ev.to, "NoSpuriousClose", ":by=" \o Ev.by)
     /\ j' = [j EXCEPT !.closed = @ \cup {c}, !.kickDone = @ \/ c \in j.kickOn]
  /\ l' = l + 1

TrDrop == /\ Is("Drop")
          /\ j' = [j EXCEPT !.dropped = @ \cup {Ev.c}]
          /\ l' = l + 1 /\ Same

TrKick == /\ Is("Kick")
          /\ j' = [j EXCEPT !.kickOn = @ \cup {Ev.c}]
          /\ l' = l + 1 /\ Same

TrWait == /\ Is("Wait")
          /\ j' = [j EXCEPT !.lastWait = [att |-> Ev.att, t |-> Ev.t]]
          /\ viol' = viol \cup Vs(j.cf.maxAtt > 0 /\ Ev.att > j.cf.maxAtt, "MaxAttempts", ":att" \o ToStr(Ev.att))
          /\ l' = l + 1

TrGaveUp == /\ Is("GaveUp")
            /\ j' = [j EXCEPT !.gaveUp = TRUE]
            /\ l' = l + 1 /\ Same

Standstill(final) ==
  LET open == SeqSet(Ev.open)
      estab == SeqSet(Ev.estab)
      hang == SeqSet(Ev.hang)
      gor == Ev.rl + Ev.hb + Ev.rc + Ev.dl + Ev.cn
      cal == j.cf.cal
      c1 == CHOOSE c \in estab : TRUE IN
  Vs(Cardinality(estab) > 1, "OneLive", ":estab" \o ToStr(Cardinality(estab)))
  \cup (IF ~final THEN {} ELSE
        Vs(~j.stopC /\ Ev.q /\ Cardinality(open) > 1, "NoOrphan", ":open" \o ToStr(Cardinality(open)))
   \cup Vs(~j.stopC /\ Ev.q /\ ~Ev.connected /\ (open \ hang) # {}, "NoOrphan", ":disconnected")
   \cup Vs(cal /\ ~j.stopC /\ j.kickOn = {} /\ Ev.connected /\ estab # {} /\ Ev.rl = 0, "Served", ":deaf")
   \cup Vs(cal /\ ~j.stopC /\ j.kickOn = {} /\ Ev.connected /\ estab # {} /\ Ev.hb = 0, "Served", ":silent")
   \cup Vs(j.stopR /\ open # {}, "StopClean", ":open")
   \cup Vs(j.stopR /\ cal /\ gor > 0, "StopClean", ":goroutines")
   \cup Vs(j.stopR /\ Ev.dials > 0, "StopClean", ":dialling")
   \cup Vs(~j.stopC /\ j.kickDone /\ (open # {} \/ (cal /\ gor > 0)), "KickQuiet", ":left")
   \cup Vs(j.everEst /\ ~Released /\ ~Ev.connected /\ hang = {}, "Recovers", ":stuck")
   \cup Vs(j.everEst /\ ~Released /\ hang # {}, "Recovers", ":hang")
   \cup Vs(j.everEst /\ ~Released /\ Ev.connected /\ estab = {} /\ hang = {}, "Recovers", ":deadconn")
   \cup Vs(~j.stopC /\ Ev.connected /\ Cardinality(estab) = 1 /\ c1 \in DOMAIN j.est /\ j.est[c1] # 0 /\ Ev.id # j.est[c1], "Identity", ""))

TrObs == /\ Is("Obs")
         /\ viol' = viol \cup Standstill(FALSE)
         /\ l' = l + 1 /\ UNCHANGED j

TrFinal == /\ Is("Final")
           /\ viol' = viol \cup Standstill(TRUE)
           /\ l' = l + 1 /\ UNCHANGED j

TrExit == /\ Is("Exit")
          /\ j' = [j EXCEPT !.exited = TRUE]
          /\ viol' = viol \cup Vs(j.authRej /\ Ev.code # 10, "AuthExit", ":code" \o ToStr(Ev.code))
                          \cup Vs(~j.authRej, "NoPanic", ":exit" \o ToStr(Ev.code))
          /\ l' = l + 1

TrPanic == /\ Is("Panic")
           /\ viol' = viol \cup {V("NoPanic", "@" \o Ev.site \o ":" \o j.cf.tag \o ":" \o Ev.op)}
           /\ l' = l + 1 /\ UNCHANGED j

TrEnd == /\ Is("End") /\ EmitVerdict
         /\ l' = l + 1 /\ viol' = {} /\ j' = J0

Next == TrCfg \/ TrCall \/ TrRet \/ TrDial \/ TrDialRet \/ TrHs \/ TrClosed \/ TrDrop \/ TrKick \/ TrWait \/ TrGaveUp
        \/ TrObs \/ TrFinal \/ TrExit \/ TrPanic \/ TrEnd
Spec == Init /\ [][Next]_vars
=============================================================================
