-------------------------- MODULE BruteForceLists --------------------------
(* C18 - the IPManager's lists at CRITICAL-SECTION / STORAGE-CALL granularity.                   *)
(*                                                                                            *)
(* BruteForce.tla treats every operation of security.IPManager as one step (Blk, MUnbl, Wl,      *)
(* CleanL, Reload).  This module opens those steps up: the manager's RWMutex `mu`, its two        *)
(* in-memory maps and the three things it keeps in Storage per list (the record under             *)
(* tunnox:security:ip:<list>:<entry>, stored with the remaining lifetime as TTL, and the index      *)
(* list tunnox:security:ip:<list>:index) are state, and every lock acquisition and every storage    *)
(* call is a step of its own - the granularity at which the periodic clean-up of expired entries    *)
(* can interleave with the operator's calls.  (The twin in the BruteForceProtector - cleanup()      *)
(* against banIP - has no storage behind it; it is BruteForce.tla's CleanScan / CleanDel.)          *)
(*                                                                                            *)
(* Code mapped (internal/security/ip_manager.go, ip_manager_storage.go):                          *)
(*   Call / Acq   an operator process calls AddToBlacklist (BlkP permanent, Blk temporary),          *)
(*            AddToWhitelist (Wl), RemoveFromBlacklist (MUnbl) or RemoveFromWhitelist (UnWl);         *)
(*            m.mu.Lock() - at once if the lock is free (got), otherwise the process waits and Acq     *)
(*            is the later acquisition - and the in-memory part of the call up to its first storage     *)
(*            call: m.blacklist[ip] = record / delete(m.blacklist, ip) / the same on the whitelist.    *)
(*   St       the next storage call of a process: saveToStorage = Set(record, ttl) then              *)
(*            AppendToList(index); removeFromStorage = Delete(record) then RemoveFromList(index).     *)
(*            The call returns after its last storage call (deferred Unlock): ret.                     *)
(*   CStart / Acq / St   one pass of IPManager.cleanup().  As the code stands ("locked") the whole   *)
(*            pass is ONE critical section: Lock, and for every expired entry - in the order of Go's   *)
(*            map iteration, i.e. any order - delete from the map, Delete(record), RemoveFromList,     *)
(*            Unlock at the end.  `now` is taken before the lock is requested.                         *)
(*   Query    IsAllowed(address): one read-locked look-up (whitelist first, then live blacklist        *)
(*            entries covering the address).  Not enabled while a writer holds the lock (it would      *)
(*            block), nor for an address whose exact entry is expired (it would spawn the lazy         *)
(*            removal, which BruteForce.tla models).                                                   *)
(*   Reload   a fresh IPManager over the same storage (restart; only when nothing is in flight):       *)
(*            for every key in the index list whose record Get still returns (TTL not run out) the     *)
(*            record is loaded - an index entry without record, a record without index entry are lost. *)
(*   Expire   time passes beyond the lifetime of every temporary entry that exists (an epoch ends).    *)
(*                                                                                            *)
(* Clean-up variants (constant Variants; the cleaner picks one per pass; "locked" = the code):     *)
(*   "split"                collect the expired keys under the READ lock, then per key: Lock, look   *)
(*                          the entry up again and skip it unless it is still expired, delete,         *)
(*                          Delete(record), RemoveFromList, Unlock.  A correct way to shorten the       *)
(*                          critical sections - all invariants hold.                                    *)
(*   "norecheck"            the same without looking the entry up again: deviation cleanupNoRecheck -  *)
(*                          an entry added between the collection and this key's turn is deleted.       *)
(*   "stunlocked"           per key: Lock, re-check, delete, Unlock - and the storage removal AFTER     *)
(*                          the Unlock: deviation cleanupStorageUnlocked - it removes the record and    *)
(*                          the index entry an AddToBlacklist has written meanwhile; memory keeps the    *)
(*                          entry, a restart loses it.                                                   *)
(*   "norecheck+stunlocked" both (the shape of seeded change C18-r5m2).                                  *)
(* When a per-key lock is released while operator calls wait for it, who gets it next - the cleaner    *)
(* for its next key or a waiting call - is a race in the code (sync.RWMutex): both outcomes are steps.  *)
(*                                                                                            *)
(* Time.  Epochs: a temporary entry added in epoch e is live during e and expired from e+1 on;        *)
(* the initial state is in epoch 1 with entries of kinds none / exp (temporary, added in epoch 0) /     *)
(* live / perm chosen freely per key (memory, storage and the operator's orders agree).                 *)
(*                                                                                            *)
(* Property level (ghosts):                                                                        *)
(*   ob[k]   the operator's latest order for entry k that has RETURNED (AddToBlacklist returned nil);   *)
(*           withdrawn when RemoveFromBlacklist is called                                               *)
(*   wob[k]  a whitelist order for k is in force or being given (from the call of AddToWhitelist to the  *)
(*           return of RemoveFromWhitelist): the statement is silent about whitelisted addresses          *)
(*   viol    "bl": a Query answered "allowed" although an order covering the address is in force          *)
(*   dev     named deviations of the code that happened                                                  *)
(* Invariants: BlacklistHolds (the clause of C18), MemKeeps / StoreKeeps (an order in force is in        *)
(* memory; when nothing is in flight it is in storage, so that a restart keeps it), NoDeviation.          *)
EXTENDS Naturals, Sequences, FiniteSets, TLC, Json

CONSTANTS Addrs,      \* addresses
          NetOf,      \* addresses for which a second entry form exists besides the address itself ("ip"): a CIDR
                      \* range containing only that address ("net")
          Ops,        \* operator processes (numbers 1, 2, ...)
          InitKinds,  \* kinds an entry may have initially: subset of {"none", "exp", "live", "perm"}
          OpKinds,    \* calls in the alphabet: subset of {"BlkP", "Blk", "Wl", "UnWl", "MUnbl"}
          Variants,   \* clean-up variants of this configuration
          MaxPass, MaxCalls, MaxEpoch, MaxExp,   \* bounds: clean-up passes, operator calls, epochs, initially expired entries
          MaxWait,    \* bound: processes that may wait for the lock at the same time (who of several waiters gets a
                      \* released lock is decided by the Go runtime, not by the schedule)
          Acts,       \* which of "Query", "Reload", "Expire" are in the alphabet
          Emit        \* behaviour generation: print the history after every step of these classes:
                      \*   "dev" a deviation / violation is recorded, "cend" a clean-up pass ends,
                      \*   "ret" an operator call returns while a pass is in progress, "Query", "Reload"

VARIABLES epoch, mem, wlm,         \* IPManager: the two maps (blacklist entry per key; whitelisted?)
          rec, idx, wrec, widx,     \* Storage: blacklist records and index, whitelist records and index
          mu,                       \* holder of the write lock: 0 = free, an operator process, Cl = the cleaner
          opc, oarg,                \* operator processes: program counter, current call
          cpc, cv, cnow, todo,      \* cleaner: program counter, variant, `now` of the pass, keys still to remove (head = current)
          npass, ncalls,
          ob, wob, viol, dev,       \* ghosts
          hist
vars == <<epoch, mem, wlm, rec, idx, wrec, widx, mu, opc, oarg, cpc, cv, cnow, todo, npass, ncalls, ob, wob, viol, dev, hist>>
view == <<epoch, mem, wlm, rec, idx, wrec, widx, mu, opc, oarg, cpc, cv, cnow, todo, npass, ncalls, ob, wob, viol, dev>>

Cl == 99             \* the cleaner as a lock holder / process number (operators are 1, 2, ...)
Keys == (Addrs \X {"ip"}) \cup (NetOf \X {"net"})       \* <<address, form>>; the entry covers exactly that address
None    == [k |-> "none", ep |-> 0]
Perm    == [k |-> "perm", ep |-> 0]
Temp(e) == [k |-> "temp", ep |-> e]
LiveAt(e, n) == e.k = "perm" \/ (e.k = "temp" /\ e.ep >= n)
ExpAt(e, n)  == e.k = "temp" /\ e.ep < n
Live(e)    == LiveAt(e, epoch)
Expired(e) == ExpAt(e, epoch)
StHas(k)   == Live(rec[k])          \* Storage.Get returns the record (written with the remaining lifetime as TTL)

Split(v)   == v # "locked"
Recheck(v) == v \in {"split", "stunlocked"}
StOut(v)   == v \in {"stunlocked", "norecheck+stunlocked"}

NoArg == [op |-> "", k |-> <<"", "">>, e |-> None]
InitEntry(kind) == CASE kind = "none" -> None [] kind = "exp" -> Temp(0) [] kind = "live" -> Temp(1) [] kind = "perm" -> Perm

Init == /\ epoch = 1 /\ mu = 0
        /\ \E f \in [Keys -> InitKinds] :
              /\ Cardinality({k \in Keys : f[k] = "exp"}) <= MaxExp
              /\ mem = [k \in Keys |-> InitEntry(f[k])]
              /\ rec = [k \in Keys |-> InitEntry(f[k])]
              /\ ob  = [k \in Keys |-> InitEntry(f[k])]
              /\ idx = {k \in Keys : f[k] # "none"}
              /\ hist = << [a |-> "Init", st |-> {[ad |-> k[1], f |-> k[2], kind |-> f[k]] : k \in Keys}] >>
        /\ wlm = [k \in Keys |-> FALSE] /\ wrec = {} /\ widx = {} /\ wob = [k \in Keys |-> FALSE]
        /\ opc = [p \in Ops |-> "idle"] /\ oarg = [p \in Ops |-> NoArg]
        /\ cpc = "idle" /\ cv = "" /\ cnow = 0 /\ todo = <<>> /\ npass = 0 /\ ncalls = 0
        /\ viol = {} /\ dev = {}

Log(e) == hist' = Append(hist, e)

Waiters == {p \in Ops : opc[p] = "wait"} \cup (IF cpc \in {"wait0", "waitk"} THEN {Cl} ELSE {})
\* a free lock with a process waiting for it is taken at once: nothing else happens in between
Urgent == mu = 0 /\ Waiters # {}
Quiet  == cpc = "idle" /\ \A p \in Ops : opc[p] = "idle"

\* ---- operator calls ------------------------------------------------------------------------------
\* the in-memory part of a call, from the lock acquisition to the first storage call (or to the return)
Enter(p, a) ==
  CASE a.op \in {"BlkP", "Blk"} ->
         /\ mem' = [mem EXCEPT ![a.k] = a.e] /\ mu' = p /\ opc' = [opc EXCEPT ![p] = "set"] /\ wlm' = wlm
    [] a.op = "Wl" ->
         /\ wlm' = [wlm EXCEPT ![a.k] = TRUE] /\ mu' = p /\ opc' = [opc EXCEPT ![p] = "set"] /\ mem' = mem
    [] a.op = "MUnbl" ->
         /\ IF mem[a.k].k # "none"
            THEN mem' = [mem EXCEPT ![a.k] = None] /\ mu' = p /\ opc' = [opc EXCEPT ![p] = "del"]
            ELSE mem' = mem /\ mu' = 0 /\ opc' = [opc EXCEPT ![p] = "idle"]      \* nothing to remove: returns
         /\ wlm' = wlm
    [] a.op = "UnWl" ->
         /\ IF wlm[a.k]
            THEN wlm' = [wlm EXCEPT ![a.k] = FALSE] /\ mu' = p /\ opc' = [opc EXCEPT ![p] = "del"]
            ELSE wlm' = wlm /\ mu' = 0 /\ opc' = [opc EXCEPT ![p] = "idle"]
         /\ mem' = mem
\* does the call return inside Enter (nothing to remove)?
EnterReturns(a) == (a.op = "MUnbl" /\ mem[a.k].k = "none") \/ (a.op = "UnWl" /\ ~wlm[a.k])

Call(p, op, k) ==
  /\ ~Urgent /\ opc[p] = "idle" /\ op \in OpKinds /\ ncalls < MaxCalls
  /\ \A q \in Ops : q < p => opc[q] # "idle"            \* (the operator processes are interchangeable: the lowest idle one)
  /\ \A q \in Ops : opc[q] # "idle" => oarg[q].k # k          \* the operator gives one order per entry at a time
  /\ (mu # 0 => Cardinality(Waiters) < MaxWait)
  /\ LET a == [op |-> op, k |-> k, e |-> IF op = "BlkP" THEN Perm ELSE IF op = "Blk" THEN Temp(epoch) ELSE None]
     IN /\ oarg' = [oarg EXCEPT ![p] = a] /\ ncalls' = ncalls + 1
        /\ IF mu = 0 THEN Enter(p, a)
           ELSE opc' = [opc EXCEPT ![p] = "wait"] /\ UNCHANGED <<mem, wlm, mu>>
        /\ wob' = IF op = "Wl" THEN [wob EXCEPT ![k] = TRUE]
                  ELSE IF op = "UnWl" /\ mu = 0 /\ ~wlm[k] THEN [wob EXCEPT ![k] = FALSE] ELSE wob
        /\ ob' = IF op = "MUnbl" THEN [ob EXCEPT ![k] = None] ELSE ob       \* the order is withdrawn by the call
        /\ Log([a |-> "Call", p |-> p, op |-> op, ad |-> k[1], f |-> k[2], got |-> mu = 0,
                ret |-> mu = 0 /\ EnterReturns(a)])
  /\ UNCHANGED <<epoch, rec, idx, wrec, widx, cpc, cv, cnow, todo, npass, viol, dev>>

OpAcq(p) ==
  /\ opc[p] = "wait" /\ mu = 0
  /\ LET a == [oarg[p] EXCEPT !.e = IF oarg[p].op = "Blk" THEN Temp(epoch) ELSE @]     \* `now` is read under the lock
     IN /\ oarg' = [oarg EXCEPT ![p] = a]
        /\ Enter(p, a)
        /\ wob' = IF a.op = "UnWl" /\ ~wlm[a.k] THEN [wob EXCEPT ![a.k] = FALSE] ELSE wob
        /\ Log([a |-> "Acq", p |-> p, ret |-> EnterReturns(a)])
  /\ UNCHANGED <<epoch, rec, idx, wrec, widx, cpc, cv, cnow, todo, npass, ncalls, ob, viol, dev>>

OpSt(p) ==
  /\ ~Urgent /\ opc[p] \in {"set", "idx", "del", "rem"}
  /\ LET a == oarg[p]  k == a.k  bl == a.op \in {"BlkP", "Blk", "MUnbl"}
         last == opc[p] \in {"idx", "rem"}
     IN /\ CASE opc[p] = "set" -> IF bl THEN rec' = [rec EXCEPT ![k] = a.e] /\ UNCHANGED <<idx, wrec, widx>>
                                        ELSE wrec' = wrec \cup {k} /\ UNCHANGED <<rec, idx, widx>>
          [] opc[p] = "idx" -> IF bl THEN idx' = idx \cup {k} /\ UNCHANGED <<rec, wrec, widx>>
                                     ELSE widx' = widx \cup {k} /\ UNCHANGED <<rec, idx, wrec>>
          [] opc[p] = "del" -> IF bl THEN rec' = [rec EXCEPT ![k] = None] /\ UNCHANGED <<idx, wrec, widx>>
                                     ELSE wrec' = wrec \ {k} /\ UNCHANGED <<rec, idx, widx>>
          [] opc[p] = "rem" -> IF bl THEN idx' = idx \ {k} /\ UNCHANGED <<rec, wrec, widx>>
                                     ELSE widx' = widx \ {k} /\ UNCHANGED <<rec, idx, wrec>>
        /\ opc' = [opc EXCEPT ![p] = CASE @ = "set" -> "idx" [] @ = "del" -> "rem" [] OTHER -> "idle"]
        /\ mu' = IF last THEN 0 ELSE mu
        /\ ob' = IF last /\ a.op \in {"BlkP", "Blk"} THEN [ob EXCEPT ![k] = a.e] ELSE ob     \* AddToBlacklist returns nil
        /\ wob' = IF last /\ a.op = "UnWl" THEN [wob EXCEPT ![k] = FALSE] ELSE wob
        /\ Log([a |-> "St", p |-> p, g |-> CASE opc[p] = "set" -> "Set" [] opc[p] = "idx" -> "Append"
                                              [] opc[p] = "del" -> "Delete" [] OTHER -> "Remove",
                ad |-> k[1], f |-> k[2], ret |-> last])
  /\ UNCHANGED <<epoch, mem, wlm, oarg, cpc, cv, cnow, todo, npass, ncalls, viol, dev>>

\* ---- the clean-up pass ---------------------------------------------------------------------------
Perms(S) == {s \in [1..Cardinality(S) -> S] : \A x, y \in 1..Cardinality(S) : x # y => s[x] # s[y]}

\* split variants with re-check: keys whose entry is no longer an expired one are skipped
RECURSIVE Skip(_, _)
Skip(v, s) == IF s = <<>> THEN <<>>
              ELSE IF Recheck(v) /\ ~Expired(mem[Head(s)]) THEN Skip(v, Tail(s))
              ELSE s

\* the cleaner takes (or keeps) the lock for the next key of s, deletes its entry from the map and
\* stands before the key's first storage call - or finds nothing left and ends the pass
Rest(v, s) == IF Split(v) THEN Skip(v, s) ELSE s
Proceed(v, s) ==
  LET r == Rest(v, s) IN
  IF r = <<>>
  THEN /\ cpc' = "idle" /\ mu' = 0 /\ todo' = <<>> /\ mem' = mem
  ELSE /\ mem' = [mem EXCEPT ![Head(r)] = None]
       /\ todo' = r /\ cpc' = "del"
       /\ mu' = IF StOut(v) THEN 0 ELSE Cl
\* deviation recorded by that step: an entry that is in force is deleted
PDev(v, s) == LET r == Rest(v, s) IN IF r # <<>> /\ Live(mem[Head(r)]) THEN {"cleanupNoRecheck"} ELSE {}
NoKey == [to |-> "end", ad |-> "", f |-> ""]
After(v, s) == LET r == Rest(v, s) IN IF r = <<>> THEN NoKey ELSE [to |-> "del", ad |-> Head(r)[1], f |-> Head(r)[2]]

\* the pass begins with the lock free: collect (any iteration order) and go to the first key
Begin(v, now) ==
  \E s \in Perms({k \in Keys : ExpAt(mem[k], now)}) :
      /\ Proceed(v, s) /\ dev' = dev \cup PDev(v, s)
      /\ Log([a |-> IF cpc = "idle" THEN "CStart" ELSE "Acq", p |-> Cl, v |-> v, got |-> TRUE,
              ord |-> [x \in 1..Len(s) |-> [ad |-> s[x][1], f |-> s[x][2]]], nx |-> After(v, s)])

CStart(v) ==
  /\ ~Urgent /\ cpc = "idle" /\ npass < MaxPass /\ v \in Variants
  /\ (mu # 0 => Cardinality(Waiters) < MaxWait)
  /\ cv' = v /\ cnow' = epoch /\ npass' = npass + 1
  /\ IF mu = 0 THEN Begin(v, epoch)
     ELSE /\ cpc' = "wait0" /\ UNCHANGED <<mem, mu, todo, dev>>
          /\ Log([a |-> "CStart", p |-> Cl, v |-> v, got |-> FALSE, ord |-> <<>>, nx |-> [NoKey EXCEPT !.to = "wait"]])
  /\ UNCHANGED <<epoch, wlm, rec, idx, wrec, widx, opc, oarg, ncalls, ob, wob, viol>>

CAcq ==
  /\ cpc \in {"wait0", "waitk"} /\ mu = 0
  /\ IF cpc = "wait0" THEN Begin(cv, cnow)
     ELSE /\ Proceed(cv, todo) /\ dev' = dev \cup PDev(cv, todo)
          /\ Log([a |-> "Acq", p |-> Cl, v |-> cv, got |-> TRUE, ord |-> <<>>, nx |-> After(cv, todo)])
  /\ UNCHANGED <<epoch, wlm, rec, idx, wrec, widx, opc, oarg, cv, cnow, npass, ncalls, ob, wob, viol>>

CSt ==
  /\ ~Urgent /\ cpc \in {"del", "rem"}
  /\ LET k == Head(todo)  rest == Tail(todo)
         \* the storage removal takes away what an AddToBlacklist wrote after the entry was deleted from the map
         newer == StOut(cv) /\ mem[k].k # "none"
         StLog(g, ret, nx) == Log([a |-> "St", p |-> Cl, g |-> g, ad |-> k[1], f |-> k[2], ret |-> ret, nx |-> nx])
     IN IF cpc = "del"
        THEN /\ rec' = [rec EXCEPT ![k] = None] /\ cpc' = "rem"
             /\ dev' = IF newer /\ rec[k] = mem[k] THEN dev \cup {"cleanupStorageUnlocked"} ELSE dev
             /\ StLog("Delete", FALSE, [to |-> "rem", ad |-> k[1], f |-> k[2]])
             /\ UNCHANGED <<mem, idx, mu, todo>>
        ELSE /\ idx' = idx \ {k} /\ rec' = rec
             /\ LET lost == newer /\ k \in idx /\ ~(\E p \in Ops : opc[p] \in {"set", "idx"} /\ oarg[p].k = k)
                    d0 == IF lost THEN dev \cup {"cleanupStorageUnlocked"} ELSE dev
                IN \* the next key: "locked" keeps the lock; the split variants take it again per key - at once
                   \* if nobody holds it, in a race with the calls waiting for it, behind a call that holds it
                   IF ~Split(cv)
                   THEN /\ Proceed(cv, rest) /\ dev' = d0
                        /\ StLog("Remove", rest = <<>>, After(cv, rest))
                   ELSE IF rest = <<>>
                   THEN /\ cpc' = "idle" /\ todo' = <<>> /\ mem' = mem /\ dev' = d0
                        /\ mu' = IF StOut(cv) THEN mu ELSE 0
                        /\ StLog("Remove", TRUE, NoKey)
                   ELSE \/ /\ (StOut(cv) => mu = 0)            \* the cleaner gets the lock for its next key
                           /\ Proceed(cv, rest) /\ dev' = d0 \cup PDev(cv, rest)
                           /\ StLog("Remove", Rest(cv, rest) = <<>>, After(cv, rest))
                        \/ /\ IF StOut(cv) THEN mu # 0 ELSE \E p \in Ops : opc[p] = "wait"     \* somebody else has / gets it first
                           /\ cpc' = "waitk" /\ todo' = rest /\ mem' = mem /\ dev' = d0
                           /\ mu' = IF StOut(cv) THEN mu ELSE 0
                           /\ StLog("Remove", FALSE, [NoKey EXCEPT !.to = "wait"])
  /\ UNCHANGED <<epoch, wlm, wrec, widx, opc, oarg, cv, cnow, npass, ncalls, ob, wob, viol>>

\* ---- observation, restart, time --------------------------------------------------------------------
Keyof(a)  == {k \in Keys : k[1] = a}
White(a)  == \E k \in Keyof(a) : wlm[k]
Refused(a) == ~White(a) /\ \E k \in Keyof(a) : Live(mem[k])
Demanded(a) == (\E k \in Keyof(a) : Live(ob[k])) /\ ~(\E k \in Keyof(a) : wob[k])

Query(a) ==
  /\ "Query" \in Acts /\ ~Urgent /\ mu = 0
  /\ (<<a, "ip">> \in Keys => ~Expired(mem[<<a, "ip">>]))        \* no lazy removal is spawned (BruteForce.tla models that path)
  /\ viol' = IF ~Refused(a) /\ Demanded(a) THEN viol \cup {"bl"} ELSE viol
  /\ Log([a |-> "Query", ad |-> a, bl |-> Refused(a)])
  /\ UNCHANGED <<epoch, mem, wlm, rec, idx, wrec, widx, mu, opc, oarg, cpc, cv, cnow, todo, npass, ncalls, ob, wob, dev>>

Reload ==
  /\ "Reload" \in Acts /\ Quiet /\ ~Urgent
  /\ mem' = [k \in Keys |-> IF k \in idx /\ StHas(k) THEN rec[k] ELSE None]
  /\ wlm' = [k \in Keys |-> k \in widx /\ k \in wrec]
  /\ Log([a |-> "Reload"])
  /\ UNCHANGED <<epoch, rec, idx, wrec, widx, mu, opc, oarg, cpc, cv, cnow, todo, npass, ncalls, ob, wob, viol, dev>>

Expire ==
  /\ "Expire" \in Acts /\ ~Urgent /\ epoch < MaxEpoch
  /\ epoch' = epoch + 1
  /\ Log([a |-> "Expire"])
  /\ UNCHANGED <<mem, wlm, rec, idx, wrec, widx, mu, opc, oarg, cpc, cv, cnow, todo, npass, ncalls, ob, wob, viol, dev>>

Step == \/ \E p \in Ops : \/ \E op \in OpKinds, k \in Keys : Call(p, op, k)
                          \/ OpAcq(p) \/ OpSt(p)
        \/ \E v \in Variants : CStart(v)
        \/ CAcq \/ CSt
        \/ \E a \in Addrs : Query(a)
        \/ Reload \/ Expire

Last == hist'[Len(hist')]
Out == IF Emit = {} THEN TRUE
       ELSE IF \/ ("dev" \in Emit /\ (dev' # dev \/ viol' # viol))
               \/ ("cend" \in Emit /\ cpc # "idle" /\ cpc' = "idle")
               \/ ("ret" \in Emit /\ cpc' # "idle" /\ "ret" \in DOMAIN Last /\ Last.ret /\ Last.p # Cl)
               \/ (Last.a \in Emit)
            THEN PrintT("BEH " \o ToJson([lists |-> [v |-> IF cv' = "" THEN "locked" ELSE cv'], s |-> hist']))
            ELSE TRUE
Next == Step /\ Out
Spec == Init /\ [][Next]_vars

\* ---- properties (C18, blacklist clause) ------------------------------------------------------------
TypeOK == /\ epoch \in 1..MaxEpoch /\ mu \in {0, Cl} \cup Ops
          /\ \A k \in Keys : mem[k].k \in {"none", "temp", "perm"} /\ rec[k].k \in {"none", "temp", "perm"}
          /\ idx \subseteq Keys /\ wrec \subseteq Keys /\ widx \subseteq Keys
          /\ cpc \in {"idle", "wait0", "waitk", "del", "rem"}
          /\ \A p \in Ops : opc[p] \in {"idle", "wait", "set", "idx", "del", "rem"}
          /\ (cpc \in {"del", "rem"} => todo # <<>>)
\* a blacklisted address (an order that returned and was not withdrawn) that is not whitelisted is refused
BlacklistHolds == "bl" \notin viol
\* an order in force is in the map (while a new order for the entry is being given - the call holds the
\* lock from the map update to its return - the map already has the new entry: the weaker of the two counts) ...
Replacing(k) == \E p \in Ops : opc[p] \in {"set", "idx"} /\ oarg[p].k = k /\ oarg[p].op \in {"BlkP", "Blk"}
MemKeeps   == \A k \in Keys : (Live(ob[k]) /\ ~Replacing(k)) => Live(mem[k])
\* ... and, whenever nothing is in flight, in storage: a restart keeps it
StoreKeeps == Quiet => \A k \in Keys : Live(ob[k]) => (k \in idx /\ StHas(k))
\* the lock is held exactly by a process inside a critical section
LockOK == /\ (mu \in Ops => opc[mu] \in {"set", "idx", "del", "rem"})
          /\ (mu = Cl => cpc \in {"del", "rem"} /\ ~StOut(cv))
          /\ \A p \in Ops : opc[p] \in {"set", "idx", "del", "rem"} => mu = p
NoDeviation == dev = {}
=============================================================================
