---------------------------- MODULE IdGenTrace ----------------------------
(* C15 judge (property level).  One alphabet for generated ids (client / user / mapping /     *)
(* node_ ids of idgen) and for node ids of the allocator; ids are strings.  Per trace:        *)
(*   Cfg    [d, scope, taken]      d = detail prefix naming the configuration                 *)
(*                                  ("gen:<store>:<layout>:<api>:<kind>[:ttl0]" |               *)
(*                                   "node:<wiring>" | "uuid:<api>:<kind>"),                   *)
(*                                  taken = ids that exist before the first call (colliding    *)
(*                                  pre-existing ids / slots of foreign live nodes),           *)
(*                                  scope = FALSE: cross-instance uniqueness is not demanded   *)
(*                                  (store without SetNX used by more than one generator       *)
(*                                  instance: no such store exists in tunnox-core, see         *)
(*                                  driver) - every other clause still is                      *)
(*                                  optional (traces of the IDManager's retry layer, d =         *)
(*                                  "uniq:<store>:<layout>:<api>"): repo = ids that exist in the  *)
(*                                  caller's repository (what its check function answers         *)
(*                                  "exists" for) - taken although they carry no marker;         *)
(*                                  clean = TRUE: no store fault is injected in this trace, so   *)
(*                                  every live marker must be accounted for                      *)
(*   Call   [p, op, id]            op = "Gen" (Generate / GenerateUniqueXxxID / AllocateNodeID)   *)
(*                                  | "Rel" (Release id)                                          *)
(*   Ret    [p, op, ok, id, err]   err = "" | "exhausted" | "entropy" (the random source the    *)
(*                                  driver made fail was reported, by error or abort, and no id *)
(*                                  was handed out) | other error class; a failed               *)
(*                                  AllocateNodeID also carries own = what the allocator itself *)
(*                                  now reports as its node id (GetNodeID)                      *)
(*   Crash  [p]                    node p stopped (heartbeats ended) without releasing         *)
(*   Expire [id]                   the store dropped the marker / claim key of id (TTL)        *)
(*   Snap   [markers, quiet]       ids whose marker / claim key is live in the shared store;   *)
(*                                  quiet = no call is in progress                             *)
(* File order is sound real-time order: the driver logs Call before invoking and Ret after    *)
(* the call has returned.  An id is OUTSTANDING from the Ret of the successful Gen that       *)
(* returned it until the Call of a Rel of that id (or the Crash of its node).  Hence: id X    *)
(* returned by call B while X is outstanding (returned by A earlier in the file, no Rel(X)    *)
(* call logged in between) => both were un-released at the instant B's Ret was logged.        *)
(* Clauses (the statement of C15):                                                            *)
(*   Duplicate       a successful Gen returns an id that is outstanding                       *)
(*   Taken           a successful Gen returns an id that was taken before the trace began     *)
(*                   (":repo": taken according to the caller's repository - "a returned id    *)
(*                   was free at return" for GenerateUniqueXxxID; not asked of a Ret that     *)
(*                   carries assumed = TRUE: the caller's check function failed in that call  *)
(*                   and the code, deliberately, assumes the id free.  Everything else is     *)
(*                   demanded of such an id as of any other: it is outstanding, so it must    *)
(*                   keep its marker - Unmarked - and must not be handed out again -          *)
(*                   Duplicate; uniq traces end with another manager drawing every            *)
(*                   outstanding id once more)                                                *)
(*   UncleanFailure  a Gen that fails does so with anything but the exhaustion error, or      *)
(*                   (allocator) fails but keeps an id as its own (":stale-own-id")           *)
(*                   ("fails cleanly instead of duplicating": with every candidate taken the  *)
(*                   only accepted outcomes are that error - a success would be Taken or      *)
(*                   Duplicate), or (":marker-left", clean traces only) at quiescence a live  *)
(*                   marker belongs neither to a pre-existing id nor to an outstanding one:   *)
(*                   a generation that gave up (or collided and went on) left its candidate   *)
(*                   marked - not failing cleanly: that id can never be generated again       *)
(*   Unmarked        at quiescence an outstanding id has no live marker in the shared store   *)
(*                   although nothing expired it and nobody released it (the next generation  *)
(*                   anywhere would hand it out again), or an id taken before the trace began *)
(*                   has lost its marker although nobody released it (":pre-existing": its    *)
(*                   live foreign owner is about to get a twin); judged only on traces        *)
(*                   without an earlier violation                                             *)
(* Store faults injected by the driver are not events: whatever a call does when a store      *)
(* operation fails, its result must satisfy the same clauses.                                 *)
(* Lease traces (d = "node:<wiring>:lease", driven in virtual time): between the events any   *)
(* number of renew periods may have passed and any renewal of a holder may have failed with a *)
(* transient store error (never two in a row) - neither is an event: a node that has not      *)
(* released its id and has not crashed keeps it OUTSTANDING however long the history is, so a *)
(* lease that was lost on the way (heartbeat ended, renewed too short, renewed elsewhere)     *)
(* shows as Duplicate (":after-expiry" when the driver saw the claim key go) at the next      *)
(* allocation that is handed the id - every lease trace ends with an allocation by a fresh    *)
(* node, four fault-free periods and another allocation by a fresh node.                      *)
EXTENDS VLib

VARIABLES d, scope, taken,
          repo,      \* ids that exist in the caller's repository (no marker expected)
          clean,     \* the trace promises that no store fault was injected
          out,       \* outstanding: set of [id, p, n]  (n = line of the Ret, makes it a multiset)
          expired    \* ids for which an Expire was seen (only qualifies the detail of Duplicate)
vars == <<l, viol, d, scope, taken, repo, clean, out, expired>>

Elems(s) == {s[i] : i \in 1..Len(s)}
Init == l = 1 /\ viol = {} /\ d = "?" /\ scope = TRUE /\ taken = {} /\ repo = {} /\ clean = FALSE /\ out = {} /\ expired = {}

TrCfg == /\ Is("Cfg")
         /\ d' = Ev.d /\ scope' = Ev.scope /\ taken' = Elems(Ev.taken)
         /\ repo' = (IF Has("repo") THEN Elems(Ev.repo) ELSE {}) /\ clean' = (Has("clean") /\ Ev.clean)
         /\ l' = l + 1 /\ UNCHANGED <<viol, out, expired>>

Oldest(S) == CHOOSE r \in S : \A q \in S : r.n <= q.n
TrCall == /\ Is("Call")
          /\ IF Ev.op = "Rel"
             THEN LET mine == {r \in out : r.id = Ev.id /\ r.p = Ev.p}
                      any  == {r \in out : r.id = Ev.id}
                  IN /\ out' = IF mine # {} THEN out \ {Oldest(mine)}
                               ELSE IF any # {} THEN out \ {Oldest(any)} ELSE out
                     /\ taken' = taken \ {Ev.id}
             ELSE UNCHANGED <<out, taken>>
          /\ l' = l + 1 /\ UNCHANGED <<viol, d, scope, repo, clean, expired>>

TrRet == /\ Is("Ret")
         /\ IF Ev.op = "Gen"
            THEN IF Ev.ok
                 THEN /\ viol' = viol
                           \cup (IF Ev.id \in taken THEN {V("Taken", d)} ELSE {})
                          \cup (IF Ev.id \in repo /\ ~(Has("assumed") /\ Ev.assumed) THEN {V("Taken", d \o ":repo")} ELSE {})
                           \cup (IF scope /\ \E r \in out : r.id = Ev.id
                                 THEN {V("Duplicate", d \o (IF Ev.id \in expired THEN ":after-expiry" ELSE ""))}
                                 ELSE {})
                      /\ out' = out \cup {[id |-> Ev.id, p |-> Ev.p, n |-> l]}
                 ELSE /\ viol' = viol \cup (IF Ev.err \in {"exhausted", "entropy"} THEN {} ELSE {V("UncleanFailure", d \o ":" \o Ev.err)})
                                       \cup (IF Has("own") /\ Ev.own # "" THEN {V("UncleanFailure", d \o ":stale-own-id")} ELSE {})
                      /\ out' = out
            ELSE UNCHANGED <<viol, out>>
         /\ l' = l + 1 /\ UNCHANGED <<d, scope, taken, repo, clean, expired>>

TrCrash == /\ Is("Crash")
           /\ out' = {r \in out : r.p # Ev.p}
           /\ l' = l + 1 /\ UNCHANGED <<viol, d, scope, taken, repo, clean, expired>>

TrExpire == /\ Is("Expire")
            /\ expired' = expired \cup {Ev.id}
            /\ l' = l + 1 /\ UNCHANGED <<viol, d, scope, taken, repo, clean, out>>

TrSnap == /\ Is("Snap")
          /\ LET missing == {r \in out : r.id \notin expired /\ r.id \notin Elems(Ev.markers)}
                 lost    == {x \in taken : x \notin expired /\ x \notin Elems(Ev.markers)}
                 left    == {x \in Elems(Ev.markers) : x \notin taken /\ \A r \in out : r.id # x}
             IN viol' = IF Ev.quiet /\ scope /\ viol = {}
                        THEN (IF missing # {} THEN {V("Unmarked", d)} ELSE {})
                             \cup (IF lost # {} THEN {V("Unmarked", d \o ":pre-existing")} ELSE {})
                             \cup (IF clean /\ left # {} THEN {V("UncleanFailure", d \o ":marker-left")} ELSE {})
                        ELSE viol
          /\ l' = l + 1 /\ UNCHANGED <<d, scope, taken, repo, clean, out, expired>>

TrEnd == /\ Is("End") /\ EmitVerdict
         /\ l' = l + 1 /\ viol' = {} /\ d' = "?" /\ scope' = TRUE /\ taken' = {} /\ repo' = {} /\ clean' = FALSE /\ out' = {} /\ expired' = {}

Next == TrCfg \/ TrCall \/ TrRet \/ TrCrash \/ TrExpire \/ TrSnap \/ TrEnd
Spec == Init /\ [][Next]_vars
=============================================================================
