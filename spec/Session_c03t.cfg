\* C03 thorough: 3 connections x 3 clients.
CONSTANTS
  Conn <- Conn3
  Client <- Client3
  MaxNonce = 2
  MaxFail = 3
  MaxCtl = 0
  Faults = {}
  Ops = {"Msg", "Ban", "Blacklist", "Expire", "Bind"}
  Types = {"control", "tunnel"}
  PreAccept = TRUE
  Fixes = @@FIXES@@
  Split = FALSE
  MaxLevel = @@LEVEL@@
  Emit = @@EMIT@@
INIT Init
NEXT Next
VIEW view
INVARIANTS TypeOK OnlyProven StepsOK ProvenIssued C07InvMasked C07OneMasked
CHECK_DEADLOCK FALSE
