\* All named deviations in ONE run (run by drivers/c04 as a design check that must PASS):
\* MUT = {"*"} makes the deviation a dimension of the cell (cell.mut: asFound = FIXES {} on the
\* tree as found; usageAsync, expirySkew, headerFirst, lookupCache, validityCache, closeStaleCopy on
\* the tree with patches C04-1..3).  ShowRecord notes which of them reached an unauthorised
\* attachment (att /\ ~ent), POSTCONDITION AllShown demands that every one did.  The single
\* configurations TunnelOpen_show_<name>.cfg show the same one by one, with TLC's counterexample.
\* One worker (TLC registers are per worker).  Identities / credentials reduced to those the
\* deviations need; ~10^4 states.
\*   tlc -workers 1 -config TunnelOpen_show_all.cfg TunnelOpen.tla
CONSTANTS
  FIXES = {"validateJoin", "secretValidity", "bindMapping", "bindMappingPoll"}
  Idents = {"listen", "target", "stranger"}
  Creds = {"idOnly", "rightSecret", "otherId"}
  MStates = {"active", "revoked", "expired", "expiredJust", "lapsed", "inactive", "error", "suspended", "missing"}
  Shapes = {"std"}
  MUT = {"*"}
  TStates = {"none", "waiting", "served", "prefixRemote", "prefixRemoteRev"}
  Orders = {"legitFirst", "slowUsage", "closeAfter"}
  Masked = FALSE
  Emit = FALSE
INIT Init
NEXT Next
INVARIANTS TypeOK ShowRecord OnlyAttachedRead
POSTCONDITION AllShown
CHECK_DEADLOCK FALSE
