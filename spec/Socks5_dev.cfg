\* C20: the model with the two deviations found in tunnox-core before patches C20-1 / C20-2:
\*   Greedy    - SocksAdapter.handleHandshake read the greeting with io.ReadAtLeast(buf[257], 2) and dropped
\*               whatever followed METHODS in the same chunk (the pipelined request);
\*   UdpMinLen - parseUDPHeader refused every datagram shorter than 10 bytes.
\* Conforms holds because every divergence from the reference is explained by a fired deviation (`dev`);
\* PlainJoin - (seeded change r3m2) SocksAdapter.handleRequest builds "host:port" by concatenation, so a name with ":" does not split.
\* NetipText - (seeded change r5m3) the parsers print IP addresses with net/netip: observably the same wherever the text is only handed
\*               on (listener, adapter); on the UDP path the encoder reads an IPv4-mapped address back as IPv4 and the round trip breaks.
\* NoDev is deliberately NOT checked here (it fails: e.g. datagram 00 00 00 03 01 61 00 35).
CONSTANTS
  Emit = FALSE
  Profiles = {"listener", "adapter", "adapterauth"}
  Greedy = {"adapter", "adapterauth"}
  UdpMinLen = 10
  Full = FALSE
  DLens = {0, 1, 2, 7, 255}
  Chunkings = {"all", "msg", "bytes", "split"}
  CutChunkings = {"all", "msg", "bytes", "split"}
  WithUdp = TRUE
  PlainJoin = {"adapter", "adapterauth"}
  NetipText = {"listener", "adapter", "adapterauth", "udp"}
  ValClasses = TRUE
INIT Init
NEXT Next
INVARIANTS TypeOK Conforms NoReadPast ExpectFixed UdpRoundTrip DoneIsFinal HostPort
PROPERTIES StepsAdvance
CHECK_DEADLOCK TRUE
