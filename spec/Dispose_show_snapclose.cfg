\* C16, documentation run (not part of ./check): hypothetical design "snapclose" alone against the STRICT property.
\* TLC reports "Invariant ConnOnce is violated":
\* Bridge.Close snapshotting its connections under RLock and closing them outside the locks (seeded change
\* C16-r2m2): overlapping Close calls close every connection twice, a target connection stored meanwhile is
\* wiped unclosed (dev_snap)
\* The check itself (Dispose.cfg) verifies the same configuration against  property \/ named deviation  and passes.
CONSTANTS
  Suite = "show_snapclose"
  Emit = FALSE
INIT Init
NEXT Next
VIEW view
INVARIANTS TypeOK ConnOnce
CHECK_DEADLOCK FALSE
