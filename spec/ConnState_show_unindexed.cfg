\* C08 documentation cfg (not run by the check): tlc -config ConnState_show_unindexed.cfg ConnState.tla
\* Seeded change C08-r3m3: the location record is filled from the request's client id; a first-connection handshake (id allocated by the server) is stored with client 0 and never indexed (deviation unindexed).
\* Expected: Invariant FindLive is violated.
CONSTANTS
  Nodes = {"A", "B"}
  NConns = 2
  Clients = {"X"}
  TTL = 2
  MaxClock = 1000
  MaxHist = 99
  Shapes = {"str"}
  CasSet = {FALSE}
  FixSets = {{"ptrShape", "condIdxDelete", "hbRefresh", "successOnly"}}
  Causes = {"peer"}
  KeepCreatedAt = FALSE
  UseRequestId = TRUE
  IdxRenew = "checkSet"
  RecRenew = "set"
  Lookups = FALSE
  WritingLookup = FALSE
  InFlight = FALSE
  ClientState = FALSE
  Emit = FALSE
  Only = "all"
INIT Init
NEXT Next
VIEW view
INVARIANTS TypeOK FindClosed FindLive
CHECK_DEADLOCK FALSE
