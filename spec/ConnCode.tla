------------------------------ MODULE ConnCode ------------------------------
(* C06 (and the quota reads of C17) - implementation-shaped model of                          *)
(*   conncode.Service.ActivateConnectionCode / RevokeConnectionCode                           *)
(* for ONE connection code, at storage-operation granularity: one action per storage call     *)
(* (= one gate of the store double), pure in-memory code merged into the storage step that    *)
(* precedes it.                                                                               *)
(*                                                                                            *)
(* Code mapped (tunnox-core/internal/cloud):                                                  *)
(*   services/conncode/activation.go   ActivateConnectionCode, RevokeConnectionCode           *)
(*   repos/connection_code_repository.go GetByCode, Update (2 x Set with the remaining TTL)   *)
(*   services/port_mapping_service.go  CreatePortMapping, DeletePortMapping (rollback)        *)
(*   repos/mapping_repository.go       CreatePortMapping (Get, Set, AppendToList),            *)
(*                                     GetClientPortMappings (GetList + Get per id),          *)
(*                                     DeletePortMapping (Get, 3 x RemoveFromList, Delete)    *)
(*   core/idgen                        StorageIDGenerator.Generate (SetNX, retried), Release  *)
(*                                                                                            *)
(* Activator p (pc values = the storage call the goroutine is parked in front of):            *)
(*   Read    Get  conncode:code:<code>  + CanBeActivatedBy on the snapshot (validity check)   *)
(*   QList   GetList client_mappings:<listen>          quota read, step 1                     *)
(*   QGet    Get  port_mapping:<id> per listed id      quota read, step 2 (singleflight Get)  *)
(*   Claim   SetNX conncode:claimed:<code>             ONLY in the repaired design (Claim)    *)
(*   GenId   SetNX id:used:pmap:<id>                   (a failed SetNX is retried)            *)
(*   CGet    Get  port_mapping:<id>  (exists?)   CSet  Set port_mapping:<id>                  *)
(*   CApp    AppendToList mappings:list                                                       *)
(*   IdxL / IdxT  AppendToList client_mappings:<listen> / <target>   (errors only logged)     *)
(*           then connCode.Activate() in memory (re-checks expiry by wall clock)              *)
(*   UpdC / UpdI  Set conncode:code:<code> / conncode:id:<id>                                 *)
(*   rollback (Activate() failed or an Upd* write failed):                                    *)
(*   RbGet, RbRemL, RbRemT, RbRemG, RbDel, RbRelId  = DeletePortMapping + ReleasePortMappingID*)
(*   create failure: RelId (release the id);  CDel = delete the record again when the list    *)
(*   append failed (ONLY in the repaired design, CreateRb)                                    *)
(*   RelClaim  Delete conncode:claimed:<code> after any failure that follows a won claim      *)
(*   (DESIGN.md Appendix A names: ActReadCode+ActCheck = Read, ActQuotaRead = QList/QGet,      *)
(*    ActGenId = GenId, ActCreateRec = CGet/CSet/CApp, ActIndexListen/Target = IdxL/IdxT,      *)
(*    ActMark = the tail of IdxT, ActUpdateByCode/ById = UpdC/UpdI, ActRollback = Rb*.         *)
(*    ActCheck and ActMark are pure in-memory code with no storage call before them that a     *)
(*    scheduler could separate from the preceding step, hence merged.)                         *)
(* Revoker: RRead (Get + Revoke() on the snapshot), RUpdC, RUpdI.                              *)
(* Expire:  the activation TTL elapses: both code keys (and the claim key, same TTL) vanish   *)
(*          and every wall-clock validity check fails from then on.                           *)
(* Fault:   each storage WRITE may fail once while faultLeft > 0 (f = TRUE in the step).      *)
(*                                                                                            *)
(* Deviations from the property the code (as it is) allows are recorded in the ghost set dev: *)
(*   "noClaim"    a mapping record is created while another mapping of the code exists        *)
(*                (read-check-create-update without an atomic claim)                          *)
(*   "createNoRb" mappings:list append failed and the record just written is left behind     *)
(*   "rbLost"     the delete of the mapping record in a rollback failed itself                *)
(*   "reclaim"    (Reclaim only) a lost claim is treated as won because the key holds the      *)
(*                caller's own client id: a second holder of one claim                        *)
(*   "resetUndoesRevoke" (ResetOnFail only) the rollback's write-back of the stale record      *)
(*                erases a revoke that completed meanwhile                                    *)
(*   "claimLapsed" (ShortClaim only) the claim key is gone (its TTL ran out) although the     *)
(*                code can still be activated                                                 *)
(*   "claimDropped" (RelScope # "fail" only) the claim key is deleted although the activation *)
(*                that holds it succeeded or is still in flight (released by the holder after *)
(*                its own success, or by a caller that had LOST the claim)                    *)
(*   "localClaim" (ClaimLocal only) a claim is won on one node while another node's local     *)
(*                cache tier holds a claim for the same code (the claim is not cluster-wide)  *)
(*                                                                                            *)
(* Singleflight (GenericRepositoryImpl.Get): activators have distinct listen clients that     *)
(* differ from the target client, and mapping ids are unique, so no two processes ever Get    *)
(* the same port_mapping key: coalescing cannot occur in this configuration (C17 with two     *)
(* activations by the SAME client must add an inflight[key] guard to QGet/CGet/RbGet).        *)
EXTENDS Naturals, Sequences, FiniteSets, TLC, Json

CONSTANTS Acts,       \* activator processes (each = one listen client, one ActivateConnectionCode call)
          HasRev,     \* TRUE: a revoker process "r" calls RevokeConnectionCode once
          CanExpire,  \* TRUE: the activation TTL may elapse at any point
          MaxFault,   \* number of storage writes that may fail (0 or 1)
          PreSet,     \* activators whose client already owns one active mapping (quota read has a Get)
          Quota,      \* max active mappings per client
          Claim,      \* TRUE: repaired design - atomic claim (SetNX) before the mapping is created
          CreateRb,   \* TRUE: repaired design - CreatePortMapping deletes the record if the list append fails
          Node2,      \* processes that call through node "n2" (all others through "n1"); every node has its own
                      \* hybrid.Storage: own local cache tier, the shared cache and the persistent tier in common
          SameAs,     \* activators that submit with the SAME listen client as "a1" (double submit / retry while the
                      \* first request is in flight); every other activator is its own client
          Reclaim,    \* TRUE: design variant "idempotent re-claim": a lost SetNX counts as won when the claim key
                      \* holds the caller's own client id (read back with a Get)
          ResetOnFail,\* TRUE: design variant: after a failed final Update the rollback also writes the activation's own
                      \* (stale) copy of the code record back as "not activated" (2 more Sets: RstC, RstI)
          ResetCreate,\* TRUE: design variant: the same write-back at the OTHER failure site - after a failed CreatePortMapping
                      \* (the record write or the list append failed), before the claim is released
          RelScope,   \* who deletes the claim key, and when:
                      \*   "fail"   (the code as it is) the holder, after a failure that follows its won claim
                      \*   "holder" design variant: the holder on EVERY return, also after its success (e.g. a deferred release:
                      \*            "the IsActivated flag of the record covers reuse from then on")
                      \*   "loser"  design variant: the failure cleanup also runs for a caller that LOST the claim ("release on
                      \*            any failure after the claim step"): it deletes the key of the activation that holds it
                      \*   "always" both (a release deferred right after the claim step)
          CanTick,    \* TRUE: time may pass (once, action Tick) by less than the code's remaining lifetime
          ShortClaim, \* TRUE: design variant: the claim key's TTL is shorter than the code's remaining lifetime,
                      \* so it is gone after a Tick although the code can still be activated
          ClaimLocal, \* TRUE: the claim key is classified as node-local runtime data (each node's SetNX goes to
                      \* its own local cache) - the design the code has when the claim key leaves the shared prefix
          Emit

Rev == "r"
Procs == Acts \cup (IF HasRev THEN {Rev} ELSE {})
Target == "T"          \* the target client / address fixed when the code was generated
Clients == Acts \cup {Target}
\* Nodes: the code record, id marks, mapping records and index lists are routed by hybrid.Storage to tiers
\* all nodes have in common (one copy in the model); only the claim key's tier is a parameter.
NodeOf(p) == IF p \in Node2 THEN "n2" ELSE "n1"
Slots == {"shared", "n1", "n2"}                       \* where a claim key can live
Slot(p) == IF ClaimLocal THEN NodeOf(p) ELSE "shared"  \* the tier p's SetNX / Delete of the claim key reaches
\* Listen client of an activator. Same-client activators share the client index list (quota reads see the
\* twin's mapping) and, on one node, the per-client quota lock (conncode.Service.lockClientQuota: taken after
\* the validity check, held until the call returns; one lock per Service instance = per node).
\* Singleflight (GenericRepositoryImpl.Get) still cannot coalesce: on one node the quota lock serialises
\* everything after the validity check of two same-client calls, and each node has its own repository.
Cl(p) == IF p \in SameAs THEN "a1" ELSE p
LockId(p) == <<NodeOf(p), Cl(p)>>
ASSUME SameAs # {} => (PreSet \cap (SameAs \cup {"a1"}) = {})   \* keeps every quota read at <= 1 listed id

VARIABLES rec, recId,    \* the code record under its two keys: [p, act, rev, by, target]
          expired,       \* the activation TTL has elapsed (keys dropped, wall clock past ActivationExpiresAt)
          claim,         \* per tier slot: holder of the claim key or "none"
          maps,          \* mapping records created from this code: [id, listen, target]  (id = creating activator)
          glist, clist,  \* index lists: global list, per-client lists (sets of mapping ids)
          idkeys,        \* id-generator marks
          pc, snap, res, \* per process: program counter, snapshot read, result ("none" | "ok" | "fail")
          faultLeft,
          qheld,         \* activators holding their (node, client) quota lock
          ticked,        \* the Tick has happened
          validSeen,     \* ghost: the code was valid at some instant since p's call
          dead,          \* ghost: the code has been revoked by a call that returned success, or has expired
          aliveAtCall,   \* ghost: per process, ~dead at the moment of its call
          dev,           \* ghost: deviations that occurred
          hist
vars  == <<rec, recId, expired, claim, maps, glist, clist, idkeys, pc, snap, res, faultLeft, qheld, ticked, validSeen, dead, aliveAtCall, dev, hist>>
view  == <<rec, recId, expired, claim, maps, glist, clist, idkeys, pc, snap, res, faultLeft, qheld, ticked, validSeen, dead, aliveAtCall, dev>>
gview == <<rec, recId, expired, claim, maps, glist, clist, idkeys, pc, snap, res, faultLeft, qheld, ticked>>

\* rst (only meaningful in a process's snapshot): the rollback must also reset the code record (ResetOnFail)
Rec0 == [p |-> TRUE, act |-> FALSE, rev |-> FALSE, by |-> "none", target |-> Target, rst |-> FALSE]
Pre(a) == "pre_" \o a

NoClaim == [s \in Slots |-> "none"]
Init == /\ rec = Rec0 /\ recId = Rec0 /\ expired = FALSE /\ claim = NoClaim
        /\ maps = {} /\ glist = {}
        /\ clist = [c \in Clients |-> IF c \in PreSet THEN {Pre(c)} ELSE {}]
        /\ idkeys = {}
        /\ pc = [p \in Procs |-> "idle"] /\ snap = [p \in Procs |-> Rec0] /\ res = [p \in Procs |-> "none"]
        /\ faultLeft = MaxFault /\ qheld = {}
        /\ ticked = FALSE
        /\ validSeen = [p \in Procs |-> FALSE] /\ dead = FALSE /\ aliveAtCall = [p \in Procs |-> FALSE]
        /\ dev = {} /\ hist = <<>>

Out(h) == IF Emit THEN PrintT("BEH " \o ToJson(h)) ELSE TRUE
\* w: after this step p waits for the quota lock (no storage gate is reached); g: the waiter that was handed
\* the lock in this step (it runs on to its QList gate) or ""
Handed == {q \in Procs : pc[q] = "WLock" /\ pc'[q] # "WLock"}
Log(p, a, f) == /\ hist' = Append(hist, [p |-> p, a |-> a, f |-> f,
                                         w |-> (p \in Procs /\ pc'[p] = "WLock"),
                                         g |-> IF Handed = {} THEN "" ELSE CHOOSE q \in Handed : TRUE])
                /\ Out(hist')

Valid(r, e) == ~e /\ r.p /\ ~r.act /\ ~r.rev

\* ---- framing helpers ---------------------------------------------------------------------
Goto(p, l)  == pc' = [pc EXCEPT ![p] = l] /\ res' = res /\ qheld' = qheld
\* returning releases the quota lock (deferred unlock) and hands it to a waiter at once
Return(p, r) == LET W == {q \in Acts \ {p} : pc[q] = "WLock" /\ LockId(q) = LockId(p)} IN
                /\ res' = [res EXCEPT ![p] = r]
                /\ IF p \in qheld /\ W # {}
                   THEN \E q \in W : /\ pc' = [pc EXCEPT ![p] = "done", ![q] = "QList"]
                                     /\ qheld' = (qheld \ {p}) \cup {q}
                   ELSE pc' = [pc EXCEPT ![p] = "done"] /\ qheld' = qheld \ {p}
\* a failure after the claim was won releases the claim before returning
AfterReset(p) == IF Claim THEN Goto(p, "RelClaim") ELSE Return(p, "fail")
Leave(p)    == IF snap[p].rst THEN Goto(p, "RstC") ELSE AfterReset(p)
UseFault(f) == /\ f => faultLeft > 0
               /\ faultLeft' = IF f THEN faultLeft - 1 ELSE faultLeft
Mine(p)     == {m \in maps : m.id = p}
\* design variant ResetCreate: a failed CreatePortMapping makes the failure path write the stale record back too
MarkResetC(p) == IF ResetCreate THEN [snap EXCEPT ![p].rst = TRUE] ELSE snap
\* a caller that did not get the claim returns "already used" (design variants RelScope = "loser" / "always": it first deletes the key)
Lost(p) == IF RelScope \in {"loser", "always"} THEN Goto(p, "RelClaimLost") ELSE Return(p, "fail")
\* success (design variants RelScope = "holder" / "always": the holder first deletes its claim)
Won(p)  == IF Claim /\ RelScope \in {"holder", "always"} THEN Goto(p, "RelClaimOk") ELSE Return(p, "ok")
\* after the quota reads: repaired design computes the claim TTL (remaining time) and refuses if it is gone
AfterQuota(p) == IF Claim THEN (IF expired THEN Return(p, "fail") ELSE Goto(p, "Claim")) ELSE Goto(p, "GenId")

\* ---- calls -------------------------------------------------------------------------------
Call(p) == /\ pc[p] = "idle"
           /\ Goto(p, IF p = Rev THEN "RRead" ELSE "Read")
           /\ UNCHANGED <<rec, recId, expired, claim, maps, glist, clist, idkeys, snap, faultLeft, dev>>
           /\ Log(p, "Call", FALSE)

\* ---- activator ---------------------------------------------------------------------------
Read(p) == /\ pc[p] = "Read"
           /\ IF rec.p /\ ~rec.act /\ ~rec.rev           \* expired => ~rec.p
              THEN /\ snap' = [snap EXCEPT ![p] = rec] /\ res' = res
                   /\ IF \E q \in qheld : LockId(q) = LockId(p)          \* lockClientQuota: taken, or wait (no gate)
                      THEN pc' = [pc EXCEPT ![p] = "WLock"] /\ qheld' = qheld
                      ELSE pc' = [pc EXCEPT ![p] = "QList"] /\ qheld' = qheld \cup {p}
              ELSE snap' = snap /\ Return(p, "fail")
           /\ UNCHANGED <<rec, recId, expired, claim, maps, glist, clist, idkeys, faultLeft, dev>>
           /\ Log(p, "Read", FALSE)

QList(p) == /\ pc[p] = "QList"
            /\ IF clist[Cl(p)] # {} THEN Goto(p, "QGet") ELSE AfterQuota(p)
            /\ UNCHANGED <<rec, recId, expired, claim, maps, glist, clist, idkeys, snap, faultLeft, dev>>
            /\ Log(p, "QList", FALSE)

QGet(p) == /\ pc[p] = "QGet"
           \* one Get per listed id (at most one here); ids whose record is gone are skipped
           /\ LET live == {m \in clist[Cl(p)] : m = Pre(Cl(p)) \/ \E x \in maps : x.id = m}
              IN IF Cardinality(live) >= Quota THEN Return(p, "fail") ELSE AfterQuota(p)
           /\ UNCHANGED <<rec, recId, expired, claim, maps, glist, clist, idkeys, snap, faultLeft, dev>>
           /\ Log(p, "QGet", FALSE)

ClaimIt(p, f) == /\ pc[p] = "Claim" /\ UseFault(f)
                 /\ IF f THEN Return(p, "fail") /\ claim' = claim /\ dev' = dev                  \* storage error: nothing to undo
                    ELSE IF claim[Slot(p)] # "none"
                         THEN /\ claim' = claim /\ dev' = dev                                  \* somebody else holds the claim
                              /\ IF Reclaim THEN Goto(p, "ClaimGet") ELSE Lost(p)
                    ELSE /\ Goto(p, "GenId")
                         /\ claim' = [claim EXCEPT ![Slot(p)] = IF expired THEN "none" ELSE p]  \* (a claim set after expiry lapses at once)
                         \* deviation: the claim is won although another node's local tier holds one for the same code
                         /\ dev' = IF \E s \in Slots \ {Slot(p)} : claim[s] # "none" THEN dev \cup {"localClaim"} ELSE dev
                 /\ UNCHANGED <<rec, recId, expired, maps, glist, clist, idkeys, snap>>
                 /\ Log(p, "Claim", f)

\* design variant Reclaim only: read the claim key back; the caller's own client id in it counts as a won claim
ClaimGet(p) == /\ pc[p] = "ClaimGet"
               /\ LET h == claim[Slot(p)] IN
                  IF h # "none" /\ Cl(h) = Cl(p)
                  THEN Goto(p, "GenId") /\ dev' = dev \cup {"reclaim"}   \* deviation: a second holder of one claim
                  ELSE Lost(p) /\ dev' = dev
               /\ UNCHANGED <<rec, recId, expired, claim, maps, glist, clist, idkeys, snap, faultLeft>>
               /\ Log(p, "ClaimGet", FALSE)

GenId(p, f) == /\ pc[p] = "GenId" /\ UseFault(f)
               /\ IF f THEN Goto(p, "GenId") /\ idkeys' = idkeys                \* Generate() retries with another candidate
                  ELSE Goto(p, "CGet") /\ idkeys' = idkeys \cup {p}
               /\ UNCHANGED <<rec, recId, expired, claim, maps, glist, clist, snap, dev>>
               /\ Log(p, "GenId", f)

CGet(p) == /\ pc[p] = "CGet"
           /\ Goto(p, "CSet")
           /\ UNCHANGED <<rec, recId, expired, claim, maps, glist, clist, idkeys, snap, faultLeft, dev>>
           /\ Log(p, "CGet", FALSE)

CSet(p, f) == /\ pc[p] = "CSet" /\ UseFault(f)
              /\ snap' = IF f THEN MarkResetC(p) ELSE snap
              /\ IF f THEN Goto(p, "RelId") /\ maps' = maps /\ dev' = dev
                 ELSE /\ Goto(p, "CApp")
                      /\ maps' = maps \cup {[id |-> p, listen |-> Cl(p), target |-> snap[p].target]}
                      /\ dev' = IF ~Claim /\ maps # {} THEN dev \cup {"noClaim"} ELSE dev   \* deviation: second mapping of one code, nothing claimed
              /\ UNCHANGED <<rec, recId, expired, claim, glist, clist, idkeys>>
              /\ Log(p, "CSet", f)

CApp(p, f) == /\ pc[p] = "CApp" /\ UseFault(f)
              /\ IF f THEN IF CreateRb THEN Goto(p, "CDel") /\ dev' = dev
                           ELSE Goto(p, "RelId") /\ dev' = dev \cup {"createNoRb"}  \* deviation: record left behind
                      ELSE Goto(p, "IdxL") /\ dev' = dev
              /\ glist' = IF f THEN glist ELSE glist \cup {p}
              /\ snap' = IF f THEN MarkResetC(p) ELSE snap
              /\ UNCHANGED <<rec, recId, expired, claim, maps, clist, idkeys>>
              /\ Log(p, "CApp", f)

CDel(p, f) == /\ pc[p] = "CDel" /\ UseFault(f)
              /\ Goto(p, "RelId")
              /\ maps' = IF f THEN maps ELSE maps \ Mine(p)
              /\ dev' = IF f THEN dev \cup {"rbLost"} ELSE dev
              /\ UNCHANGED <<rec, recId, expired, claim, glist, clist, idkeys, snap>>
              /\ Log(p, "CDel", f)

RelId(p, f) == /\ pc[p] = "RelId" /\ UseFault(f)
               /\ idkeys' = IF f THEN idkeys ELSE idkeys \ {p}
               /\ Leave(p)
               /\ UNCHANGED <<rec, recId, expired, claim, maps, glist, clist, snap, dev>>
               /\ Log(p, "RelId", f)

IdxL(p, f) == /\ pc[p] = "IdxL" /\ UseFault(f)
              /\ clist' = IF f THEN clist ELSE [clist EXCEPT ![Cl(p)] = @ \cup {p}]
              /\ Goto(p, "IdxT")
              /\ UNCHANGED <<rec, recId, expired, claim, maps, glist, idkeys, snap, dev>>
              /\ Log(p, "IdxL", f)

\* after the last index append: connCode.Activate() (in memory; fails iff the wall clock is past the
\* activation deadline), then Update() up to its first Set, or the rollback up to its first Get
IdxT(p, f) == /\ pc[p] = "IdxT" /\ UseFault(f)
              /\ clist' = IF f THEN clist ELSE [clist EXCEPT ![Target] = @ \cup {p}]
              /\ Goto(p, IF expired THEN "RbGet" ELSE "UpdC")
              /\ UNCHANGED <<rec, recId, expired, claim, maps, glist, idkeys, snap, dev>>
              /\ Log(p, "IdxT", f)

Activated(p) == [p |-> TRUE, act |-> TRUE, rev |-> snap[p].rev, by |-> p, target |-> snap[p].target, rst |-> FALSE]
MarkReset(p) == IF ResetOnFail THEN [snap EXCEPT ![p].rst = TRUE] ELSE snap

UpdC(p, f) == /\ pc[p] = "UpdC" /\ UseFault(f)
              /\ rec' = IF f \/ expired THEN rec ELSE Activated(p)     \* a record written after expiry lapses at once
              /\ Goto(p, IF f THEN "RbGet" ELSE "UpdI")
              /\ snap' = IF f THEN MarkReset(p) ELSE snap
              /\ UNCHANGED <<recId, expired, claim, maps, glist, clist, idkeys, dev>>
              /\ Log(p, "UpdC", f)

UpdI(p, f) == /\ pc[p] = "UpdI" /\ UseFault(f)
              /\ recId' = IF f \/ expired THEN recId ELSE Activated(p)
              /\ IF f THEN Goto(p, "RbGet") ELSE Won(p)
              /\ snap' = IF f THEN MarkReset(p) ELSE snap
              /\ UNCHANGED <<rec, expired, claim, maps, glist, clist, idkeys, dev>>
              /\ Log(p, "UpdI", f)

RbGet(p) == /\ pc[p] = "RbGet"
            /\ Goto(p, "RbRemL")
            /\ UNCHANGED <<rec, recId, expired, claim, maps, glist, clist, idkeys, snap, faultLeft, dev>>
            /\ Log(p, "RbGet", FALSE)

RbRemL(p, f) == /\ pc[p] = "RbRemL" /\ UseFault(f)
                /\ clist' = IF f THEN clist ELSE [clist EXCEPT ![Cl(p)] = @ \ {p}]
                /\ Goto(p, "RbRemT")
                /\ UNCHANGED <<rec, recId, expired, claim, maps, glist, idkeys, snap, dev>>
                /\ Log(p, "RbRemL", f)

RbRemT(p, f) == /\ pc[p] = "RbRemT" /\ UseFault(f)
                /\ clist' = IF f THEN clist ELSE [clist EXCEPT ![Target] = @ \ {p}]
                /\ Goto(p, "RbRemG")
                /\ UNCHANGED <<rec, recId, expired, claim, maps, glist, idkeys, snap, dev>>
                /\ Log(p, "RbRemT", f)

RbRemG(p, f) == /\ pc[p] = "RbRemG" /\ UseFault(f)
                /\ glist' = IF f THEN glist ELSE glist \ {p}
                /\ Goto(p, "RbDel")
                /\ UNCHANGED <<rec, recId, expired, claim, maps, clist, idkeys, snap, dev>>
                /\ Log(p, "RbRemG", f)

\* the delete of the record itself; if it fails DeletePortMapping returns early (the id is not released)
RbDel(p, f) == /\ pc[p] = "RbDel" /\ UseFault(f)
               /\ maps' = IF f THEN maps ELSE maps \ Mine(p)
               /\ dev' = IF f THEN dev \cup {"rbLost"} ELSE dev                 \* deviation: rollback itself failed
               /\ IF f THEN Leave(p) ELSE Goto(p, "RbRelId")
               /\ UNCHANGED <<rec, recId, expired, claim, glist, clist, idkeys, snap>>
               /\ Log(p, "RbDel", f)

RbRelId(p, f) == /\ pc[p] = "RbRelId" /\ UseFault(f)
                 /\ idkeys' = IF f THEN idkeys ELSE idkeys \ {p}
                 /\ Leave(p)
                 /\ UNCHANGED <<rec, recId, expired, claim, maps, glist, clist, snap, dev>>
                 /\ Log(p, "RbRelId", f)

\* design variant ResetOnFail: write the activation's own copy of the record back as "not activated"
\* (the copy was read at the start of the call: whatever was written to the record since is overwritten)
ResetRec(p) == [snap[p] EXCEPT !.act = FALSE, !.by = "none", !.rst = FALSE]
RstC(p, f) == /\ pc[p] = "RstC" /\ UseFault(f)
              /\ rec' = IF f \/ expired THEN rec ELSE ResetRec(p)
              \* deviation: a revoke that wrote the record after p had read it is erased (its "revoked" flag is gone
              \* from the record - overwritten by this write-back, or earlier by p's own UpdC and now not even "activated" remains)
              /\ dev' = IF ~f /\ ~expired /\ HasRev /\ (pc[Rev] = "RUpdI" \/ res[Rev] = "ok")
                        THEN dev \cup {"resetUndoesRevoke"} ELSE dev
              /\ Goto(p, "RstI")
              /\ UNCHANGED <<recId, expired, claim, maps, glist, clist, idkeys, snap>>
              /\ Log(p, "RstC", f)
RstI(p, f) == /\ pc[p] = "RstI" /\ UseFault(f)
              /\ recId' = IF f \/ expired THEN recId ELSE ResetRec(p)
              /\ AfterReset(p)
              /\ UNCHANGED <<rec, expired, claim, maps, glist, clist, idkeys, snap, dev>>
              /\ Log(p, "RstI", f)

\* Delete of the claim key (errors ignored). pc "RelClaim": the holder after a failure (the code as it is);
\* "RelClaimOk": the holder after its success, "RelClaimLost": a caller that lost the claim (design variants RelScope)
RelClaim(p, f) == /\ pc[p] \in {"RelClaim", "RelClaimOk", "RelClaimLost"} /\ UseFault(f)
                  /\ claim' = IF f THEN claim ELSE [claim EXCEPT ![Slot(p)] = "none"]
                  \* deviation: the key of an activation that succeeded / is still in flight is gone
                  /\ dev' = IF ~f /\ RelScope # "fail" /\ claim[Slot(p)] # "none" /\ (pc[p] = "RelClaimOk" \/ claim[Slot(p)] # p)
                            THEN dev \cup {"claimDropped"} ELSE dev
                  /\ Return(p, IF pc[p] = "RelClaimOk" THEN "ok" ELSE "fail")
                  /\ UNCHANGED <<rec, recId, expired, maps, glist, clist, idkeys, snap>>
                  /\ Log(p, pc[p], f)

\* ---- revoker -----------------------------------------------------------------------------
RRead(p) == /\ pc[p] = "RRead"
            /\ IF rec.p /\ ~rec.act /\ ~rec.rev           \* Revoke() refuses activated / already revoked codes
               THEN snap' = [snap EXCEPT ![p] = rec] /\ Goto(p, "RUpdC")
               ELSE snap' = snap /\ Return(p, "fail")
            /\ UNCHANGED <<rec, recId, expired, claim, maps, glist, clist, idkeys, faultLeft, dev>>
            /\ Log(p, "RRead", FALSE)

Revoked(p) == [snap[p] EXCEPT !.rev = TRUE]

RUpdC(p, f) == /\ pc[p] = "RUpdC" /\ UseFault(f)
               /\ rec' = IF f \/ expired THEN rec ELSE Revoked(p)
               /\ IF f THEN Return(p, "fail") ELSE Goto(p, "RUpdI")
               /\ UNCHANGED <<recId, expired, claim, maps, glist, clist, idkeys, snap, dev>>
               /\ Log(p, "RUpdC", f)

RUpdI(p, f) == /\ pc[p] = "RUpdI" /\ UseFault(f)
               /\ recId' = IF f \/ expired THEN recId ELSE Revoked(p)
               /\ Return(p, IF f THEN "fail" ELSE "ok")
               /\ UNCHANGED <<rec, expired, claim, maps, glist, clist, idkeys, snap, dev>>
               /\ Log(p, "RUpdI", f)

\* ---- environment -------------------------------------------------------------------------
Expire == /\ CanExpire /\ ~expired
          /\ \E p \in Procs : pc[p] # "done"
          /\ expired' = TRUE
          /\ rec' = [rec EXCEPT !.p = FALSE] /\ recId' = [recId EXCEPT !.p = FALSE]
          /\ claim' = NoClaim
          /\ UNCHANGED <<maps, glist, clist, idkeys, pc, snap, res, faultLeft, qheld, dev>>
          /\ Log("env", "Expire", FALSE)

\* time passes, but less than the code can still be activated: nothing in the code's validity changes; a claim
\* key that was given a shorter lifetime than the code (ShortClaim) is gone afterwards
Tick == /\ CanTick /\ ~ticked /\ ~expired
        /\ \E p \in Procs : pc[p] # "done"
        /\ claim' = IF ShortClaim THEN NoClaim ELSE claim
        /\ dev' = IF ShortClaim /\ claim # NoClaim THEN dev \cup {"claimLapsed"} ELSE dev   \* deviation: a claim lapses while the code lives
        /\ UNCHANGED <<rec, recId, expired, maps, glist, clist, idkeys, pc, snap, res, faultLeft, qheld>>
        /\ Log("env", "Tick", FALSE)

ReadSteps(p)  == Call(p) \/ Read(p) \/ QList(p) \/ QGet(p) \/ ClaimGet(p) \/ CGet(p) \/ RbGet(p) \/ RRead(p)
WriteSteps(p, f) ==
   \/ ClaimIt(p, f) \/ GenId(p, f) \/ CSet(p, f) \/ CApp(p, f) \/ CDel(p, f) \/ RelId(p, f)
   \/ IdxL(p, f) \/ IdxT(p, f) \/ UpdC(p, f) \/ UpdI(p, f)
   \/ RbRemL(p, f) \/ RbRemT(p, f) \/ RbRemG(p, f) \/ RbDel(p, f) \/ RbRelId(p, f) \/ RelClaim(p, f)
   \/ RstC(p, f) \/ RstI(p, f)
   \/ RUpdC(p, f) \/ RUpdI(p, f)

Step == \/ \E p \in Procs : ReadSteps(p) \/ (\E f \in BOOLEAN : WriteSteps(p, f))
        \/ Expire \/ Tick

\* ghost: validity observed by every call in flight (at its call and after every step)
Next == /\ Step
        /\ validSeen' = [p \in Procs |->
              IF pc[p] = "done" THEN validSeen[p]
              ELSE IF pc[p] = "idle" /\ pc'[p] = "idle" THEN FALSE
              ELSE validSeen[p] \/ Valid(rec, expired) \/ Valid(rec', expired')]
        /\ ticked' = (ticked \/ hist'[Len(hist')].a = "Tick")
        \* the code is dead for good once a revoke has returned success or the activation TTL has elapsed
        /\ dead' = (dead \/ expired' \/ (HasRev /\ res'[Rev] = "ok"))
        /\ aliveAtCall' = [p \in Procs |-> IF pc[p] = "idle" /\ pc'[p] # "idle" THEN ~dead ELSE aliveAtCall[p]]
Spec == Init /\ [][Next]_vars

\* ---- properties (C06) --------------------------------------------------------------------
Returned(p) == pc[p] = "done"
Quiet == \A p \in Procs : pc[p] \in {"idle", "done"}
Winners == {p \in Acts : res[p] = "ok"}

\* (1) at quiescence at most one mapping exists per code
AtMostOneMapping == Quiet => Cardinality(maps) <= 1
\* (2) at most one activation ever succeeds ...
AtMostOneSuccess == Cardinality(Winners) <= 1
\*     ... and only if the code was valid (not expired / revoked / used) at some instant between call and return
SuccessWasValid == \A p \in Winners : validSeen[p]
\*     ... and never when the code had already been revoked (by a revoke that had returned) or had expired
\*     before the activation was even called - whatever the code RECORD says by then
NoActivationAfterDeath == \A p \in Winners : aliveAtCall[p]
\* (3) a failed activation leaves no mapping behind
FailedLeavesNone == \A p \in Acts : (Returned(p) /\ res[p] = "fail") => Mine(p) = {}
\* (4) the mapping targets what the code fixed and listens for the activator
FieldsOK == \A m \in maps : m.target = Target /\ m.listen = Cl(m.id)

\* the same properties modulo the named deviations (the only routes to a violation in the model of the code as it is)
AtMostOneMappingD == AtMostOneMapping \/ "noClaim" \in dev
AtMostOneSuccessD == AtMostOneSuccess \/ "noClaim" \in dev
\* design variant Reclaim: the properties hold only modulo the deviation "reclaim"
AtMostOneMappingQ == AtMostOneMapping \/ "reclaim" \in dev
AtMostOneSuccessQ == AtMostOneSuccess \/ "reclaim" \in dev
\* the quota lock is held by at most one activator per (node, client), and only by calls in flight
LockOK == /\ \A p, q \in qheld : (p # q) => LockId(p) # LockId(q)
          /\ \A p \in qheld : pc[p] \notin {"idle", "done", "Read", "WLock"}
\* design variants ResetOnFail / ResetCreate: holds only modulo the deviation "resetUndoesRevoke"
NoActivationAfterDeathZ == NoActivationAfterDeath \/ "resetUndoesRevoke" \in dev
\* design variant ShortClaim: hold only modulo the deviation "claimLapsed"
AtMostOneMappingT == AtMostOneMapping \/ "claimLapsed" \in dev
AtMostOneSuccessT == AtMostOneSuccess \/ "claimLapsed" \in dev
\* design variants RelScope # "fail": hold only modulo the deviation "claimDropped"
AtMostOneMappingC == AtMostOneMapping \/ "claimDropped" \in dev
AtMostOneSuccessC == AtMostOneSuccess \/ "claimDropped" \in dev
\* a node-local claim (ClaimLocal): the properties hold only modulo the deviation "localClaim"
AtMostOneMappingL == AtMostOneMapping \/ "localClaim" \in dev
AtMostOneSuccessL == AtMostOneSuccess \/ "localClaim" \in dev
FailedLeavesNoneD == FailedLeavesNone \/ dev \cap {"createNoRb", "rbLost"} # {}
FailedLeavesNoneR == FailedLeavesNone \/ "rbLost" \in dev
AtMostOneMappingR == AtMostOneMapping \/ "rbLost" \in dev
\* the repaired design never takes the deviations it removed
NoLegacyDev == /\ (Claim => "noClaim" \notin dev) /\ (CreateRb => "createNoRb" \notin dev)
               /\ (~ClaimLocal => "localClaim" \notin dev) /\ (~Reclaim => "reclaim" \notin dev)
               /\ ((~ResetOnFail /\ ~ResetCreate) => "resetUndoesRevoke" \notin dev) /\ (~ShortClaim => "claimLapsed" \notin dev)
               /\ (RelScope = "fail" => "claimDropped" \notin dev)
\* repaired design: while the code has not expired, the claim holder is the only process that can be
\* between its claim and its return (mutual exclusion of the create-mark-update section)
InSection(p) == pc[p] \in {"RstC", "RstI", "ClaimGet", "GenId", "CGet", "CSet", "CApp", "CDel", "RelId", "IdxL", "IdxT", "UpdC", "UpdI",
                           "RbGet", "RbRemL", "RbRemT", "RbRemG", "RbDel", "RbRelId", "RelClaim", "RelClaimOk"}
ClaimExcludes == (Claim /\ ~ClaimLocal /\ ~Reclaim /\ ~ShortClaim /\ RelScope = "fail" /\ ~expired) => Cardinality({p \in Acts : InSection(p)}) <= 1

\* informational, NOT part of C06 (the statement is silent about index lists; kept for C17): index lists never
\* name a mapping whose record is gone. Holds in every configuration except expiry + a failing
\* RemoveFromList inside the rollback (its errors are ignored): a dangling copy stays in that list.
MapIds == {m.id : m \in maps}
NoDangling == Quiet => /\ glist \subseteq MapIds
                       /\ \A c \in Clients : (clist[c] \ {Pre(c)}) \subseteq MapIds

TypeOK == /\ rec.p \in BOOLEAN /\ recId.p \in BOOLEAN /\ expired \in BOOLEAN
          /\ claim \in [Slots -> Acts \cup {"none"}]
          /\ faultLeft \in 0..MaxFault
          /\ \A p \in Procs : res[p] \in {"none", "ok", "fail"}
          /\ \A p \in Procs : (res[p] # "none") <=> (pc[p] = "done")
=============================================================================
