\* C08 behaviour generation: transition coverage of the bounded state graph (VIEW without hist):
\* one behaviour per (state, event) - a shortest history reaching the state, then the event.
\* clock 0..MAXCLOCK (every tick costs a real sleep in the driver), histories up to MAXHIST events.
CONSTANTS
  Nodes = @@NODES@@
  NConns = @@NCONNS@@
  Clients = @@CLIENTS@@
  TTL = 2
  MaxClock = @@MAXCLOCK@@
  MaxHist = @@MAXHIST@@
  Shapes = @@SHAPES@@
  CasSet = {FALSE}
  FixSets = {@@FIXES@@}
  Causes = {"peer", "cmd", "sweep", "kick"}
  KeepCreatedAt = FALSE
  UseRequestId = FALSE
  IdxRenew = "checkSet"
  RecRenew = "set"
  Lookups = @@LOOKUPS@@
  WritingLookup = FALSE
  InFlight = @@INFLIGHT@@
  ClientState = FALSE
  Emit = TRUE
  Only = "@@ONLY@@"
INIT Init
NEXT Next
VIEW genview
CONSTRAINT Bounded
INVARIANTS TypeOK
CHECK_DEADLOCK FALSE
