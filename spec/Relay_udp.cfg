\* (ii) UDP - DEFAULT: the code with patches C12-1 and C12-2 applied (both deviations off).
\* Exhaustive: any read chunking (Chunks = {0}), every cut offset of every datagram sequence of
\* length <= 2 over the four size classes, cut by EOF and by error, USmall datagrams in the other
\* direction with the flush ticker interleaved everywhere.  Safety + strict liveness <>returned.
\* (other bounds: Relay_udp_tmpl.cfg, instantiated by harness/drivers/c12)
CONSTANTS
  MaxSend = 1
  EofWithData = TRUE
  ShapesA <- LocalShapes
  ShapesB <- AllShapes
  DevDeadlineAt = "none"
  DevDeadlineHits = {"read"}
  Monitor = FALSE
  IdleMax = 2
  DevMonNoFeed = FALSE
  Reactive = FALSE
  DevNoSignalOnError = FALSE
  DevCloseWriterFallback = FALSE
  Emit = FALSE
  Classes = {1, 2, 3, 4}
  BatchSize = 32
  BatchBuf = 22
  High = 100
  MaxT = 2
  MaxU = 1
  TSeqs <- TAll
  USeqs <- USmall
  Cuts = "all"
  Chunks = {0}
  Paces = {"burst"}
  DevSpin = FALSE
  DevNoUnblock = FALSE
  DevAliasFlush = FALSE
  SockBatch = FALSE
  DevNoInnerFlush = FALSE
  SockQueue = FALSE
  DevQueueRefs = FALSE
  DevSockDeadline = FALSE
  DevDropOnClose = FALSE
SPECIFICATION USpec
INVARIANTS UTypeOK UDatagrams UComplete UCompleteAny UEncoded UFlushed UMutex UBuf UBatchFits UNoSpuriousEnd
PROPERTIES UDelivMonotone UEventuallyFlushed UTermination
CHECK_DEADLOCK FALSE
