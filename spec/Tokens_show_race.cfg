\* X02 demonstration, EXPECTED TO FAIL: the strict property on the code as it stands (one repair withheld) - TLC prints the schedule.
\* X02 exhaustive check of the implementation-shaped token model (template: @@..@@ filled by drivers/x02).
\*   SCENE "rt": reconnect tokens, two racing processes, two home nodes + one foreign manager;
\*   SCENE "st": session tokens (stateless, sequential).
\*   FIXED = {}                          the code as it stands: INVS = the ...OrKnown invariants (every breach
\*                                       is explained by a named deviation racedMark / localMarker / subSecond)
\*   FIXED = {"claim","shared","nano"}   the repaired design (patches X02-1..3): strict invariants, NoDeviation,
\*                                       and the liveness property Terminates.
\* Quick tier: 2 clients, 2 tokens, TTL 2, clock <= 3 (rt) ; thorough: 3 tokens / clock <= 4.
CONSTANTS
  Scene = "rt"
  Deploy = "single"
  Clients = {"c1", "c2"}
  MaxTok = 1
  TTL = 2
  MaxClock = 2
  Procs = {"p1","p2"}
  Fixed = {"shared","nano"}
  Tampers = {"none"}
  Thresh = 1
  KeepHist = FALSE
  EmitActs = {}
  MaxHist = 999
SPECIFICATION Spec
INVARIANTS TypeOK InFlightChecked NeverLate IPBound ClaimRepairs SharedRepairs NanoRepairs SingleUse

CHECK_DEADLOCK FALSE
