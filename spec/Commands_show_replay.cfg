\* Documentation only (not run by the check): a response cache keyed by (CommandType, CommandId) in the executor (class of seeded
\* change C11-r3m2; CommandsExec_show_replay.cfg has it step by step).  TLC reports EffIdIsAuth / UnauthNoEffect / UnauthRefused /
\* PartyOnly: B sends MappingGet m1 (Prime), the actor connection - unauthenticated or a stranger - repeats the command id.
CONSTANTS
  Sets = {"server", "special"}
  WVs = {"base"}
  Fixes = {"trafficParty", "dnsAuth", "domainAuth", "notifyAuth", "socksAuth"}
  Devs = {"replayByTypeId"}
  MaxCmds = 1
  RespToo = FALSE
  Emit = FALSE
INIT Init
NEXT Next
VIEW view
INVARIANTS TypeOK EffIdIsAuth UnauthNoEffect UnauthRefused PartyOnly CreatedForCaller DeliveredToParty
CHECK_DEADLOCK FALSE
