\* Documentation only (not run by the check; verified by hand): HonourContext at the call sites (Mode split).
\* TLC reports LookupGone violated: Announce(A), Create(A,t1), Set(A,t1), Shutdown(A), Removed(A,t1) - the lifecycle has run, the
\* record is still there (deviation "notRemoved").
CONSTANTS
  Nodes = {"A", "B"}
  Tunnels = {"t1", "t2"}
  TTL = 1
  MaxReg = 2
  MaxClock = 1000
  MaxHist = 99
  Shapes = {"jsonString"}
  Mode = "split"
  LifecycleFirst = FALSE
  SkipLocalTarget = FALSE
  EvictingLookup = FALSE
  HonourContext = TRUE
  RejectSeenIds = FALSE
  RegisterBeforeExistsCheck = FALSE
  MaxDup = 0
  Emit = FALSE
  Only = "all"
INIT Init
NEXT Next
VIEW view
INVARIANTS TypeOK LookupGone
CHECK_DEADLOCK FALSE
