\* (i) Bidirectional - DEVIATION (neighbour of C12/r3m2, not in the code): when one direction finishes, an absolute
\* WRITE deadline (SetWriteDeadline / SetDeadline) is put on the conns of the surviving direction.  THIS RUN MUST FAIL
\* with "Invariant BNoSpuriousWriteEnd is violated": time passes, the surviving direction's Write times out although
\* its destination is open and reading.
CONSTANTS
  MaxSend = 1
  EofWithData = TRUE
  ShapesA <- LocalShapes
  ShapesB <- AllShapes
  DevDeadlineAt = "halfclose"
  DevDeadlineHits = {"write"}
  Monitor = FALSE
  IdleMax = 2
  DevMonNoFeed = FALSE
  Reactive = FALSE
  DevNoSignalOnError = FALSE
  DevCloseWriterFallback = FALSE
  Emit = FALSE
  Classes = {1}
  BatchSize = 32
  BatchBuf = 22
  High = 100
  MaxT = 0
  MaxU = 0
  TSeqs <- TSmall
  USeqs <- USmall
  Cuts = "all"
  Chunks = {0}
  Paces = {"burst"}
  DevSpin = FALSE
  DevNoUnblock = FALSE
  DevAliasFlush = FALSE
  SockBatch = FALSE
  DevNoInnerFlush = FALSE
  SockQueue = FALSE
  DevQueueRefs = FALSE
  DevSockDeadline = FALSE
  DevDropOnClose = FALSE
INIT BInit
NEXT BNext
INVARIANTS BTypeOK BPipe BComplete BReverseKeepsFlowing BNoSpuriousEnd BNoSpuriousWriteEnd
CHECK_DEADLOCK FALSE
