\* (i) Bidirectional - DEVIATION (neighbour of C12/r3m2, not in the code): a lifetime deadline (SetDeadline: reads and
\* writes) is put on the directly handed conns when the relay starts.  THIS RUN MUST FAIL with "Invariant BNoSpuriousEnd
\* is violated" (or BNoSpuriousWriteEnd): time alone ends a direction whose source is open.
CONSTANTS
  MaxSend = 1
  EofWithData = TRUE
  ShapesA <- LocalShapes
  ShapesB <- AllShapes
  DevDeadlineAt = "start"
  DevDeadlineHits = {"read", "write"}
  Monitor = FALSE
  IdleMax = 2
  DevMonNoFeed = FALSE
  Reactive = FALSE
  DevNoSignalOnError = FALSE
  DevCloseWriterFallback = FALSE
  Emit = FALSE
  Classes = {1}
  BatchSize = 32
  BatchBuf = 22
  High = 100
  MaxT = 0
  MaxU = 0
  TSeqs <- TSmall
  USeqs <- USmall
  Cuts = "all"
  Chunks = {0}
  Paces = {"burst"}
  DevSpin = FALSE
  DevNoUnblock = FALSE
  DevAliasFlush = FALSE
  SockBatch = FALSE
  DevNoInnerFlush = FALSE
  SockQueue = FALSE
  DevQueueRefs = FALSE
  DevSockDeadline = FALSE
  DevDropOnClose = FALSE
INIT BInit
NEXT BNext
INVARIANTS BTypeOK BPipe BComplete BReverseKeepsFlowing BNoSpuriousEnd BNoSpuriousWriteEnd
CHECK_DEADLOCK FALSE
