--------------------------- MODULE HttpProxyTrace ---------------------------
(* X06 judge (property level) for the HTTP domain proxy's request path.  It knows nothing about maps,   *)
(* channels, locks or which path a request takes: it sees the caller's HTTP exchanges, the commands and  *)
(* responses on the control connection, the tunnel connections offered, what the target received and     *)
(* answered.  Alphabet, per trace:                                                                       *)
(*   Cfg     [tag]                input class / variant (prefix of every verdict detail)                 *)
(*   Call    [c, p]               caller p starts HTTP request number c                                   *)
(*   Sent    [c, id]              the client's control connection received the command of request c; it   *)
(*                                carries id (small: HTTPProxyRequest.RequestID, large: the tunnel id)    *)
(*   Resp    [n, id, k]           response / tunnel connection number n carrying id is about to be handed *)
(*                                to the server; k = ok (status 200) | relay (the target's own status) |   *)
(*                                err (Error field set) | noid (id only in the command id) | st0           *)
(*                                (status_code 0) | bad (body is not JSON) | unknown                        *)
(*   Handled [n, told]            the reader that received n is back at its read; told = yes | no | void   *)
(*                                (what Notify reported; "" for responses)                                 *)
(*   Expire  [c]                  from here on the timer of request c may fire                             *)
(*   Cancel  []                   the server's context is about to be cancelled                            *)
(*   Offline []                   the clients' control connections are about to be closed                 *)
(*   Ret     [c, st, n]           the caller of request c has its HTTP answer: status st (0 = the          *)
(*                                connection was aborted without an answer), n = number of the response /  *)
(*                                tunnel connection the answer was made from (0 = none)                    *)
(*   Stuck   [c]                  request c has not returned 3 s after the driver expected it to           *)
(*   Panic   [c, msg]             the handler of request c panicked                                        *)
(*   Obs     [pending, q]         standstill: entries of this trace's requests in the tables; q = no       *)
(*                                request in flight                                                        *)
(*   Final   [pending, open, conns]  end: everything cancelled and given 10 s; open = requests that still  *)
(*                                have not returned; conns = <<n, st>>: used (a request travelled through  *)
(*                                it and the server closed it) | closed (the server closed it unused) |     *)
(*                                kept (Notify said no; the notifier closed it) | open (nobody closed it)   *)
(*   DReq    [c, m, blen, frame, multi, hop, lim] the caller's request: method, body length, cl | chunked, *)
(*                                a header sent with two values, a hop-by-hop header sent; lim = the largest *)
(*                                body command mode carries (a longer chunked body may be refused with 413)  *)
(*   DAns    [c, st, blen, frame, ka, multi, hop, redir]  the target's scripted answer                     *)
(*   DTgt    [c, n, m, uri, multi, hop, blen, bok, host, fwd, path, refused, st]  what the target recorded  *)
(*                                for c: arrivals, method, path+query intact, values of the repeated header, *)
(*                                hop-by-hop header seen, body length, body bytes intact, Host = target,     *)
(*                                X-Forwarded-*; refused = nothing arrived and the caller got 413 / 5xx (st) *)
(*   DUsr    [c, st, multi, hop, blen, bok, done, path, refused]  what the caller got: status, values of the *)
(*                                repeated header, hop-by-hop header seen, body, the handler returned        *)
(*                                without the target having to close, the path the code took                 *)
(* Ordering argument: Call/Resp/Expire/Cancel/Offline are logged BEFORE the action, Sent/Handled/Ret/Stuck  *)
(* AFTER the fact they report, into one mutex-ordered log.                                                  *)
(* Clauses (detail = tag + class):                                                                          *)
(*   OneResponse  a request got no answer (aborted) or two                                                  *)
(*   GatewayError a request that was answered from no response got a status outside 5xx (413 is accepted for *)
(*                a chunked body over the command-mode limit)                                               *)
(*   RightWaiter  a request was answered from a response / connection carrying another id                   *)
(*   Spurious     a request was answered from something nobody sent, or from a malformed response            *)
(*   AtMostOnce   one response / connection answered two requests                                           *)
(*   Status       the status of the relayed answer is not the one the response carried (err: 502)           *)
(*   Delivered    a request whose response (right id, sent after the command, while the request was neither  *)
(*                expired nor cancelled nor offline) was completely handled was answered from nothing, or is  *)
(*                stuck                                                                                       *)
(*   NoPanic      a handler panicked                                                                          *)
(*   NoLeak       no request in flight, yet the tables hold entries of this trace                             *)
(*   NoOrphan     a tunnel connection that was offered is neither used, closed nor refused at the end         *)
(*                (:unknown id, :dup second connection for an id, :late the request had returned / expired /  *)
(*                been cancelled, :race otherwise)                                                            *)
(*   Returns      a request never returned                                                                    *)
(*   SameRequest / SameResponse  the data clauses, see HttpProxyData.tla (RefT, RefU)                         *)
(* Silent (accepted): what a request gets when its response races with its expiry, Cancel or Offline; which   *)
(* 5xx a gateway error is; header order; X-Forwarded-For's value.                                             *)
EXTENDS VLib

VARIABLES tag, call, resp, retd, cancelled, offline, dq, da
vars == <<l, viol, tag, call, resp, retd, cancelled, offline, dq, da>>

Init == /\ l = 1 /\ viol = {} /\ tag = "?" /\ call = <<>> /\ resp = <<>> /\ retd = {} /\ cancelled = FALSE /\ offline = FALSE
        /\ dq = <<>> /\ da = <<>>

Vs(b, c, d) == IF b THEN {V(c, tag \o d)} ELSE {}
HasCall(c) == c \in DOMAIN call
HasResp(n) == n \in DOMAIN resp
CallsOf(id) == {c \in DOMAIN call : call[c].id = id}
Gone(c) == call[c].st = "ret" \/ call[c].exp
\* the request is owed an answer made from a response: one with its id was sent while it was pending and has been handled
Owes(c) == /\ HasCall(c) /\ call[c].st = "sent" /\ ~call[c].exp /\ ~call[c].stuck
           /\ \E n \in DOMAIN resp : resp[n].id = call[c].id /\ resp[n].c = c /\ resp[n].live /\ resp[n].handled

TrCfg == /\ Is("Cfg") /\ tag' = Ev.tag
         /\ l' = l + 1 /\ UNCHANGED <<viol, call, resp, retd, cancelled, offline, dq, da>>

TrCall == /\ Is("Call")
          /\ call' = (Ev.c :> [p |-> Ev.p, id |-> "", st |-> "called", exp |-> FALSE, stuck |-> FALSE, rets |-> 0]) @@ call
          /\ l' = l + 1 /\ UNCHANGED <<viol, tag, resp, retd, cancelled, offline, dq, da>>

TrSent == /\ Is("Sent")
          /\ LET c == Ev.c IN
             call' = (IF HasCall(c) /\ call[c].st = "called" THEN [call EXCEPT ![c].id = Ev.id, ![c].st = "sent"] ELSE call)
          /\ l' = l + 1 /\ UNCHANGED <<viol, tag, resp, retd, cancelled, offline, dq, da>>

TrResp == /\ Is("Resp")
          /\ LET pend == {c \in CallsOf(Ev.id) : call[c].st = "sent" /\ ~call[c].exp}
                 dup  == \E n \in DOMAIN resp : resp[n].id = Ev.id
                 late == \E c \in CallsOf(Ev.id) : Gone(c) IN
             resp' = (Ev.n :> [id |-> Ev.id, k |-> Ev.k, handled |-> FALSE, told |-> "",
                               c |-> IF pend = {} THEN 0 ELSE CHOOSE c \in pend : TRUE,
                               live |-> pend # {} /\ ~cancelled /\ ~offline /\ Ev.k \in {"ok", "relay", "err", "noid"},
                               shape |-> IF Ev.k = "unknown" THEN ":unknown" ELSE IF dup THEN ":dup"
                                         ELSE IF late \/ cancelled THEN ":late" ELSE ":race"]) @@ resp
          /\ l' = l + 1 /\ UNCHANGED <<viol, tag, call, retd, cancelled, offline, dq, da>>

TrHandled == /\ Is("Handled")
             /\ resp' = (IF HasResp(Ev.n) THEN [resp EXCEPT ![Ev.n].handled = TRUE, ![Ev.n].told = Ev.told] ELSE resp)
             /\ l' = l + 1 /\ UNCHANGED <<viol, tag, call, retd, cancelled, offline, dq, da>>

TrExpire == /\ Is("Expire")
            /\ call' = (IF HasCall(Ev.c) THEN [call EXCEPT ![Ev.c].exp = TRUE] ELSE call)
            /\ l' = l + 1 /\ UNCHANGED <<viol, tag, resp, retd, cancelled, offline, dq, da>>

TrCancel == /\ Is("Cancel") /\ cancelled' = TRUE
            /\ call' = [c \in DOMAIN call |-> [call[c] EXCEPT !.exp = TRUE]]
            /\ l' = l + 1 /\ UNCHANGED <<viol, tag, resp, retd, offline, dq, da>>

\* without its control connection no response can reach the server: requests may only time out
TrOffline == /\ Is("Offline") /\ offline' = TRUE
             /\ l' = l + 1 /\ UNCHANGED <<viol, tag, call, resp, retd, cancelled, dq, da>>

\* the proxy may refuse a body it cannot carry: chunked (no Content-Length to route it by) and over the limit
TooLarge(c) == c \in DOMAIN dq /\ dq[c].frame = "chunked" /\ dq[c].blen > dq[c].lim

Class(st) == IF st = 0 THEN "none" ELSE IF st < 200 THEN "1xx" ELSE IF st < 300 THEN "2xx" ELSE IF st < 400 THEN "3xx"
             ELSE IF st < 500 THEN "4xx" ELSE "5xx"

TrRet ==
  /\ Is("Ret")
  /\ LET c == Ev.c
         id == IF HasCall(c) THEN call[c].id ELSE "?"
         n == Ev.n IN
     /\ viol' = viol
          \cup Vs(Ev.st = 0, "OneResponse", ":aborted")
          \cup Vs(HasCall(c) /\ call[c].rets > 0, "OneResponse", ":twice")
          \cup (IF n # 0
                THEN Vs(~HasResp(n), "Spurious", "")
                     \cup Vs(HasResp(n) /\ (resp[n].id # id \/ id = ""), "RightWaiter", IF HasResp(n) THEN ":" \o resp[n].k ELSE "")
                     \cup Vs(HasResp(n) /\ resp[n].k \in {"bad", "unknown"}, "Spurious", ":kind")
                     \cup Vs(n \in retd, "AtMostOnce", "")
                     \cup Vs(HasResp(n) /\ resp[n].k \in {"ok", "noid"} /\ Ev.st # 200, "Status", ":" \o resp[n].k \o ":" \o ToString(Ev.st))
                     \cup Vs(HasResp(n) /\ resp[n].k \in {"err", "st0"} /\ Ev.st # 502 /\ Ev.st # 0, "Status", ":" \o resp[n].k \o ":" \o ToString(Ev.st))
                ELSE Vs(Ev.st # 0 /\ Class(Ev.st) # "5xx" /\ ~(Ev.st = 413 /\ TooLarge(c)), "GatewayError", ":" \o ToString(Ev.st))
                     \cup Vs(Owes(c), "Delivered", ":" \o ToString(Ev.st)))
     /\ retd' = (IF n # 0 THEN retd \cup {n} ELSE retd)
     /\ call' = (IF HasCall(c) THEN [call EXCEPT ![c].st = "ret", ![c].rets = @ + 1] ELSE call)
  /\ l' = l + 1 /\ UNCHANGED <<tag, resp, cancelled, offline, dq, da>>

TrStuck == /\ Is("Stuck")
           /\ viol' = viol \cup Vs(Owes(Ev.c), "Delivered", ":stuck")
           /\ call' = (IF HasCall(Ev.c) THEN [call EXCEPT ![Ev.c].stuck = TRUE] ELSE call)
           /\ l' = l + 1 /\ UNCHANGED <<tag, resp, retd, cancelled, offline, dq, da>>

\* which response the handler had in hand when it panicked
PanicKind(c) == LET S == {n \in DOMAIN resp : resp[n].c = c /\ resp[n].handled} IN
                IF S = {} THEN ":?" ELSE ":" \o resp[CHOOSE n \in S : \A m \in S : m <= n].k
TrPanic == /\ Is("Panic")
           /\ viol' = viol \cup {V("NoPanic", tag \o PanicKind(Ev.c))}
           /\ l' = l + 1 /\ UNCHANGED <<tag, call, resp, retd, cancelled, offline, dq, da>>

TrObs == /\ Is("Obs")
         /\ viol' = viol \cup Vs(Ev.q /\ Ev.pending # 0, "NoLeak", "")
         /\ l' = l + 1 /\ UNCHANGED <<tag, call, resp, retd, cancelled, offline, dq, da>>

Rng(s) == {s[i] : i \in DOMAIN s}
TrFinal == /\ Is("Final")
           /\ viol' = viol \cup Vs(Ev.pending # 0 /\ Len(Ev.open) = 0, "NoLeak", ":final")
                           \cup Vs(Len(Ev.open) # 0, "Returns", "")
                           \cup UNION {Vs(x[2] = "open", "NoOrphan", IF HasResp(x[1]) THEN resp[x[1]].shape ELSE ":?") : x \in Rng(Ev.conns)}
                           \cup UNION {Vs(x[2] = "used" /\ HasResp(x[1]) /\ resp[x[1]].told = "no", "NoOrphan", ":refused-but-used") : x \in Rng(Ev.conns)}
           /\ l' = l + 1 /\ UNCHANGED <<tag, call, resp, retd, cancelled, offline, dq, da>>

\* ---- data clauses ------------------------------------------------------------------------------------------
TrDReq == /\ Is("DReq") /\ dq' = (Ev.c :> Ev) @@ dq
          /\ l' = l + 1 /\ UNCHANGED <<viol, tag, call, resp, retd, cancelled, offline, da>>
TrDAns == /\ Is("DAns") /\ da' = (Ev.c :> Ev) @@ da
          /\ l' = l + 1 /\ UNCHANGED <<viol, tag, call, resp, retd, cancelled, offline, dq>>

\* the request never reached the target and the caller was told so
TrDTgt ==
  /\ Is("DTgt")
  /\ LET c == Ev.c
         q == dq[c]
         P == ":" \o Ev.path IN
     viol' = viol \cup
       (IF c \notin DOMAIN dq THEN {V("SameRequest", tag \o ":unknown-request")}
        ELSE IF Ev.n = 0 THEN Vs(~Ev.refused, "SameRequest", P \o ":never-arrived")
                              \cup Vs(Ev.refused /\ Ev.st = 413 /\ ~TooLarge(c), "SameRequest", P \o ":refused-as-too-large")
        ELSE Vs(Ev.n > 1, "SameRequest", P \o ":arrived-" \o ToString(Ev.n) \o "-times")
             \cup Vs(Ev.m # q.m, "SameRequest", P \o ":method")
             \cup Vs(~Ev.uri, "SameRequest", P \o ":uri")
             \cup Vs(Ev.multi # (IF q.multi THEN 2 ELSE 0), "SameRequest", P \o ":multi-value-header")
             \cup Vs(Ev.hop, "SameRequest", P \o ":hop-by-hop")
             \cup Vs(~Ev.host \/ ~Ev.fwd, "SameRequest", P \o ":host-or-forwarded")
             \cup Vs(Ev.blen < q.blen, "SameRequest", P \o ":body-truncated")
             \cup Vs(Ev.blen > q.blen \/ (Ev.blen = q.blen /\ ~Ev.bok), "SameRequest", P \o ":body-garbled"))
  /\ l' = l + 1 /\ UNCHANGED <<tag, call, resp, retd, cancelled, offline, dq, da>>

TrDUsr ==
  /\ Is("DUsr")
  /\ LET c == Ev.c
         a == da[c]
         q == dq[c]
         P == ":" \o Ev.path
         want == IF q.m = "HEAD" THEN 0 ELSE a.blen IN
     viol' = viol \cup
       (IF c \notin DOMAIN da \/ c \notin DOMAIN dq THEN {V("SameResponse", tag \o ":unknown-request")}
        ELSE IF Ev.st = 0 THEN {V("OneResponse", tag \o P \o ":aborted")}
        ELSE IF Ev.st \in {502, 504} \/ (Ev.refused /\ Ev.st \in {500, 503}) \/ (Ev.refused /\ Ev.st = 413 /\ TooLarge(c)) THEN {}     \* an error instead of a wrong answer
        ELSE Vs(Ev.st # a.st, "SameResponse", P \o (IF a.redir /\ Ev.st = 200 THEN ":redirect-followed" ELSE ":status-" \o ToString(Ev.st)))
             \cup (IF Ev.st # a.st THEN {} ELSE
                   Vs(Ev.multi # (IF a.multi THEN 2 ELSE 0), "SameResponse", P \o ":multi-value-header")
                   \cup Vs(Ev.hop, "SameResponse", P \o ":hop-by-hop")
                   \cup Vs(Ev.blen < want, "SameResponse", P \o ":body-truncated")
                   \cup Vs(Ev.blen > want \/ (Ev.blen = want /\ ~Ev.bok), "SameResponse", P \o ":body-garbled")
                   \cup Vs(~Ev.done, "SameResponse", P \o ":handler-waits-for-target-close")))
  /\ l' = l + 1 /\ UNCHANGED <<tag, call, resp, retd, cancelled, offline, dq, da>>

TrEnd == /\ Is("End") /\ EmitVerdict
         /\ l' = l + 1 /\ viol' = {} /\ tag' = "?" /\ call' = <<>> /\ resp' = <<>> /\ retd' = {}
         /\ cancelled' = FALSE /\ offline' = FALSE /\ dq' = <<>> /\ da' = <<>>

Next == TrCfg \/ TrCall \/ TrSent \/ TrResp \/ TrHandled \/ TrExpire \/ TrCancel \/ TrOffline \/ TrRet \/ TrStuck
        \/ TrPanic \/ TrObs \/ TrFinal \/ TrDReq \/ TrDAns \/ TrDTgt \/ TrDUsr \/ TrEnd
Spec == Init /\ [][Next]_vars
=============================================================================
