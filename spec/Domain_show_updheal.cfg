\* C19 - deviation updateHeals (neighbour of C19-r3m3, the other non-claiming write path): UpdateMapping re-creates a missing index
\* entry (SetNX) after its write. Configuration gen:upd (p1 = the owner's update, p3 = the owner's delete, p2 = a claimant).
\* Expected: Invariant Claimable / Consistent / UpdateClaimsNothing is violated - UpdGet, the whole delete, UpdSet (resurrects the
\* record), UpdHeal (index entry of a deleted mapping): after the acknowledged delete the name routes again and is unclaimable.
\*   tlc -config Domain_show_updheal.cfg Domain.tla      (the same constants with Deviate = {} pass: `./check C19`)
CONSTANTS
  ProcsC1 = {"p1", "p3"}
  ProcsC2 = {"p2"}
  LookProcs = {"lk"}
  Names = {"n1"}
  MaxOps = 1
  MaxLook = 1
  Kinds = {"Create", "Delete", "Update"}
  Pre = TRUE
  Faults = 0
  Guess = FALSE
  HandlerProcs = {"p2"}
  Serial = FALSE
  MaxLegacy = 0
  Fix = TRUE
  Spell = {"plain"}
  CaseFold = TRUE
  OnlyDelete = {"p3"}
  OnlyCreate = {"p2"}
  Deviate = {"updateHeals"}
  DelFaults = FALSE
  CreateFaults = FALSE
  ReadFaults = FALSE
  TTLRollback = TRUE
  UpdFields = {"inactive", "expired"}
  LegStatus = {"active"}
  OnlyList = {}
  Emit = FALSE
INIT Init
NEXT Next
VIEW view
INVARIANTS TypeOK Claimable Consistent UpdateClaimsNothing
CHECK_DEADLOCK FALSE
