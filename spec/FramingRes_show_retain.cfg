\* C05 named deviation (seeded C05-r3m3 and its neighbours): one exit of executeDuplex does not unregister the request,
\* or CloseConnection leaves the connection's entries behind.  TLC must report NothingPending / NothingAfterClose
\* violated.  KEEP = one of pending:refused pending:ok pending:timeout ctl:close conn:close stream:close
\* (stream:close = the code as found before fix C05-2)
CONSTANTS
  MaxFrames = 2
  MaxConns = 2
  NThreads = 2
  RelSites = {}
  LeakAt = {}
  KeepAt = {"@@KEEP@@"}
  Answers = {"refused", "ok", "timeout"}
  Emit = FALSE
SPECIFICATION Spec
INVARIANTS TypeOK @@INV@@
CHECK_DEADLOCK FALSE
