--------------------------- MODULE ConnStateTrace ---------------------------
(* C08 judge: property-level ground truth for "cross-node lookup finds a connected client at  *)
(* its current node".  It knows nothing about the store; it follows the session events the      *)
(* driver performed on the real SessionManagers and, after every event, compares what            *)
(* connstate.Store.FindClientNode answered on EVERY node with what the statement demands:        *)
(*                                                                                              *)
(*   FindLive    while client x holds a live authenticated control connection that has been      *)
(*               heart-beaten in every tick since its handshake, every node's lookup returns     *)
(*               the node and connection of x's most recent successful handshake                 *)
(*   FindClosed  once every connection x ever authenticated on is closed, no lookup reports x    *)
(*               as connected                                                                    *)
(*   RouteLive / RouteClosed   the same two demands on the routing decision of                   *)
(*               SessionManager.SendCommandToClient (local delivery, or the node it forwards to) *)
(*   StateLive / StateClosed   the same two demands on the OTHER answer the shared store gives to *)
(*               "where is client x": the cloud-control client runtime state                      *)
(*               (ClientStateRepository.GetState / GetClientNodeID, written by the handshake's     *)
(*               ConnectClient, kept alive by the heartbeat's EnsureClientOnline, removed by        *)
(*               DisconnectClientIfMatch when the connection is closed).  Its lifetime (90 s) is   *)
(*               not scaled down by the driver, so these two clauses never meet an expiry.          *)
(*                                                                                              *)
(* Where the statement is silent the judge accepts: connections that missed a heartbeat tick,    *)
(* clients whose latest connection is closed while an older one is still open, never-seen        *)
(* clients.  Timing: the driver discards a behaviour whose steps overran the safety margin of    *)
(* the registration lifetime, so no clause here depends on a lifetime having just run out.       *)
(*                                                                                              *)
(* detail = <backend>:<history class>:<what the lookup said>                                     *)
(*   history class (since x's latest successful handshake), flags joined by "+":                  *)
(*   "lost" a handshake of x passed the credential check elsewhere but its response could not     *)
(*   be delivered (not a successful handshake), "late" an older connection of x was closed /      *)
(*   cleaned up, "ttl" at least one registration lifetime of ticks has passed; "fresh" = none.    *)
(*   A leading "first+" marks that x's latest successful handshake was its first-connection       *)
(*   handshake (the server allocated the identity during it).                                    *)
(*   A leading "reauth+" marks that x's latest successful handshake was a re-handshake on a       *)
(*   connection x had already authenticated on.                                                  *)
(*   A leading "lookup+" marks that, since that handshake, a two-step lookup of x (LkBegin = it    *)
(*   read the client index, LkEnd = it read the record) completed - lookups are read-only, so     *)
(*   this must not matter; nothing is demanded of the overlapped lookup's own answer.             *)
(*   FindClosed / RouteClosed details end with the cause of the latest close of a connection of   *)
(*   x: peer (read loop ended) | cmd (disconnect command) | sweep (heartbeat timeout) | kick.     *)
(*                                                                                              *)
(* Store operations in flight (round 3).  A heartbeat, a close or a handshake may be driven with    *)
(* its connstate operation running storage call by storage call: OpBegin (the session-layer part    *)
(* is done, the store operation is parked in front of its first call), OpStep (one call released),   *)
(* OpEnd (the event has returned); other events fall in between.  The statement speaks of           *)
(* interleavings of EVENTS, so: a heartbeat counts from its OpBegin, a handshake is the client's      *)
(* most recent one from its OpBegin (the response has been delivered by then), a connection is       *)
(* closed at its OpEnd - and NOTHING is demanded for the client while the operation is in flight.    *)
(* Afterwards the usual demands apply.  If events of the same client fell into the window, the       *)
(* detail starts with "race(<kind>@<k>):" - kind hb|close|auth, k = number of storage calls the       *)
(* operation had made when the client's latest handshake inside the window happened (if there was     *)
(* none: when the first event of the client inside the window happened) - until the client's next    *)
(* handshake outside a window.                                                                       *)
(* Routing decisions carry the call site in `via`: cmd (SendCommandToClient, command_forwarder.go),   *)
(* http (SendHTTPProxyRequest, http_proxy.go); for http the clause names are HttpRouteLive/Closed.    *)
EXTENDS VLib

Conns   == {"c1", "c2", "c3", "c4"}
Clients == {"X", "Y"}
VARIABLES be, life, clk,
          cs,      \* connection -> [st |-> "new"|"open"|"dead"|"closing"|"closed", node, auth]
          last,    \* client -> connection of its most recent successful handshake | "-"
          lastAt,  \* client -> clock of that handshake
          late,    \* client -> an older connection of it was closed since that handshake
          lost,    \* client -> an undeliverable handshake of it happened since that handshake
          cause,   \* client -> cause of the latest close of one of its connections
          lkd,     \* client -> a two-step lookup of it completed since its latest handshake
          re,      \* client -> kind of its latest handshake: "reauth" (on an already authenticated connection),
                   \*           "first" (first-connection handshake, identity allocated by the server), "-"
          hb, alive,
          opk, opc, opx,  \* the store operation in flight: kind "-"|"hb"|"close"|"auth", its connection, its client
          opn,            \* storage calls it has made so far
          opov, opauth, opat,  \* an event of opx fell into the window / a handshake of opx did / calls made by then
          rc,      \* client -> "" | "race(<kind>@<k>)" (see above)
          kk       \* client -> a connection of it was closed by KickOldControlConnection since its latest handshake
opv  == <<opk, opc, opx, opn, opov, opauth, opat>>
vars == <<l, viol, be, life, clk, cs, last, lastAt, late, lost, cause, lkd, re, hb, alive, opv, rc, kk>>

Fresh == [st |-> "new", node |-> "-", auth |-> "-"]
Reset == /\ be' = "?" /\ life' = 2 /\ clk' = 0
         /\ cs' = [c \in Conns |-> Fresh]
         /\ last' = [x \in Clients |-> "-"] /\ lastAt' = [x \in Clients |-> 0]
         /\ late' = [x \in Clients |-> FALSE] /\ lost' = [x \in Clients |-> FALSE]
         /\ cause' = [x \in Clients |-> "-"] /\ lkd' = [x \in Clients |-> FALSE] /\ re' = [x \in Clients |-> "-"]
         /\ hb' = [c \in Conns |-> FALSE] /\ alive' = [c \in Conns |-> FALSE]
         /\ opk' = "-" /\ opc' = "-" /\ opx' = "-" /\ opn' = 0 /\ opov' = FALSE /\ opauth' = FALSE /\ opat' = 0
         /\ rc' = [x \in Clients |-> ""] /\ kk' = [x \in Clients |-> FALSE]

Init == /\ l = 1 /\ viol = {} /\ be = "?" /\ life = 2 /\ clk = 0
        /\ cs = [c \in Conns |-> Fresh]
        /\ last = [x \in Clients |-> "-"] /\ lastAt = [x \in Clients |-> 0]
        /\ late = [x \in Clients |-> FALSE] /\ lost = [x \in Clients |-> FALSE]
        /\ cause = [x \in Clients |-> "-"] /\ lkd = [x \in Clients |-> FALSE] /\ re = [x \in Clients |-> "-"]
        /\ hb = [c \in Conns |-> FALSE] /\ alive = [c \in Conns |-> FALSE]
        /\ opk = "-" /\ opc = "-" /\ opx = "-" /\ opn = 0 /\ opov = FALSE /\ opauth = FALSE /\ opat = 0
        /\ rc = [x \in Clients |-> ""] /\ kk = [x \in Clients |-> FALSE]

Step == l' = l + 1
\* an event of client x: does it fall into the window of the operation in flight
Ov(x, isAuth) ==
  IF opk # "-" /\ x = opx /\ (isAuth \/ ~opov)
  THEN /\ opov' = TRUE /\ opat' = opn /\ opauth' = (opauth \/ isAuth) /\ UNCHANGED <<opk, opc, opx, opn>>
  ELSE UNCHANGED opv

TrCfg == /\ Is("Cfg") /\ be' = Ev.be /\ life' = Ev.ttl /\ Step
         /\ UNCHANGED <<viol, clk, cs, last, lastAt, late, lost, cause, lkd, re, hb, alive, opv, rc, kk>>

TrConnect == /\ Is("Connect") /\ Ev.c \in Conns
             /\ cs' = [cs EXCEPT ![Ev.c] = [st |-> "open", node |-> Ev.n, auth |-> "-"]]
             /\ Step /\ UNCHANGED <<viol, be, life, clk, last, lastAt, late, lost, cause, lkd, re, hb, alive, opv, rc, kk>>

\* a successful control handshake of client x on connection c at node n; "evicted" lists the
\* connections whose transport the server closed while handling it (observed by the driver)
TrAuth == /\ Is("Auth") /\ Ev.c \in Conns /\ Ev.x \in Clients
          /\ LET ev == {Ev.evicted[i] : i \in DOMAIN Ev.evicted} IN
             cs' = [c \in Conns |-> IF c = Ev.c THEN [st |-> "open", node |-> Ev.n, auth |-> Ev.x]
                                    ELSE IF c \in ev THEN [cs[c] EXCEPT !.st = "closed"] ELSE cs[c]]
          /\ last' = [last EXCEPT ![Ev.x] = Ev.c]
          /\ lastAt' = [lastAt EXCEPT ![Ev.x] = clk]
          /\ late' = [late EXCEPT ![Ev.x] = FALSE]
          /\ lost' = [lost EXCEPT ![Ev.x] = FALSE]
          /\ hb' = [hb EXCEPT ![Ev.c] = TRUE]
          /\ alive' = [alive EXCEPT ![Ev.c] = TRUE]
          /\ Step /\ UNCHANGED <<viol, be, life, clk, cause>> /\ lkd' = [lkd EXCEPT ![Ev.x] = FALSE]
          /\ re' = [re EXCEPT ![Ev.x] = IF Has("w") /\ Ev.w = "new" THEN "first" ELSE IF cs[Ev.c].auth = Ev.x THEN "reauth" ELSE "-"]
          /\ Ov(Ev.x, TRUE) /\ rc' = [rc EXCEPT ![Ev.x] = ""] /\ kk' = [kk EXCEPT ![Ev.x] = FALSE]

\* the credential check of x passed on connection c but the response could not be written: the
\* peer is gone.  Not a successful handshake: x's location does not move.  The connection is dead
\* (no longer "held" by the client) but the server has not closed it yet - that is the Close event.
TrAuthLost == /\ Is("AuthLost") /\ Ev.c \in Conns /\ Ev.x \in Clients
              /\ cs' = [cs EXCEPT ![Ev.c].st = "dead"]
              /\ lost' = [lost EXCEPT ![Ev.x] = TRUE]
              /\ Step /\ UNCHANGED <<viol, be, life, clk, last, lastAt, late, cause, lkd, re, hb, alive, rc, kk>>
              /\ Ov(Ev.x, FALSE)

TrHB == /\ Is("HB") /\ Ev.c \in Conns
        /\ hb' = [hb EXCEPT ![Ev.c] = TRUE]
        /\ Step /\ UNCHANGED <<viol, be, life, clk, cs, last, lastAt, late, lost, cause, lkd, re, alive, rc, kk>>
        /\ Ov(cs[Ev.c].auth, FALSE)

\* a two-step lookup of x on node m: no demand on its own answer (it overlaps other events)
TrLkBegin == /\ Is("LkBegin") /\ Step
             /\ UNCHANGED <<viol, be, life, clk, cs, last, lastAt, late, lost, cause, lkd, re, hb, alive, opv, rc, kk>>
TrLkEnd == /\ Is("LkEnd") /\ Step
           /\ lkd' = IF Ev.x \in Clients THEN [lkd EXCEPT ![Ev.x] = TRUE] ELSE lkd
           /\ UNCHANGED <<viol, be, life, clk, cs, last, lastAt, late, lost, cause, re, hb, alive, opv, rc, kk>>

TrClose == /\ Is("Close") /\ Ev.c \in Conns
           /\ cs' = [cs EXCEPT ![Ev.c].st = "closed"]
           /\ LET x == cs[Ev.c].auth IN
              /\ late' = IF x \in Clients /\ last[x] # Ev.c THEN [late EXCEPT ![x] = TRUE] ELSE late
              /\ cause' = IF x \in Clients THEN [cause EXCEPT ![x] = Ev.why] ELSE cause
              /\ kk' = IF x \in Clients /\ Ev.why = "kick" THEN [kk EXCEPT ![x] = TRUE] ELSE kk
           /\ Step /\ UNCHANGED <<viol, be, life, clk, last, lastAt, lost, lkd, re, hb, alive, rc>>
           /\ Ov(cs[Ev.c].auth, FALSE)

\* ---- the same events with their store operation in flight -----------------------------------
TrOpBegin ==
  /\ Is("OpBegin") /\ Ev.c \in Conns /\ opk = "-"
  /\ opk' = Ev.k /\ opc' = Ev.c /\ opn' = 0 /\ opov' = FALSE /\ opauth' = FALSE /\ opat' = 0
  /\ CASE Ev.k = "hb" ->
            /\ opx' = cs[Ev.c].auth
            /\ hb' = [hb EXCEPT ![Ev.c] = TRUE]
            /\ UNCHANGED <<cs, last, lastAt, late, lost, lkd, re, alive, rc, kk>>
       [] Ev.k = "close" ->
            /\ opx' = cs[Ev.c].auth
            /\ cs' = [cs EXCEPT ![Ev.c].st = "closing"]
            /\ UNCHANGED <<last, lastAt, late, lost, lkd, re, hb, alive, rc, kk>>
       [] OTHER ->           \* "auth": the response has been delivered - x's most recent successful handshake
            /\ Ev.x \in Clients /\ opx' = Ev.x
            /\ LET ev == {Ev.evicted[i] : i \in DOMAIN Ev.evicted} IN       \* transports the server closed while handling it
               cs' = [c \in Conns |-> IF c = Ev.c THEN [st |-> "open", node |-> Ev.n, auth |-> Ev.x]
                                      ELSE IF c \in ev THEN [cs[c] EXCEPT !.st = "closed"] ELSE cs[c]]
            /\ last' = [last EXCEPT ![Ev.x] = Ev.c]
            /\ lastAt' = [lastAt EXCEPT ![Ev.x] = clk]
            /\ late' = [late EXCEPT ![Ev.x] = FALSE]
            /\ lost' = [lost EXCEPT ![Ev.x] = FALSE]
            /\ hb' = [hb EXCEPT ![Ev.c] = TRUE]
            /\ alive' = [alive EXCEPT ![Ev.c] = TRUE]
            /\ lkd' = [lkd EXCEPT ![Ev.x] = FALSE]
            /\ re' = [re EXCEPT ![Ev.x] = IF cs[Ev.c].auth = Ev.x THEN "reauth" ELSE "-"]
            /\ rc' = [rc EXCEPT ![Ev.x] = ""] /\ kk' = [kk EXCEPT ![Ev.x] = FALSE]
  /\ Step /\ UNCHANGED <<viol, be, life, clk, cause>>

TrOpStep == /\ Is("OpStep") /\ opn' = opn + 1 /\ Step
            /\ UNCHANGED <<viol, be, life, clk, cs, last, lastAt, late, lost, cause, lkd, re, hb, alive, opk, opc, opx, opov, opauth, opat, rc, kk>>

\* the event has returned
TrOpEnd ==
  /\ Is("OpEnd") /\ opk # "-"
  /\ LET x == opx
         shut == IF opk = "close" THEN {opc} ELSE {} IN
     /\ cs' = [c \in Conns |-> IF c \in shut THEN [cs[c] EXCEPT !.st = "closed"] ELSE cs[c]]
     /\ late' = IF opk = "close" /\ x \in Clients /\ last[x] # opc THEN [late EXCEPT ![x] = TRUE] ELSE late
     /\ cause' = IF opk = "close" /\ x \in Clients THEN [cause EXCEPT ![x] = Ev.why] ELSE cause
     /\ kk' = IF opk = "close" /\ x \in Clients /\ Ev.why = "kick" THEN [kk EXCEPT ![x] = TRUE] ELSE kk
     /\ rc' = IF opov /\ x \in Clients
              THEN [rc EXCEPT ![x] = "race(" \o opk \o "@" \o ToString(opat) \o ")"] ELSE rc
  /\ opk' = "-" /\ opc' = "-" /\ opx' = "-" /\ opn' = 0 /\ opov' = FALSE /\ opauth' = FALSE /\ opat' = 0
  /\ Step /\ UNCHANGED <<viol, be, life, clk, last, lastAt, lost, lkd, re, hb, alive>>

TrTick == /\ Is("Tick") /\ clk' = clk + 1
          /\ alive' = [c \in Conns |-> alive[c] /\ (cs[c].st # "open" \/ hb[c])]
          /\ hb' = [c \in Conns |-> FALSE]
          /\ Step /\ UNCHANGED <<viol, be, life, cs, last, lastAt, late, lost, cause, lkd, re, opv, rc, kk>>

\* ---- what the statement demands right now ------------------------------------------------
Connected(x) == last[x] # "-" /\ cs[last[x]].st = "open" /\ alive[last[x]]
AllClosed(x) == last[x] # "-" /\ \A c \in Conns : cs[c].auth = x => cs[c].st = "closed"
Class(x) == LET t == clk - lastAt[x] >= life
                base == IF late[x] /\ t THEN "late+ttl" ELSE IF late[x] THEN "late" ELSE IF t THEN "ttl" ELSE "fresh"
                b2 == IF ~lost[x] THEN base ELSE IF base = "fresh" THEN "lost" ELSE "lost+" \o base
                b3 == IF lkd[x] THEN "lookup+" \o b2 ELSE b2
            IN IF re[x] = "-" THEN b3 ELSE re[x] \o "+" \o b3

\* nothing is demanded for a client while a store operation of one of its connections is in flight
InFlightOf(x) == opk # "-" /\ opx = x
D(x, rest) == IF rc[x] = "" THEN be \o ":" \o rest ELSE rc[x] \o ":" \o be \o ":" \o rest

FindBad(f) ==
  IF f.x \notin Clients \/ InFlightOf(f.x) THEN {}
  ELSE IF Connected(f.x)
       THEN IF f.r = "found" /\ f.node = cs[last[f.x]].node /\ f.conn = last[f.x] THEN {}
            ELSE {V("FindLive", D(f.x, Class(f.x) \o ":" \o (IF f.r = "found" THEN "wrong" ELSE f.r)))}
  ELSE IF AllClosed(f.x) /\ f.r = "found" THEN {V("FindClosed", D(f.x, Class(f.x) \o ":stale:" \o cause[f.x]))}
  ELSE {}

\* routing decision for client x taken on node f.from by call site f.via ("cmd" SendCommandToClient,
\* "http" SendHTTPProxyRequest):
\*   "local" (delivered to a connection of this node), "forward" to f.node, "none" (refused)
\* The demand concerns nodes that ask the shared store: a node that still holds an open
\* (not yet cleaned up) older connection of x answers from its own registry - no demand there.
StaleLocal(f) == \E c \in Conns : cs[c].auth = f.x /\ cs[c].st \in {"open", "dead", "closing"} /\ cs[c].node = f.from /\ c # last[f.x]
RouteBad(f) ==
  LET pre == IF "via" \in DOMAIN f /\ f.via = "http" THEN "HttpRoute" ELSE "Route" IN
  IF f.x \notin Clients \/ StaleLocal(f) \/ InFlightOf(f.x) THEN {}
  ELSE IF Connected(f.x)
       THEN LET n == cs[last[f.x]].node
                want == IF n = f.from THEN "local" ELSE "forward"
                good == f.r = want /\ (want = "forward" => f.node = n)
            IN IF good THEN {}
               ELSE {V(pre \o "Live", D(f.x, Class(f.x) \o ":" \o want \o "->" \o f.r))}
  ELSE IF AllClosed(f.x) /\ f.r # "none" THEN {V(pre \o "Closed", D(f.x, Class(f.x) \o ":" \o f.r \o ":" \o cause[f.x]))}
  ELSE {}

\* the client runtime state as node f.from reads it: r = "found" (online; node / conn as stored; svc = what
\* the service-level GetClientNodeID says) | "none" (no state = offline) | "error"
\* detail = <group>:<the detail of the other clauses>; group = "lost" (an undeliverable handshake of x
\* happened since its latest successful one), else for StateClosed "kick" (a connection of x was closed
\* by KickOldControlConnection since x's latest successful handshake), else "plain"
StateBad(f) ==
  IF f.x \notin Clients \/ InFlightOf(f.x) THEN {}
  ELSE IF Connected(f.x)
       THEN LET n == cs[last[f.x]].node IN
            IF f.r = "found" /\ f.node = n /\ f.conn = last[f.x] /\ f.svc = n THEN {}
            ELSE {V("StateLive", (IF lost[f.x] THEN "lost:" ELSE "plain:")
                                 \o D(f.x, Class(f.x) \o ":" \o (IF f.r = "found" THEN "wrong" ELSE f.r)))}
  ELSE IF AllClosed(f.x) /\ (f.r = "found" \/ f.svc # "-")
       THEN {V("StateClosed", (IF lost[f.x] THEN "lost:" ELSE IF kk[f.x] THEN "kick:" ELSE "plain:")
                              \o D(f.x, Class(f.x) \o ":stale:" \o cause[f.x]))}
  ELSE {}

TrObs == /\ Is("Obs")
         /\ viol' = viol \cup UNION {FindBad(Ev.finds[i]) : i \in DOMAIN Ev.finds}
                         \cup UNION {RouteBad(Ev.routes[i]) : i \in DOMAIN Ev.routes}
                         \cup (IF Has("states") THEN UNION {StateBad(Ev.states[i]) : i \in DOMAIN Ev.states} ELSE {})
         /\ Step /\ UNCHANGED <<be, life, clk, cs, last, lastAt, late, lost, cause, lkd, re, hb, alive, opv, rc, kk>>

TrEnd == /\ Is("End") /\ EmitVerdict
         /\ l' = l + 1 /\ viol' = {} /\ Reset

Next == TrCfg \/ TrConnect \/ TrAuth \/ TrAuthLost \/ TrLkBegin \/ TrLkEnd \/ TrHB \/ TrClose \/ TrOpBegin \/ TrOpStep \/ TrOpEnd
        \/ TrTick \/ TrObs \/ TrEnd
Spec == Init /\ [][Next]_vars
=============================================================================
