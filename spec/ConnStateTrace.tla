--------------------------- MODULE ConnStateTrace ---------------------------
(* C08 judge: property-level ground truth for "cross-node lookup finds a connected client at  *)
(* its current node".  It knows nothing about the store; it follows the session events the      *)
(* driver performed on the real SessionManagers and, after every event, compares what            *)
(* connstate.Store.FindClientNode answered on EVERY node with what the statement demands:        *)
(*                                                                                              *)
(*   FindLive    while client x holds a live authenticated control connection that has been      *)
(*               heart-beaten in every tick since its handshake, every node's lookup returns     *)
(*               the node and connection of x's most recent successful handshake                 *)
(*   FindClosed  once every connection x ever authenticated on is closed, no lookup reports x    *)
(*               as connected                                                                    *)
(*   RouteLive / RouteClosed   the same two demands on the routing decision of                   *)
(*               SessionManager.SendCommandToClient (local delivery, or the node it forwards to) *)
(*                                                                                              *)
(* Where the statement is silent the judge accepts: connections that missed a heartbeat tick,    *)
(* clients whose latest connection is closed while an older one is still open, never-seen        *)
(* clients.  Timing: the driver discards a behaviour whose steps overran the safety margin of    *)
(* the registration lifetime, so no clause here depends on a lifetime having just run out.       *)
(*                                                                                              *)
(* detail = <backend>:<history class>:<what the lookup said>                                     *)
(*   history class (since x's latest successful handshake), flags joined by "+":                  *)
(*   "lost" a handshake of x passed the credential check elsewhere but its response could not     *)
(*   be delivered (not a successful handshake), "late" an older connection of x was closed /      *)
(*   cleaned up, "ttl" at least one registration lifetime of ticks has passed; "fresh" = none.    *)
(*   A leading "first+" marks that x's latest successful handshake was its first-connection       *)
(*   handshake (the server allocated the identity during it).                                    *)
(*   A leading "reauth+" marks that x's latest successful handshake was a re-handshake on a       *)
(*   connection x had already authenticated on.                                                  *)
(*   A leading "lookup+" marks that, since that handshake, a two-step lookup of x (LkBegin = it    *)
(*   read the client index, LkEnd = it read the record) completed - lookups are read-only, so     *)
(*   this must not matter; nothing is demanded of the overlapped lookup's own answer.             *)
(*   FindClosed / RouteClosed details end with the cause of the latest close of a connection of   *)
(*   x: peer (read loop ended) | cmd (disconnect command) | sweep (heartbeat timeout) | kick.     *)
EXTENDS VLib

Conns   == {"c1", "c2", "c3", "c4"}
Clients == {"X", "Y"}
VARIABLES be, life, clk,
          cs,      \* connection -> [st |-> "new"|"open"|"dead"|"closed", node, auth]
          last,    \* client -> connection of its most recent successful handshake | "-"
          lastAt,  \* client -> clock of that handshake
          late,    \* client -> an older connection of it was closed since that handshake
          lost,    \* client -> an undeliverable handshake of it happened since that handshake
          cause,   \* client -> cause of the latest close of one of its connections
          lkd,     \* client -> a two-step lookup of it completed since its latest handshake
          re,      \* client -> kind of its latest handshake: "reauth" (on an already authenticated connection),
                   \*           "first" (first-connection handshake, identity allocated by the server), "-"
          hb, alive
vars == <<l, viol, be, life, clk, cs, last, lastAt, late, lost, cause, lkd, re, hb, alive>>

Fresh == [st |-> "new", node |-> "-", auth |-> "-"]
Reset == /\ be' = "?" /\ life' = 2 /\ clk' = 0
         /\ cs' = [c \in Conns |-> Fresh]
         /\ last' = [x \in Clients |-> "-"] /\ lastAt' = [x \in Clients |-> 0]
         /\ late' = [x \in Clients |-> FALSE] /\ lost' = [x \in Clients |-> FALSE]
         /\ cause' = [x \in Clients |-> "-"] /\ lkd' = [x \in Clients |-> FALSE] /\ re' = [x \in Clients |-> "-"]
         /\ hb' = [c \in Conns |-> FALSE] /\ alive' = [c \in Conns |-> FALSE]

Init == /\ l = 1 /\ viol = {} /\ be = "?" /\ life = 2 /\ clk = 0
        /\ cs = [c \in Conns |-> Fresh]
        /\ last = [x \in Clients |-> "-"] /\ lastAt = [x \in Clients |-> 0]
        /\ late = [x \in Clients |-> FALSE] /\ lost = [x \in Clients |-> FALSE]
        /\ cause = [x \in Clients |-> "-"] /\ lkd = [x \in Clients |-> FALSE] /\ re = [x \in Clients |-> "-"]
        /\ hb = [c \in Conns |-> FALSE] /\ alive = [c \in Conns |-> FALSE]

Step == l' = l + 1

TrCfg == /\ Is("Cfg") /\ be' = Ev.be /\ life' = Ev.ttl /\ Step
         /\ UNCHANGED <<viol, clk, cs, last, lastAt, late, lost, cause, lkd, re, hb, alive>>

TrConnect == /\ Is("Connect") /\ Ev.c \in Conns
             /\ cs' = [cs EXCEPT ![Ev.c] = [st |-> "open", node |-> Ev.n, auth |-> "-"]]
             /\ Step /\ UNCHANGED <<viol, be, life, clk, last, lastAt, late, lost, cause, lkd, re, hb, alive>>

\* a successful control handshake of client x on connection c at node n; "evicted" lists the
\* connections whose transport the server closed while handling it (observed by the driver)
TrAuth == /\ Is("Auth") /\ Ev.c \in Conns /\ Ev.x \in Clients
          /\ LET ev == {Ev.evicted[i] : i \in DOMAIN Ev.evicted} IN
             cs' = [c \in Conns |-> IF c = Ev.c THEN [st |-> "open", node |-> Ev.n, auth |-> Ev.x]
                                    ELSE IF c \in ev THEN [cs[c] EXCEPT !.st = "closed"] ELSE cs[c]]
          /\ last' = [last EXCEPT ![Ev.x] = Ev.c]
          /\ lastAt' = [lastAt EXCEPT ![Ev.x] = clk]
          /\ late' = [late EXCEPT ![Ev.x] = FALSE]
          /\ lost' = [lost EXCEPT ![Ev.x] = FALSE]
          /\ hb' = [hb EXCEPT ![Ev.c] = TRUE]
          /\ alive' = [alive EXCEPT ![Ev.c] = TRUE]
          /\ Step /\ UNCHANGED <<viol, be, life, clk, cause>> /\ lkd' = [lkd EXCEPT ![Ev.x] = FALSE]
          /\ re' = [re EXCEPT ![Ev.x] = IF Has("w") /\ Ev.w = "new" THEN "first" ELSE IF cs[Ev.c].auth = Ev.x THEN "reauth" ELSE "-"]

\* the credential check of x passed on connection c but the response could not be written: the
\* peer is gone.  Not a successful handshake: x's location does not move.  The connection is dead
\* (no longer "held" by the client) but the server has not closed it yet - that is the Close event.
TrAuthLost == /\ Is("AuthLost") /\ Ev.c \in Conns /\ Ev.x \in Clients
              /\ cs' = [cs EXCEPT ![Ev.c].st = "dead"]
              /\ lost' = [lost EXCEPT ![Ev.x] = TRUE]
              /\ Step /\ UNCHANGED <<viol, be, life, clk, last, lastAt, late, cause, lkd, re, hb, alive>>

TrHB == /\ Is("HB") /\ Ev.c \in Conns
        /\ hb' = [hb EXCEPT ![Ev.c] = TRUE]
        /\ Step /\ UNCHANGED <<viol, be, life, clk, cs, last, lastAt, late, lost, cause, lkd, re, alive>>

\* a two-step lookup of x on node m: no demand on its own answer (it overlaps other events)
TrLkBegin == /\ Is("LkBegin") /\ Step
             /\ UNCHANGED <<viol, be, life, clk, cs, last, lastAt, late, lost, cause, lkd, re, hb, alive>>
TrLkEnd == /\ Is("LkEnd") /\ Step
           /\ lkd' = IF Ev.x \in Clients THEN [lkd EXCEPT ![Ev.x] = TRUE] ELSE lkd
           /\ UNCHANGED <<viol, be, life, clk, cs, last, lastAt, late, lost, cause, re, hb, alive>>

TrClose == /\ Is("Close") /\ Ev.c \in Conns
           /\ cs' = [cs EXCEPT ![Ev.c].st = "closed"]
           /\ LET x == cs[Ev.c].auth IN
              /\ late' = IF x \in Clients /\ last[x] # Ev.c THEN [late EXCEPT ![x] = TRUE] ELSE late
              /\ cause' = IF x \in Clients THEN [cause EXCEPT ![x] = Ev.why] ELSE cause
           /\ Step /\ UNCHANGED <<viol, be, life, clk, last, lastAt, lost, lkd, re, hb, alive>>

TrTick == /\ Is("Tick") /\ clk' = clk + 1
          /\ alive' = [c \in Conns |-> alive[c] /\ (cs[c].st # "open" \/ hb[c])]
          /\ hb' = [c \in Conns |-> FALSE]
          /\ Step /\ UNCHANGED <<viol, be, life, cs, last, lastAt, late, lost, cause, lkd, re>>

\* ---- what the statement demands right now ------------------------------------------------
Connected(x) == last[x] # "-" /\ cs[last[x]].st = "open" /\ alive[last[x]]
AllClosed(x) == last[x] # "-" /\ \A c \in Conns : cs[c].auth = x => cs[c].st = "closed"
Class(x) == LET t == clk - lastAt[x] >= life
                base == IF late[x] /\ t THEN "late+ttl" ELSE IF late[x] THEN "late" ELSE IF t THEN "ttl" ELSE "fresh"
                b2 == IF ~lost[x] THEN base ELSE IF base = "fresh" THEN "lost" ELSE "lost+" \o base
                b3 == IF lkd[x] THEN "lookup+" \o b2 ELSE b2
            IN IF re[x] = "-" THEN b3 ELSE re[x] \o "+" \o b3

FindBad(f) ==
  IF f.x \notin Clients THEN {}
  ELSE IF Connected(f.x)
       THEN IF f.r = "found" /\ f.node = cs[last[f.x]].node /\ f.conn = last[f.x] THEN {}
            ELSE {V("FindLive", be \o ":" \o Class(f.x) \o ":" \o (IF f.r = "found" THEN "wrong" ELSE f.r))}
  ELSE IF AllClosed(f.x) /\ f.r = "found" THEN {V("FindClosed", be \o ":" \o Class(f.x) \o ":stale:" \o cause[f.x])}
  ELSE {}

\* routing decision of SendCommandToClient(x) issued on node f.from:
\*   "local" (delivered to a connection of this node), "forward" to f.node, "none" (refused)
\* The demand concerns nodes that ask the shared store: a node that still holds an open
\* (not yet cleaned up) older connection of x answers from its own registry - no demand there.
StaleLocal(f) == \E c \in Conns : cs[c].auth = f.x /\ cs[c].st \in {"open", "dead"} /\ cs[c].node = f.from /\ c # last[f.x]
RouteBad(f) ==
  IF f.x \notin Clients \/ StaleLocal(f) THEN {}
  ELSE IF Connected(f.x)
       THEN LET n == cs[last[f.x]].node
                want == IF n = f.from THEN "local" ELSE "forward"
                good == f.r = want /\ (want = "forward" => f.node = n)
            IN IF good THEN {}
               ELSE {V("RouteLive", be \o ":" \o Class(f.x) \o ":" \o want \o "->" \o f.r)}
  ELSE IF AllClosed(f.x) /\ f.r # "none" THEN {V("RouteClosed", be \o ":" \o Class(f.x) \o ":" \o f.r \o ":" \o cause[f.x])}
  ELSE {}

TrObs == /\ Is("Obs")
         /\ viol' = viol \cup UNION {FindBad(Ev.finds[i]) : i \in DOMAIN Ev.finds}
                         \cup UNION {RouteBad(Ev.routes[i]) : i \in DOMAIN Ev.routes}
         /\ Step /\ UNCHANGED <<be, life, clk, cs, last, lastAt, late, lost, cause, lkd, re, hb, alive>>

TrEnd == /\ Is("End") /\ EmitVerdict
         /\ l' = l + 1 /\ viol' = {} /\ Reset

Next == TrCfg \/ TrConnect \/ TrAuth \/ TrAuthLost \/ TrLkBegin \/ TrLkEnd \/ TrHB \/ TrClose \/ TrTick \/ TrObs \/ TrEnd
Spec == Init /\ [][Next]_vars
=============================================================================
