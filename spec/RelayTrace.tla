----------------------------- MODULE RelayTrace -----------------------------
(* C12 judge (property level).  Knows nothing about goroutines, buffers or timers: only what   *)
(* the endpoints of a relay can observe.                                                       *)
(*                                                                                            *)
(* TCP relay (iocopy.Bidirectional, directly or through tunnel.Tunnel.runDataCopy)             *)
(*   BStart{conn, via}                        one trace = one relay call                        *)
(*   Send{e, n}                               endpoint e wrote n more payload bytes             *)
(*   EpEnd{e, how}                            endpoint e did halfclose | close | error          *)
(*   Deliver{e, off, len, ok}                 endpoint e received len bytes that are bytes      *)
(*                                            off.. of the other endpoint's counter stream       *)
(*   ReadEnd{d, kind} WriteErr{d}             (scripted conns only) the relay's Read on the     *)
(*                                            source of direction d got EOF/err; its Write failed *)
(*   RelayCloseWrite{e} RelayClose{e}         (scripted conns only) relay called these on conn e *)
(*   RelayDeadline{e, op, inMs}               (scripted conns) relay set a read/write deadline on   *)
(*                                            conn e                                                *)
(*   ReadTimeout{d} WriteTimeout{d}           (scripted conns) such a deadline had passed on the    *)
(*                                            scripted clock (one second per step, traffic in every  *)
(*                                            step) when the relay read the source / wrote the        *)
(*                                            destination of direction d: the call failed with a      *)
(*                                            time-out; the stream itself has not ended                *)
(*   PeerEOF{e}                               (real sockets) the peer of conn e read end-of-stream  *)
(*   Returned{...} | Hung                     the call returned / had not returned when the      *)
(*                                            watchdog (5 s) expired                             *)
(* UDP relay (iocopy.UDP)                                                                        *)
(*   UStart{t, u, cut, how, sock, via, sc, lossy}  datagram sizes tunnel->UDP and UDP->tunnel,   *)
(*                                            the byte offset at which the tunnel stream ends,   *)
(*                                            by "eof" or "err"; sc = slow-write scenario tag      *)
(*                                            (tunnelWrite: a tunnel Write is held while more      *)
(*                                            datagrams arrive, ...); lossy = tunnel Writes         *)
(*                                            failed transiently, gaps are accepted                  *)
(*   UDeliver{idx, len, ok}                   the UDP peer received a datagram (idx from payload) *)
(*   USent{idx}                               the UDP peer sent its idx-th datagram               *)
(*   TRecord{idx, len, ok}                    a whole [len][datagram] record appeared on the tunnel *)
(*   TJunk{n}                                 bytes on the tunnel that are not a whole record     *)
(*   UFlushTimeout{have}                      datagrams sent by the peer were not on the tunnel    *)
(*                                            2 s later (flush interval is 20 ms)                  *)
(*   TunnelEnd                                the relay's Read on the tunnel returned EOF/err      *)
(*   UTimeout{side, op}                       (scripted conns) a deadline set by the relay had      *)
(*                                            passed on the scripted clock: the call timed out       *)
(*   Returned{...} | Hung{why}                                                                     *)
(* Clauses:                                                                                     *)
(*   Pipe         every delivery continues the in-order prefix of what the other side sent     *)
(*   Complete     a direction whose source ended cleanly and whose destination stayed open has  *)
(*                delivered everything when the relay returns (this is where "the reverse        *)
(*                direction keeps flowing after a half-close" is decided)                        *)
(*   ReverseFlow  the relay closes a conn only when both directions are over; half-closes a      *)
(*                conn only when the direction into it is over; writes nothing after that          *)
(*   EarlyReturn  the relay returned while a direction was still live                             *)
(*   Told         when one side is over - clean EOF, reset, failure - the other side is told        *)
(*                (half-close or close) within bounded time, so that a peer that only waits can       *)
(*                react and the relay can return (BStart.cwA/cwB: the conn can be half-closed)         *)
(*   Datagram     boundaries, contents, order of datagrams through the length-prefixed encoding   *)
(*   Flush        batched datagrams reach the tunnel                                              *)
(*   Termination  Hung after both directions finished / after the tunnel stream ended              *)
EXTENDS VLib

VARIABLES mode,   \* "none" | "bidi" | "udp"
          b,      \* TCP relay: [sent, got, wr, rdClosed, dirEnded, rcw, order]
          ud      \* UDP relay: [t, u, cut, how, ugot, tgot, usent, ended]
vars == <<l, viol, mode, b, ud>>

Ends == {"A", "B"}
Other(e) == IF e = "A" THEN "B" ELSE "A"
DirInto(e) == IF e = "B" THEN "AB" ELSE "BA"
Src(d) == IF d = "AB" THEN "A" ELSE "B"
Dst(d) == IF d = "AB" THEN "B" ELSE "A"

B0 == [sent |-> [e \in Ends |-> 0], got |-> [e \in Ends |-> 0],
       wr |-> [e \in Ends |-> "open"], rdClosed |-> [e \in Ends |-> FALSE],
       dirEnded |-> [d \in {"AB", "BA"} |-> FALSE], rcw |-> [e \in Ends |-> FALSE],
       rtmo |-> [d \in {"AB", "BA"} |-> FALSE], wtmo |-> [d \in {"AB", "BA"} |-> FALSE],
       order |-> "", obs |-> FALSE, sc |-> "",
       cw |-> [e \in Ends |-> FALSE],     \* conn e can be half-closed (a CloseWrite is reachable)
       told |-> [e \in Ends |-> FALSE]]   \* endpoint e has seen end-of-stream / its conn closed by the relay
U0 == [t |-> <<>>, u |-> <<>>, cut |-> 0, how |-> "eof", ugot |-> 0, tgot |-> 0, usent |-> 0, ended |-> FALSE, sc |-> "", lossy |-> FALSE, sock |-> "fake",
       whole |-> 0, key |-> ""]     \* whole = Whole(t, cut), key = the behaviour's input class - computed once per trace

Init == l = 1 /\ viol = {} /\ mode = "none" /\ b = B0 /\ ud = U0

\* ---- stream geometry of the length-prefixed encoding --------------------------------------
RECURSIVE EndOf(_, _)
EndOf(sizes, k) == IF k = 0 THEN 0 ELSE EndOf(sizes, k - 1) + 2 + sizes[k]
Whole(sizes, c) == Cardinality({k \in 1..Len(sizes) : EndOf(sizes, k) <= c})
\* where a cut at byte offset c falls
CutClass(sizes, c) ==
  LET k == Whole(sizes, c)  r == c - EndOf(sizes, k) IN
    IF r = 0 THEN "boundary" ELSE IF r = 1 THEN "insideLength" ELSE IF r = 2 THEN "afterLength" ELSE "insideData"
SizeClass(n) == IF n <= 2 THEN ToString(n) ELSE IF n <= 255 THEN "255" ELSE "65535"

Keep(x) == x' = x
Sb == IF b.sc = "" THEN "" ELSE ":" \o b.sc     \* scenario tag of a TCP relay trace
Step == l' = l + 1

\* ---- TCP relay ---------------------------------------------------------------------------------
TrBStart == /\ Is("BStart") /\ Step /\ mode' = "bidi"
            /\ b' = [B0 EXCEPT !.obs = (Ev.conn = "fake"), !.sc = IF Has("sc") THEN Ev.sc ELSE "",
                                !.cw = [e \in Ends |-> IF e = "A" THEN (Has("cwA") /\ Ev.cwA) ELSE (Has("cwB") /\ Ev.cwB)]]
            /\ Keep(viol) /\ Keep(ud)

TrSend == /\ Is("Send") /\ Step
          /\ b' = [b EXCEPT !.sent[Ev.e] = @ + Ev.n]
          /\ Keep(viol) /\ Keep(mode) /\ Keep(ud)

TrEpEnd == /\ Is("EpEnd") /\ Step
           /\ LET e == Ev.e  h == Ev.how IN
              b' = [b EXCEPT !.wr[e] = IF h = "error" THEN "err" ELSE IF @ = "open" THEN "shut" ELSE @,
                             !.rdClosed[e] = @ \/ h \in {"close", "error"},
                             !.order = @ \o (IF @ = "" THEN "" ELSE ",") \o e \o "=" \o h]
           /\ Keep(viol) /\ Keep(mode) /\ Keep(ud)

TrDeliver ==
  /\ Is("Deliver") /\ Step
  /\ LET e == Ev.e  d == DirInto(e)  s == Other(e)
         bad == (IF ~Ev.ok THEN {V("Pipe", d \o ":content")} ELSE {})
           \cup (IF Ev.off # b.got[e] THEN {V("Pipe", d \o ":order")} ELSE {})
           \cup (IF Ev.off + Ev.len > b.sent[s] THEN {V("Pipe", d \o ":invented")} ELSE {})
           \cup (IF b.rcw[e] THEN {V("ReverseFlow", d \o ":dataAfterRelayHalfClose")} ELSE {})
     IN /\ viol' = viol \cup bad
        /\ b' = [b EXCEPT !.got[e] = IF Ev.off = @ THEN @ + Ev.len ELSE @]
  /\ Keep(mode) /\ Keep(ud)

TrReadEnd == /\ Is("ReadEnd") /\ Step
             /\ b' = [b EXCEPT !.dirEnded[Ev.d] = TRUE]
             /\ Keep(viol) /\ Keep(mode) /\ Keep(ud)
\* A deadline the relay itself put on a conn has expired (scripted clock) and failed a Read / a Write of
\* direction d.  That alone is no violation (a relay may poll and go on); it is one when the direction is
\* then given up although its source is open / has not delivered everything (decided at Returned): time
\* alone must not end a direction that has had traffic every second.
TrReadTimeout == /\ Is("ReadTimeout") /\ Step /\ b' = [b EXCEPT !.rtmo[Ev.d] = TRUE]
                 /\ Keep(viol) /\ Keep(mode) /\ Keep(ud)
TrWriteTimeout == /\ Is("WriteTimeout") /\ Step /\ b' = [b EXCEPT !.wtmo[Ev.d] = TRUE]
                  /\ Keep(viol) /\ Keep(mode) /\ Keep(ud)
TrRelayDeadline == /\ Is("RelayDeadline") /\ Step /\ Keep(b) /\ Keep(viol) /\ Keep(mode) /\ Keep(ud)
TrWriteErr == /\ Is("WriteErr") /\ Step
              /\ b' = [b EXCEPT !.dirEnded[Ev.d] = TRUE]
              /\ Keep(viol) /\ Keep(mode) /\ Keep(ud)
TrRelayCloseWrite ==
  /\ Is("RelayCloseWrite") /\ Step
  /\ viol' = viol \cup (IF b.dirEnded[DirInto(Ev.e)] THEN {} ELSE {V("ReverseFlow", "halfCloseBeforeDirectionOver:" \o Ev.e)})
  /\ b' = [b EXCEPT !.rcw[Ev.e] = TRUE, !.told[Ev.e] = TRUE]
  /\ Keep(mode) /\ Keep(ud)
TrRelayClose ==
  /\ Is("RelayClose") /\ Step
  /\ viol' = viol \cup (IF b.dirEnded["AB"] /\ b.dirEnded["BA"] THEN {} ELSE {V("ReverseFlow", "closeBeforeBothDirectionsOver:" \o Ev.e \o ":" \o b.order \o Sb)})
  /\ b' = [b EXCEPT !.told[Ev.e] = TRUE]
  /\ Keep(mode) /\ Keep(ud)
\* (real sockets) the peer of conn e has read end-of-stream / a connection error
TrPeerEOF == /\ Is("PeerEOF") /\ Step /\ b' = [b EXCEPT !.told[Ev.e] = TRUE]
             /\ Keep(viol) /\ Keep(mode) /\ Keep(ud)

BIncomplete == {d \in {"AB", "BA"} : b.wr[Src(d)] = "shut" /\ ~b.rdClosed[Dst(d)] /\ b.got[Dst(d)] # b.sent[Src(d)]}
BLive == {d \in {"AB", "BA"} : b.wr[Src(d)] = "open" /\ ~b.rdClosed[Dst(d)]}

TrReturnedB ==
  /\ Is("Returned") /\ mode = "bidi" /\ Step
  /\ viol' = viol \cup {V("Complete", d \o ":" \o b.order \o Sb) : d \in BIncomplete}
                  \cup {V("EarlyReturn", d \o ":" \o b.order \o Sb) : d \in BLive}
                  \cup {V("ReverseFlow", "readDeadlineCutsLiveDirection:" \o d \o ":" \o b.order) : d \in {x \in BIncomplete \cup BLive : b.rtmo[x]}}
                  \cup {V("ReverseFlow", "writeDeadlineCutsLiveDirection:" \o d \o ":" \o b.order) : d \in {x \in BIncomplete \cup BLive : b.wtmo[x]}}
  /\ Keep(b) /\ Keep(mode) /\ Keep(ud)
TrHungB ==
  /\ Is("Hung") /\ mode = "bidi" /\ Step
  /\ viol' = viol \cup (IF \A e \in Ends : b.wr[e] # "open" THEN {V("Termination", "bidi:" \o b.order)} ELSE {})
                  \* endpoint s is over (for whatever cause), the bounded time has passed, and the other endpoint,
                  \* whose conn can be half-closed, has still not been told: it cannot react, the relay cannot return
                  \cup {V("Told", Other(s) \o "NeverTold:" \o b.order \o Sb) :
                          s \in {x \in Ends : b.wr[x] # "open" /\ b.wr[Other(x)] = "open" /\ b.cw[Other(x)] /\ ~b.told[Other(x)]}}
  /\ Keep(b) /\ Keep(mode) /\ Keep(ud)

\* ---- UDP relay ---------------------------------------------------------------------------------
TrUStart == /\ Is("UStart") /\ Step /\ mode' = "udp"
            /\ ud' = [U0 EXCEPT !.t = Ev.t, !.u = Ev.u, !.cut = Ev.cut, !.how = Ev.how,
                                 !.whole = Whole(Ev.t, Ev.cut), !.key = "udp:" \o Ev.how \o ":cut=" \o CutClass(Ev.t, Ev.cut),
                                 !.sc = IF Has("sc") THEN Ev.sc ELSE "", !.sock = IF Has("sock") THEN Ev.sock ELSE "fake", !.lossy = IF Has("lossy") THEN Ev.lossy ELSE FALSE]
            /\ Keep(viol) /\ Keep(b)

UKey == ud.key
Sc == IF ud.sc = "" THEN "" ELSE ":" \o ud.sc

TrUDeliver ==
  /\ Is("UDeliver") /\ Step
  /\ LET i == Ev.idx
         sz == IF i \in 1..Len(ud.t) THEN SizeClass(ud.t[i]) ELSE "none"
         bad == (IF i # ud.ugot + 1 THEN {V("Datagram", "t2u:order:size=" \o sz \o Sc)} ELSE {})
           \cup (IF i \in 1..Len(ud.t) /\ Ev.len # ud.t[i] THEN {V("Datagram", "t2u:boundary:size=" \o sz \o Sc)} ELSE {})
           \cup (IF ~Ev.ok THEN {V("Datagram", "t2u:content:size=" \o sz \o Sc)} ELSE {})
           \cup (IF i \notin 1..ud.whole THEN {V("Datagram", "t2u:invented:" \o UKey)} ELSE {})
     IN /\ viol' = viol \cup bad
        /\ ud' = [ud EXCEPT !.ugot = IF i = @ + 1 THEN i ELSE @]
  /\ Keep(mode) /\ Keep(b)

TrUSent == /\ Is("USent") /\ Step /\ ud' = [ud EXCEPT !.usent = Ev.idx]
           /\ Keep(viol) /\ Keep(mode) /\ Keep(b)

TrTRecord ==
  /\ Is("TRecord") /\ Step
  /\ LET i == Ev.idx
         sz == IF i \in 1..Len(ud.u) THEN SizeClass(ud.u[i]) ELSE "none"
         inOrder == IF ud.lossy THEN i > ud.tgot ELSE i = ud.tgot + 1   \* duplicates / reordering; gaps too unless lossy
         bad == (IF ~inOrder THEN {V("Datagram", "u2t:order:size=" \o sz \o Sc)} ELSE {})
           \cup (IF i \in 1..Len(ud.u) /\ Ev.len # ud.u[i] THEN {V("Datagram", "u2t:boundary:size=" \o sz \o Sc)} ELSE {})
           \cup (IF ~Ev.ok THEN {V("Datagram", "u2t:content:size=" \o sz \o Sc)} ELSE {})
           \cup (IF i \notin 1..ud.usent THEN {V("Datagram", "u2t:invented" \o Sc)} ELSE {})
     IN /\ viol' = viol \cup bad
        /\ ud' = [ud EXCEPT !.tgot = IF inOrder THEN i ELSE @]
  /\ Keep(mode) /\ Keep(b)

TrTJunk == /\ Is("TJunk") /\ Step /\ viol' = viol \cup {V("Datagram", "u2t:partialRecord" \o Sc)}
           /\ Keep(ud) /\ Keep(mode) /\ Keep(b)
TrUFlushTimeout == /\ Is("UFlushTimeout") /\ Step /\ viol' = viol \cup {V("Flush", "u2t:notOnTunnelAfter2s" \o Sc)}
                   /\ Keep(ud) /\ Keep(mode) /\ Keep(b)
\* a deadline the relay put on the scripted UDP socket / tunnel conn has passed (scripted clock) and failed
\* a call: no violation by itself - what it costs (datagrams not relayed, Hung) is judged by the other clauses
TrUTimeout == /\ Is("UTimeout") /\ Step /\ Keep(viol) /\ Keep(ud) /\ Keep(mode) /\ Keep(b)
TrTunnelEnd == /\ Is("TunnelEnd") /\ Step /\ ud' = [ud EXCEPT !.ended = TRUE]
               /\ Keep(viol) /\ Keep(mode) /\ Keep(b)

TrReturnedU ==
  /\ Is("Returned") /\ mode = "udp" /\ Step
  /\ viol' = viol \cup (IF ud.how = "eof" /\ ud.ugot < ud.whole THEN {V("Complete", "t2u:" \o UKey \o (IF ud.sock = "vconn" THEN ":virtualConn" ELSE IF ud.sock = "real" THEN ":realSocket" ELSE ""))} ELSE {})
                  \cup (IF ~ud.ended THEN {V("EarlyReturn", UKey \o Sc)} ELSE {})
  /\ Keep(ud) /\ Keep(mode) /\ Keep(b)
TrHungU ==
  /\ Is("Hung") /\ mode = "udp" /\ Step
  /\ viol' = viol \cup (IF ud.ended THEN {V("Termination", UKey \o (IF Has("why") /\ Ev.why # "" THEN ":" \o Ev.why ELSE ""))} ELSE {})
  /\ Keep(ud) /\ Keep(mode) /\ Keep(b)

TrEnd == /\ Is("End") /\ EmitVerdict
         /\ Step /\ viol' = {} /\ mode' = "none" /\ b' = B0 /\ ud' = U0

Next == \/ TrPeerEOF \/ TrBStart \/ TrSend \/ TrEpEnd \/ TrDeliver \/ TrReadEnd \/ TrWriteErr \/ TrReadTimeout \/ TrWriteTimeout
        \/ TrRelayCloseWrite \/ TrRelayClose \/ TrRelayDeadline \/ TrReturnedB \/ TrHungB
        \/ TrUStart \/ TrUDeliver \/ TrUSent \/ TrTRecord \/ TrTJunk \/ TrUFlushTimeout
        \/ TrTunnelEnd \/ TrUTimeout \/ TrReturnedU \/ TrHungU
        \/ TrEnd
Spec == Init /\ [][Next]_vars
=============================================================================
