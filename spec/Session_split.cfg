\* C07 concurrency: handler / evict / update-auth of two or three read loops interleaved with
\* each other and with close, kick and the sweep (control type only).
CONSTANTS
  Conn <- Conn3
  Client <- Client2
  MaxNonce = 2
  MaxFail = 3
  MaxCtl = 0
  Faults = @@FAULTS@@
  Ops = {"Login", "Close", "Kick", "Tick"}
  Types = {"control"}
  PreAccept = TRUE
  Fixes = @@FIXES@@
  Split = TRUE
  MaxLevel = @@LEVEL@@
  Emit = "no"
INIT Init
NEXT Next
VIEW view
INVARIANTS TypeOK OnlyProven @@INV@@
CHECK_DEADLOCK FALSE
