\* tunnox-core as found, strict invariants: TLC exhibits the unauthorised attachment
\* (AttachedEntitled violated: S opens, an unentitled R joins through ExistingBridge).
\* Must fail; the check confirms that it does through TunnelOpen_show_all.cfg (cell.mut = "asFound"):
\*   tlc -config TunnelOpen_show_asis.cfg TunnelOpen.tla
CONSTANTS
  FIXES = {}
  Idents = {"none", "noneHs", "listen", "target", "stranger"}
  Creds = {"idOnly", "rightSecret", "wrongSecret", "resume", "nothing", "otherId", "otherSecret"}
  MStates = {"active", "revoked", "expired", "expiredJust", "lapsed", "inactive", "error", "suspended", "missing"}
  Shapes = {"std", "noListen", "noTarget"}
  MUT = {}
  TStates = {"none", "waiting", "served", "remote", "lateLocal", "lateRemote"}
  Orders = {"legitFirst", "reqFirst"}
  Masked = FALSE
  Emit = FALSE
INIT Init
NEXT Next
INVARIANTS TypeOK AttachedEntitled RefusedClean OnlyAttachedRead LegitWorks
CHECK_DEADLOCK FALSE
