---------------------------- MODULE Socks5Trace ----------------------------
(* C20 judge.  Every event is one concrete case driven on the real code:                        *)
(*   Hs  : target (server profile), chunk (chunking class), data (all bytes the application     *)
(*         sends before closing), and the observation: ok, cmd, host, ip, port (result handed   *)
(*         to the caller), wrote (bytes written back), consumed (bytes taken from the           *)
(*         connection; len(data) - consumed are left unread), panic, hpok (the result, when it   *)
(*         is a single "host:port" string, is one that net.SplitHostPort can take apart).        *)
(*   Udp : data (the datagram), ok, host, ip, port, payload, panic, rt (the implementation's      *)
(*         parse(build(parse(data)))).                                                            *)
(* The judge recomputes the byte-level reference (Socks5Ref) on `data` and demands what the RFC   *)
(* mandates (HsViol / UdpViol); where the RFC leaves the reaction open it demands rejection       *)
(* without result only.  `want` is the outcome class the generating model (Socks5.tla) fixed for   *)
(* the abstract case; a disagreement with the reference on the concrete bytes is a harness bug     *)
(* (Assert => the run is inconclusive), never a verdict.                                           *)
EXTENDS Socks5Ref, VLib

vars == <<l, viol>>
Init == l = 1 /\ viol = {}

Got == IF Ev.panic THEN "panic" ELSE IF Ev.ok THEN "result" ELSE "error"

TrHs ==
  /\ Is("Hs")
  /\ LET s   == Ev.data
         r   == RefHs(s, Profile(Ev.target))
         cls == HsClass(r)
         o   == [ok |-> Ev.ok, cmd |-> Ev.cmd, host |-> Ev.host, ip |-> Ev.ip, port |-> Ev.port,
                 wrote |-> Ev.wrote, consumed |-> Ev.consumed, panic |-> Ev.panic]
         d   == Ev.target \o ":" \o Ev.chunk \o ":" \o cls \o ":got=" \o Got
         form == IF r.result /\ Ev.ok /\ r.q.atyp \in {1, 4} /\ ~Ev.hpok THEN {"AddrForm"} ELSE {}
     IN /\ Assert(Ev.want = "" \/ Ev.want = cls, <<"model and reference disagree on case class", Ev.want, cls, Ev.tr>>)
        /\ viol' = viol \cup {V(cl, d) : cl \in HsViol(r, o) \cup form}
  /\ l' = l + 1

TrUdp ==
  /\ Is("Udp")
  /\ LET dg  == Ev.data
         u   == RefUdp(dg)
         cls == UdpClass(u, dg)
         o   == [ok |-> Ev.ok, host |-> Ev.host, ip |-> Ev.ip, port |-> Ev.port, payload |-> Ev.payload,
                 panic |-> Ev.panic, rt |-> Ev.rt]
         d   == "udp:" \o cls \o (IF Len(dg) < 10 THEN ":len<10" ELSE "") \o ":got=" \o Got
     IN /\ Assert(Ev.want = "" \/ Ev.want = cls, <<"model and reference disagree on case class", Ev.want, cls, Ev.tr>>)
        /\ viol' = viol \cup {V(cl, d) : cl \in UdpViol(u, dg, o)}
  /\ l' = l + 1

TrEnd == /\ Is("End") /\ EmitVerdict
         /\ l' = l + 1 /\ viol' = {}

Next == TrHs \/ TrUdp \/ TrEnd
Spec == Init /\ [][Next]_vars
=============================================================================
