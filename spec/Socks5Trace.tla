---------------------------- MODULE Socks5Trace ----------------------------
(* C20 judge.  Every event is one concrete case driven on the real code:                        *)
(*   Hs  : target (server profile), chunk (chunking class), data (all bytes the application     *)
(*         sends before closing), and the observation: ok, cmd, host, ip, port (result handed   *)
(*         to the caller), wrote (bytes written back), consumed (bytes taken from the           *)
(*         connection; len(data) - consumed are left unread), panic, hpok (the result, when it   *)
(*         is a single "host:port" string, is one that net.SplitHostPort can take apart).        *)
(*   Udp : data (the datagram), ok, host, ip, port, payload, panic, rebuilt (the implementation's  *)
(*         build(parse(data))), rt (its parse(build(parse(data)))), nip (the IP address the         *)
(*         datagram's NAME spells according to net.ParseIP, empty when it is no IP literal).         *)
(*         A re-encoded header that differs from the datagram is judged as a datagram of its own.    *)
(* Every violation detail carries the address VALUE CLASS (Socks5Ref!ValClass) of the input.         *)
(* The judge recomputes the byte-level reference (Socks5Ref) on `data` and demands what the RFC   *)
(* mandates (HsViol / UdpViol); where the RFC leaves the reaction open it demands rejection       *)
(* without result only.  `want` is the outcome class the generating model (Socks5.tla) fixed for   *)
(* the abstract case; a disagreement with the reference on the concrete bytes is a harness bug     *)
(* (Assert => the run is inconclusive), never a verdict.                                           *)
EXTENDS Socks5Ref, VLib

vars == <<l, viol>>
Init == l = 1 /\ viol = {}

Got == IF Ev.panic THEN "panic" ELSE IF Ev.ok THEN "result" ELSE "error"

TrHs ==
  /\ Is("Hs")
  /\ LET s   == Ev.data
         r   == RefHs(s, Profile(Ev.target))
         cls == HsClass(r)
         o   == [ok |-> Ev.ok, cmd |-> Ev.cmd, host |-> Ev.host, ip |-> Ev.ip, port |-> Ev.port,
                 wrote |-> Ev.wrote, consumed |-> Ev.consumed, panic |-> Ev.panic]
         val == IF r.result THEN ":val=" \o ValClass(r.q.atyp, r.q.addr) ELSE ""
         d   == Ev.target \o ":" \o Ev.chunk \o ":" \o cls \o val \o ":got=" \o Got
         \* a result handed on as one "host:port" string must be one that net.SplitHostPort takes apart again
         \* (names containing '[' or ']' have no such form and are not demanded)
         form == IF r.result /\ Ev.ok /\ Profile(Ev.target).joined /\ ~Ev.hpok
                    /\ (r.q.atyp \in {1, 4} \/ (~Contains(r.q.addr, 91) /\ ~Contains(r.q.addr, 93)))
                 THEN {"AddrForm"} ELSE {}
     IN /\ Assert(Ev.want = "" \/ Ev.want = cls, <<"model and reference disagree on case class", Ev.want, cls, Ev.tr>>)
        /\ viol' = viol \cup {V(cl, d) : cl \in HsViol(r, o) \cup form}
  /\ l' = l + 1

TrUdp ==
  /\ Is("Udp")
  /\ LET dg  == Ev.data
         u   == RefUdp(dg)
         cls == UdpClass(u, dg)
         o   == [ok |-> Ev.ok, host |-> Ev.host, ip |-> Ev.ip, port |-> Ev.port, payload |-> Ev.payload,
                 panic |-> Ev.panic, rt |-> Ev.rt, rebuilt |-> Ev.rebuilt, nip |-> Ev.nip]
         val == IF u.st = "result" THEN ":val=" \o ValClass(u.atyp, u.addr) ELSE ""
         d   == "udp:" \o cls \o val \o (IF Len(dg) < 10 THEN ":len<10" ELSE "") \o ":got=" \o Got
     IN /\ Assert(Ev.want = "" \/ Ev.want = cls, <<"model and reference disagree on case class", Ev.want, cls, Ev.tr>>)
        /\ viol' = viol \cup {V(cl, d) : cl \in UdpViol(u, dg, o)}
  /\ l' = l + 1

\* Relay: `sent` = the datagrams the application sent to the real UDPRelay's socket, back to back (in order);
\* `fwd` = every (destination, payload) the relay handed to a tunnel; `resps` = responses injected per
\* tunnel, `replies` = the datagrams the application then received.  Every datagram the reference parses
\* must have been forwarded exactly once as (its destination, its payload) and nothing else may have been;
\* UDP promises no order, none is demanded.  `dns` = the queries a datagram for port 53 was turned into when a
\* control-channel DNS handler is installed (hdl); a datagram is handed on either way exactly once.
TrRelay ==
  /\ Is("Relay")
  /\ LET S == Ev.sent
         F == Ev.fwd
         D == Ev.dns                      \* queries handed to the DNS handler (only when one is installed)
         E == Ev.resps
         G == Ev.replies
         U == [i \in DOMAIN S |-> RefUdp(S[i])]
         tun(i) == {j \in DOMAIN F : ForwardIs(U[i], S[i], F[j])}
         qry(i) == {q \in DOMAIN D : QueryOf(U[i], S[i], D[q])}
         cnt(i) == Cardinality(tun(i)) + Cardinality(qry(i))
         NI == Ev.sentnip                 \* per sent datagram: the IP its NAME spells (net.ParseIP), else empty
         pre(i) == "relay:" \o Ev.shape \o ":i=" \o ToString(i) \o ":" \o UdpClass(U[i], S[i])
                   \o (IF U[i].st = "result" THEN ":val=" \o ValClass(U[i].atyp, U[i].addr) ELSE "")
         lost == {V("UdpRelayPayload", pre(i)) : i \in {x \in DOMAIN S : U[x].st = "result" /\ ~U[x].lenient /\ cnt(x) = 0}}
         dup  == {V("UdpRelayDup", pre(i)) : i \in {x \in DOMAIN S : cnt(x) > 1}}
         srv  == {V("UdpRelayDnsServer", pre(i)) : i \in {x \in DOMAIN S : \E q \in qry(x) : ~ServerOK(U[x], Ev.vdns, D[q])}}
         spur == {V("UdpRelaySpurious", "relay:" \o Ev.shape \o ":fwd=" \o ToString(j) \o
                      (IF \E i \in DOMAIN S : DestIs(U[i], F[j]) THEN ":payload-of-no-datagram" ELSE ":destination-of-no-datagram"))
                    : j \in {y \in DOMAIN F : \A i \in DOMAIN S : ~ForwardIs(U[i], S[i], F[y])}}
              \cup {V("UdpRelaySpurious", "relay:" \o Ev.shape \o ":dns=" \o ToString(q) \o ":query-of-no-datagram")
                    : q \in {y \in DOMAIN D : \A i \in DOMAIN S : ~QueryOf(U[i], S[i], D[y])}}
         \* replies: one per injected tunnel response, one per answered DNS query, headed by the re-encoded header
         rcnt(k) == Cardinality({j \in DOMAIN G : ReplyIs(G[j], E[k])})
         dcnt(i, q) == Cardinality({j \in DOMAIN G : ReplyTo(G[j], U[i], NI[i], D[q].resp)})
         owned(j) == \/ \E k \in DOMAIN E : ReplyIs(G[j], E[k])
                     \/ \E i \in DOMAIN S : \E q \in qry(i) : ReplyTo(G[j], U[i], NI[i], D[q].resp)
         rep  == {V("UdpRelayReply", "relay:" \o Ev.shape \o ":resp=" \o ToString(k) \o ":matching-replies=" \o ToString(rcnt(k)))
                    : k \in {x \in DOMAIN E : rcnt(x) # 1}}
              \cup {V("UdpRelayReply", pre(i) \o ":dns-reply:matching-replies=" \o ToString(dcnt(i, q)))
                    : <<i, q>> \in {y \in (DOMAIN S) \X (DOMAIN D) : y[2] \in qry(y[1]) /\ dcnt(y[1], y[2]) # 1}}
              \cup {V("UdpRelayReply", "relay:" \o Ev.shape \o ":reply=" \o ToString(j) \o ":of-no-response")
                    : j \in {y \in DOMAIN G : ~owned(y)}}
     IN /\ Assert(\A i, k \in DOMAIN S : (i # k /\ U[i].st = "result" /\ U[k].st = "result") =>
                      Rest(S[i], U[i].pay) # Rest(S[k], U[k].pay),
                  <<"driver sent two datagrams with the same payload", Ev.tr>>)
        /\ viol' = viol \cup lost \cup dup \cup srv \cup spur \cup rep
                        \cup (IF Ev.panic THEN {V("Panic", "relay:" \o Ev.shape)} ELSE {})
  /\ l' = l + 1

TrEnd == /\ Is("End") /\ EmitVerdict
         /\ l' = l + 1 /\ viol' = {}

Next == TrHs \/ TrUdp \/ TrRelay \/ TrEnd
Spec == Init /\ [][Next]_vars
=============================================================================
