---------------------------- MODULE Socks5Trace ----------------------------
(* C20 judge.  Every event is one concrete case driven on the real code:                        *)
(*   Hs  : target (server profile), chunk (chunking class), data (all bytes the application     *)
(*         sends before closing), and the observation: ok, cmd, host, ip, port (result handed   *)
(*         to the caller), wrote (bytes written back), consumed (bytes taken from the           *)
(*         connection; len(data) - consumed are left unread), panic, hpok (the result, when it   *)
(*         is a single "host:port" string, is one that net.SplitHostPort can take apart).        *)
(*   Udp : data (the datagram), ok, host, ip, port, payload, panic, rt (the implementation's      *)
(*         parse(build(parse(data)))).                                                            *)
(* The judge recomputes the byte-level reference (Socks5Ref) on `data` and demands what the RFC   *)
(* mandates (HsViol / UdpViol); where the RFC leaves the reaction open it demands rejection       *)
(* without result only.  `want` is the outcome class the generating model (Socks5.tla) fixed for   *)
(* the abstract case; a disagreement with the reference on the concrete bytes is a harness bug     *)
(* (Assert => the run is inconclusive), never a verdict.                                           *)
EXTENDS Socks5Ref, VLib

vars == <<l, viol>>
Init == l = 1 /\ viol = {}

Got == IF Ev.panic THEN "panic" ELSE IF Ev.ok THEN "result" ELSE "error"

TrHs ==
  /\ Is("Hs")
  /\ LET s   == Ev.data
         r   == RefHs(s, Profile(Ev.target))
         cls == HsClass(r)
         o   == [ok |-> Ev.ok, cmd |-> Ev.cmd, host |-> Ev.host, ip |-> Ev.ip, port |-> Ev.port,
                 wrote |-> Ev.wrote, consumed |-> Ev.consumed, panic |-> Ev.panic]
         d   == Ev.target \o ":" \o Ev.chunk \o ":" \o cls \o ":got=" \o Got
         form == IF r.result /\ Ev.ok /\ r.q.atyp \in {1, 4} /\ ~Ev.hpok THEN {"AddrForm"} ELSE {}
     IN /\ Assert(Ev.want = "" \/ Ev.want = cls, <<"model and reference disagree on case class", Ev.want, cls, Ev.tr>>)
        /\ viol' = viol \cup {V(cl, d) : cl \in HsViol(r, o) \cup form}
  /\ l' = l + 1

TrUdp ==
  /\ Is("Udp")
  /\ LET dg  == Ev.data
         u   == RefUdp(dg)
         cls == UdpClass(u, dg)
         o   == [ok |-> Ev.ok, host |-> Ev.host, ip |-> Ev.ip, port |-> Ev.port, payload |-> Ev.payload,
                 panic |-> Ev.panic, rt |-> Ev.rt]
         d   == "udp:" \o cls \o (IF Len(dg) < 10 THEN ":len<10" ELSE "") \o ":got=" \o Got
     IN /\ Assert(Ev.want = "" \/ Ev.want = cls, <<"model and reference disagree on case class", Ev.want, cls, Ev.tr>>)
        /\ viol' = viol \cup {V(cl, d) : cl \in UdpViol(u, dg, o)}
  /\ l' = l + 1

\* Relay: `sent` = the datagrams the application sent to the real UDPRelay's socket, back to back (in order);
\* `fwd` = every (destination, payload) the relay handed to a tunnel; `resps` = responses injected per
\* tunnel, `replies` = the datagrams the application then received.  Every datagram the reference parses
\* must have been forwarded exactly once as (its destination, its payload) and nothing else may have been;
\* UDP promises no order, none is demanded.
TrRelay ==
  /\ Is("Relay")
  /\ LET S == Ev.sent
         F == Ev.fwd
         U == [i \in DOMAIN S |-> RefUdp(S[i])]
         cnt(i) == Cardinality({j \in DOMAIN F : ForwardIs(U[i], S[i], F[j])})
         pre(i) == "relay:" \o Ev.shape \o ":i=" \o ToString(i) \o ":" \o UdpClass(U[i], S[i])
         lost == {V("UdpRelayPayload", pre(i)) : i \in {x \in DOMAIN S : U[x].st = "result" /\ ~U[x].lenient /\ cnt(x) = 0}}
         dup  == {V("UdpRelayDup", pre(i)) : i \in {x \in DOMAIN S : cnt(x) > 1}}
         spur == {V("UdpRelaySpurious", "relay:" \o Ev.shape \o ":fwd=" \o ToString(j) \o
                      (IF \E i \in DOMAIN S : DestIs(U[i], F[j]) THEN ":payload-of-no-datagram" ELSE ":destination-of-no-datagram"))
                    : j \in {y \in DOMAIN F : \A i \in DOMAIN S : ~ForwardIs(U[i], S[i], F[y])}}
         E == Ev.resps
         G == Ev.replies
         rcnt(k) == Cardinality({j \in DOMAIN G : ReplyIs(G[j], E[k])})
         rep  == {V("UdpRelayReply", "relay:" \o Ev.shape \o ":resp=" \o ToString(k) \o ":matching-replies=" \o ToString(rcnt(k)))
                    : k \in {x \in DOMAIN E : rcnt(x) # 1}}
              \cup {V("UdpRelayReply", "relay:" \o Ev.shape \o ":reply=" \o ToString(j) \o ":of-no-response")
                    : j \in {y \in DOMAIN G : \A k \in DOMAIN E : ~ReplyIs(G[y], E[k])}}
     IN /\ Assert(\A i, k \in DOMAIN S : (i # k /\ U[i].st = "result" /\ U[k].st = "result") =>
                      ~(U[i].atyp = U[k].atyp /\ U[i].addr = U[k].addr /\ U[i].port = U[k].port
                        /\ Rest(S[i], U[i].pay) = Rest(S[k], U[k].pay)),
                  <<"driver sent two indistinguishable datagrams", Ev.tr>>)
        /\ viol' = viol \cup lost \cup dup \cup spur \cup rep
                        \cup (IF Ev.panic THEN {V("Panic", "relay:" \o Ev.shape)} ELSE {})
  /\ l' = l + 1

TrEnd == /\ Is("End") /\ EmitVerdict
         /\ l' = l + 1 /\ viol' = {}

Next == TrHs \/ TrUdp \/ TrRelay \/ TrEnd
Spec == Init /\ [][Next]_vars
=============================================================================
