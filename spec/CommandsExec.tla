----------------------------- MODULE CommandsExec -----------------------------
(* C11, a duplex command at the granularity of the code's own steps (Commands.tla has it as one   *)
(* step, CommandsConc.tla interleaves two of them around one storage call).  What happens between  *)
(* a packet arriving on a connection and its response, for the commands that name one mapping      *)
(* (MappingGet reads it, MappingDelete removes it):                                                 *)
(*                                                                                                *)
(*   Recv      SessionManager.handleCommandPacket -> CommandExecutor.Execute(streamPacket)          *)
(*   Lookup    executeDuplex, before anything else: a response remembered for "the same command"?   *)
(*             The code as it is remembers nothing (ReplayKey = "none").  The other values are the  *)
(*             ways a retransmission cache can be keyed; the command id is chosen by the client.     *)
(*   Ident     handler.getClientID: ControlConnection.ClientID of ctx.ConnectionID (0 = refuse)     *)
(*   Read      ConnectionCodeService.GetMapping -> storage read of the main record; it finds the    *)
(*             record, finds nothing, or FAILS (ReadFault: transient backend / cache error)         *)
(*   Check     caller = ListenClientID or TargetClientID of the record just read, else refuse       *)
(*   Effect    MappingGet: answer from the record.  MappingDelete: PortMappingRepo.DeletePortMapping *)
(*             reads the record AGAIN (a fault there sends it into cleanupOrphanedMappingFromIndexes: *)
(*             the index lists lose the mapping, the record stays), removes index entries and record *)
(*   Respond   executor.sendResponse to ctx.ConnectionID (and, with a cache, remember a success)    *)
(*                                                                                                *)
(* Two connections: vB, on which B (target client of mapping m1 = A <-> B) is authenticated, and     *)
(* c1, which is unauthenticated, or authenticated as the stranger C, or as the other party A.       *)
(* Two commands, one after the other (their interleaving is CommandsConc's subject), with command   *)
(* ids from a two-element set, so the second may carry the id of the first.                          *)
(*                                                                                                *)
(* Named deviations (constants; Commands_show_*.cfg / CommandsExec_show_*.cfg make TLC report them): *)
(*   ReplayKey = "type+id"  responses cached by (CommandType, CommandId)     -> UnauthRefused,       *)
(*               "id"       ... by CommandId alone                              OwnExecution,        *)
(*                                                                              PartyOnly violated   *)
(*               "conn+type+id" also names the connection: harmless, TLC passes it (the property     *)
(*                          does not forbid remembering; it forbids answering for somebody else)     *)
(*   OnReadFault = "open"   an unreadable record is taken for "maybe orphaned index entries" and    *)
(*                          the handler goes on to the effect without a party check -> PartyOnly     *)
(*               "refuse"   the code as it is                                                        *)
EXTENDS Naturals, Sequences, FiniteSets, TLC, Json

CONSTANTS ReplayKey, OnReadFault,
          Actors,     \* who c1 may be: subset of {"none", "C", "A"}
          MaxFaults,  \* failing storage reads per behaviour
          Emit

None    == "none"
Parties == {"A", "B"}                    \* of m1
Types   == {"MappingGet", "MappingDelete"}
Ids     == {"x", "y"}
Idle    == [pc |-> "idle"]

VARIABLES actor,   \* identity authenticated on c1 ("none": never authenticated)
          rec,     \* m1's main record is stored
          idx,     \* m1 is filed in the index lists (global / per client)
          cache,   \* remembered responses: key -> [out, ret, as]
          cur,     \* the command in progress: [pc, c, ty, id, as (identity the handler runs as), checked, resp]
          nfault, ncmd,
          log,     \* responses delivered: [c, auth, ty, out, ret, as]
          chg,     \* store changes: [c, auth, what ("record" | "index")]
          hist     \* per command [c, ty, id, faults (steps whose read failed)]
vars == <<actor, rec, idx, cache, cur, nfault, ncmd, log, chg, hist>>

Auth(c) == IF c = "vB" THEN "B" ELSE actor
Key(c, ty, id) == CASE ReplayKey = "conn+type+id" -> <<c, ty, id>>
                    [] ReplayKey = "type+id" -> <<ty, id>>
                    [] OTHER -> <<id>>
Resp(out, ret, as) == [out |-> out, ret |-> ret, as |-> as]

Init == /\ actor \in Actors /\ rec = TRUE /\ idx = TRUE /\ cache = <<>>
        /\ cur = Idle /\ nfault = 0 /\ ncmd = 0 /\ log = {} /\ chg = {} /\ hist = <<>>

Recv(c, ty, id) ==
  /\ cur.pc = "idle" /\ ncmd < 2
  /\ cur' = [pc |-> "lookup", c |-> c, ty |-> ty, id |-> id, as |-> None, checked |-> FALSE, resp |-> Resp("fail", None, None)]
  /\ ncmd' = ncmd + 1
  /\ hist' = Append(hist, [c |-> c, ty |-> ty, id |-> id, faults |-> {}])
  /\ UNCHANGED <<actor, rec, idx, cache, nfault, log, chg>>

Goto(p)      == cur' = [cur EXCEPT !.pc = p]
Refuse       == cur' = [cur EXCEPT !.pc = "respond", !.resp = Resp("fail", None, cur.as)]
Faulted(at)  == /\ nfault < MaxFaults /\ nfault' = nfault + 1
                /\ hist' = [hist EXCEPT ![Len(hist)].faults = @ \cup {at}]

Lookup ==
  /\ cur.pc = "lookup"
  /\ LET k == Key(cur.c, cur.ty, cur.id)
     IN IF ReplayKey # "none" /\ k \in DOMAIN cache
        THEN cur' = [cur EXCEPT !.pc = "respond", !.resp = cache[k]]       \* replayed: no handler runs
        ELSE Goto("ident")
  /\ UNCHANGED <<actor, rec, idx, cache, nfault, ncmd, log, chg, hist>>

Ident ==
  /\ cur.pc = "ident"
  /\ IF Auth(cur.c) = None THEN Refuse
     ELSE cur' = [cur EXCEPT !.pc = "read", !.as = Auth(cur.c)]
  /\ UNCHANGED <<actor, rec, idx, cache, nfault, ncmd, log, chg, hist>>

ReadOk ==
  /\ cur.pc = "read"
  /\ IF rec THEN Goto("check") ELSE Refuse                                  \* "mapping not found"
  /\ UNCHANGED <<actor, rec, idx, cache, nfault, ncmd, log, chg, hist>>

ReadFault ==
  /\ cur.pc = "read" /\ Faulted("check")
  /\ IF OnReadFault = "open" THEN Goto("effect") ELSE Refuse
  /\ UNCHANGED <<actor, rec, idx, cache, ncmd, log, chg>>

Check ==
  /\ cur.pc = "check"
  /\ IF cur.as \in Parties THEN cur' = [cur EXCEPT !.pc = "effect", !.checked = TRUE] ELSE Refuse   \* "mapping not accessible"
  /\ UNCHANGED <<actor, rec, idx, cache, nfault, ncmd, log, chg, hist>>

Change(what) == chg' = chg \cup {[c |-> cur.c, auth |-> Auth(cur.c), what |-> what]}

\* MappingGet answers from the record the handler read (no further storage call); only after a failed first read
\* (deviation "open") is there nothing to answer from yet and the record is read here.  MappingDelete: the repository
\* reads the record itself, again.
ReadsInEffect == cur.ty = "MappingDelete" \/ ~cur.checked
EffectOk ==
  /\ cur.pc = "effect"
  /\ IF ~rec /\ ReadsInEffect THEN /\ Refuse /\ UNCHANGED <<rec, idx, chg>>
     ELSE IF cur.ty = "MappingGet"
          THEN /\ cur' = [cur EXCEPT !.pc = "respond", !.resp = Resp("ok", "m1", cur.as)]
               /\ UNCHANGED <<rec, idx, chg>>
          ELSE /\ rec' = FALSE /\ idx' = FALSE /\ Change("record")
               /\ cur' = [cur EXCEPT !.pc = "respond", !.resp = Resp("ok", None, cur.as)]
  /\ UNCHANGED <<actor, cache, nfault, ncmd, log, hist>>

EffectFault ==
  /\ cur.pc = "effect" /\ ReadsInEffect /\ Faulted("effect")
  /\ IF cur.ty = "MappingGet" THEN /\ Refuse /\ UNCHANGED <<idx, chg>>
     ELSE /\ idx' = FALSE /\ (IF idx THEN Change("index") ELSE UNCHANGED chg)            \* orphan clean-up; answers success
          /\ cur' = [cur EXCEPT !.pc = "respond", !.resp = Resp("ok", None, cur.as)]
  /\ UNCHANGED <<actor, rec, cache, ncmd, log>>

Respond ==
  /\ cur.pc = "respond"
  /\ log' = log \cup {[c |-> cur.c, auth |-> Auth(cur.c), ty |-> cur.ty, out |-> cur.resp.out, ret |-> cur.resp.ret, as |-> cur.resp.as]}
  /\ cache' = IF ReplayKey # "none" /\ cur.resp.out = "ok"
              THEN (Key(cur.c, cur.ty, cur.id) :> cur.resp) @@ cache ELSE cache
  /\ cur' = Idle
  /\ UNCHANGED <<actor, rec, idx, nfault, ncmd, chg, hist>>

Next == \/ \E c \in {"vB", "c1"}, ty \in Types, id \in Ids : Recv(c, ty, id)
        \/ Lookup \/ Ident \/ ReadOk \/ ReadFault \/ Check \/ EffectOk \/ EffectFault \/ Respond
Spec == Init /\ [][Next]_vars

\* ------------------------------------------------------------------------------------------
\* behaviours for the driver, in the step format of Commands.tla: B's command on vB is the "Prime" step, the
\* command on c1 follows it and says whether it reuses B's command id and which reads of m1's record fail
Flt(f) == CASE f = {} -> "none" [] f = {"check"} -> "read1" [] f = {"effect"} -> "read2" [] OTHER -> "readAll"
Login  == IF actor = None THEN <<>>
          ELSE <<[op |-> "Hs", k |-> "P1", id |-> actor, resp |-> None, type |-> "control"],
                 [op |-> "Hs", k |-> "P2", id |-> actor, resp |-> "valid", type |-> "control"]>>
Done   == ncmd = 2 /\ cur.pc = "idle"
Drivable == /\ Done /\ hist[1].c = "vB" /\ hist[2].c = "c1" /\ hist[1].faults = {}
            /\ (hist[2].faults = {"effect"} => actor \in Parties)    \* only a party's command gets as far as the second read
\* what the model predicts for the command on c1 (the driver counts disagreements; the judge never sees this)
Eff(k) == [k |-> k, o |-> "m1", ps |-> Parties, id |-> actor, to |-> None]
Exp == LET r == CHOOSE x \in log : x.c = "c1"
       IN [out |-> r.out, effs |-> (IF r.ret # None THEN {Eff("ret")} ELSE {}) \cup {Eff("del") : d \in {x \in chg : x.c = "c1"}}]
EmitBeh == (Emit /\ Drivable) =>
  PrintT("BEH " \o ToJson([reg |-> "server", wv |-> "base", steps |-> Login \o
      <<[op |-> "Prime", ty |-> hist[1].ty, obj |-> "m1", by |-> "B"],
        [op |-> "Cmd", ty |-> hist[2].ty, pt |-> "cmd", claims |-> "absent", bf |-> "absent",
         cid |-> IF hist[2].id = hist[1].id THEN "reused" ELSE "fresh", flt |-> Flt(hist[2].faults), obj |-> "m1",
         hc |-> "exec:" \o (IF actor = None THEN "fresh" ELSE "control"), exp |-> Exp]>>]))

\* ------------------------------------------------------------------------------------------
\* the property
TypeOK == /\ actor \in {None, "A", "C"} /\ rec \in BOOLEAN /\ idx \in BOOLEAN /\ ncmd \in 0..2 /\ nfault \in 0..MaxFaults
          /\ (rec => idx \/ chg # {})
\* refused on unauthenticated connections
UnauthRefused == \A r \in log : r.auth = None => r.out # "ok" /\ r.ret = None
UnauthNoChange == \A d \in chg : d.auth # None
\* the answer a connection gets was produced for the identity authenticated on that connection
OwnExecution  == \A r \in log : r.out = "ok" => r.as = r.auth
\* inspected / deleted only by a party
PartyOnly     == /\ \A r \in log : r.ret # None => r.auth \in Parties
                 /\ \A d \in chg : d.auth \in Parties
=============================================================================
