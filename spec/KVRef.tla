------------------------------- MODULE KVRef -------------------------------
(* Reference semantics of property C13: "a simple sequential map with expiry, ttl 0 = never  *)
(* expires".  Pure operators only, shared by the design model/generator (KV.tla) and the      *)
(* judge (KVTrace.tla).  Keys are typed (string / list / hash / counter keys); operations on  *)
(* a key of another type are outside the statement and are never generated.                   *)
(*                                                                                            *)
(* An entry is [p, v, exp]: p = present in the map, exp = 0 never expires, otherwise the      *)
(* clock value at which it is gone.  Expired entries are kept as ghosts (p stays TRUE) so     *)
(* that the state "expired but not yet swept" - which an implementation with lazy expiry      *)
(* really has - is a distinct state of the reference and gets its own test per operation.     *)
EXTENDS Naturals, Sequences, FiniteSets, TLC

FAR == 1000
Fields == <<"f", "g">>

KeyType(k) == CASE k \in {"s1", "s2"} -> "str"
                [] k \in {"l1", "l2"} -> "list"
                [] k \in {"h1"}       -> "hash"
                [] k \in {"c1"}       -> "ctr"

EmptyOf(k) == CASE KeyType(k) = "str"  -> ""
                [] KeyType(k) = "list" -> <<>>
                [] KeyType(k) = "hash" -> <<>>
                [] KeyType(k) = "ctr"  -> 0
NoneOf(k) == [p |-> FALSE, v |-> EmptyOf(k), exp |-> 0]

E(ttl, clock) == CASE ttl = "0" -> 0 [] ttl = "S" -> clock + 1 [] ttl = "L" -> FAR
Live(e, clock) == e.p /\ (e.exp = 0 \/ clock < e.exp)
TtlClass(e, clock) == IF e.exp = 0 THEN "never" ELSE IF e.exp >= FAR THEN "L" ELSE "S"

R(t, v) == [t |-> t, v |-> v]
OKR == R("ok", "")
NF  == R("nf", "")

RemoveAll(s, x) == SelectSeq(s, LAMBDA y : y # x)
Pairs(h) == LET fs == SelectSeq(Fields, LAMBDA x : x \in DOMAIN h)
            IN [i \in 1..Len(fs) |-> <<fs[i], h[fs[i]]>>]
HSet(h, f, x) == [y \in (DOMAIN h) \cup {f} |-> IF y = f THEN x ELSE h[y]]
HDel(h, f) == [y \in (DOMAIN h) \ {f} |-> h[y]]

\* Apply(st, clock, o) = [st |-> new store, res |-> result the caller must see]
Apply(st, clock, o) ==
  LET k == o.k
      e == st[k]
      live == Live(e, clock)
      put(v, exp) == [st EXCEPT ![k] = [p |-> TRUE, v |-> v, exp |-> exp]]
      same == st
  IN CASE o.op = "Set"     -> [st |-> put(o.v, E(o.ttl, clock)), res |-> OKR]
       [] o.op = "Get"     -> [st |-> same, res |-> IF live THEN R("val", e.v) ELSE NF]
       [] o.op = "Delete"  -> [st |-> [st EXCEPT ![k] = NoneOf(k)], res |-> OKR]
       [] o.op = "Exists"  -> [st |-> same, res |-> R("bool", live)]
       [] o.op = "SetNX"   -> IF live THEN [st |-> same, res |-> R("bool", FALSE)]
                              ELSE [st |-> put(o.v, E(o.ttl, clock)), res |-> R("bool", TRUE)]
       [] o.op = "CAS"     -> LET cur == IF live THEN e.v ELSE "nil"
                              IN IF cur = o.old
                                 THEN [st |-> put(o.v, E(o.ttl, clock)), res |-> R("bool", TRUE)]
                                 ELSE [st |-> same, res |-> R("bool", FALSE)]
       [] o.op = "SetExp"  -> IF live THEN [st |-> put(e.v, E(o.ttl, clock)), res |-> OKR]
                              ELSE [st |-> same, res |-> NF]
       [] o.op = "GetExp"  -> [st |-> same, res |-> IF live THEN R("ttl", TtlClass(e, clock)) ELSE NF]
       [] o.op = "SetList" -> [st |-> put(o.vs, E(o.ttl, clock)), res |-> OKR]
       [] o.op = "GetList" -> [st |-> same, res |-> R("list", IF live THEN e.v ELSE <<>>)]
       [] o.op = "Append"  -> IF live THEN [st |-> put(Append(e.v, o.v), e.exp), res |-> OKR]
                              ELSE [st |-> put(<<o.v>>, FAR), res |-> OKR]
       [] o.op = "Remove"  -> IF live THEN [st |-> put(RemoveAll(e.v, o.v), e.exp), res |-> OKR]
                              ELSE [st |-> same, res |-> OKR]
       [] o.op = "SetHash" -> IF live THEN [st |-> put(HSet(e.v, o.f, o.v), e.exp), res |-> OKR]
                              ELSE [st |-> put(HSet(<<>>, o.f, o.v), FAR), res |-> OKR]
       [] o.op = "GetHash" -> [st |-> same, res |-> IF live /\ o.f \in DOMAIN e.v THEN R("val", e.v[o.f]) ELSE NF]
       [] o.op = "GetAllHash" -> [st |-> same, res |-> R("pairs", IF live THEN Pairs(e.v) ELSE <<>>)]
       [] o.op = "DelHash" -> IF live THEN [st |-> put(HDel(e.v, o.f), e.exp), res |-> OKR]
                              ELSE [st |-> same, res |-> OKR]
       [] o.op = "IncrBy"  -> IF live THEN [st |-> put(e.v + o.n, e.exp), res |-> R("int", e.v + o.n)]
                              ELSE [st |-> put(o.n, FAR), res |-> R("int", o.n)]
       \* the expiry sweep (CleanupExpired, explicit or from the StartCleanup ticker; a no-op on Redis, whose server
       \* expires keys itself) is not an operation of the map: it has no key, answers ok and changes nothing
       [] o.op = "Sweep"   -> [st |-> same, res |-> OKR]

\* Result comparison as far as the statement goes (DESIGN.md Appendix B):
\*  - SetExp on an absent key: error or silent no-op are both acceptable (only the state matters);
\*  - GetExp answers are compared as lifetime classes never / S / L (a non-positive duration
\*    is "never": memory answers with a negative, Redis with a zero duration);
\*  - otherwise kind and value must agree.
Same(o, exp, got) ==
  IF o.op = "SetExp" /\ exp.t = "nf" THEN got.t \in {"nf", "ok"}
  ELSE exp.t = got.t /\ (exp.t \in {"ok", "nf"} \/ exp.v = got.v)

\* op alphabets per key-type family -------------------------------------------------------
Ttls == {"0", "S", "L"}
StrOps(K, Vals) ==
     [op : {"Set", "SetNX"}, k : K, v : Vals, ttl : Ttls]
\cup [op : {"Get", "Delete", "Exists", "GetExp"}, k : K]
\cup [op : {"CAS"}, k : K, old : Vals \cup {"nil"}, v : Vals, ttl : Ttls]
\cup [op : {"SetExp"}, k : K, ttl : Ttls]
ListOps(K, Vals) ==
     [op : {"SetList"}, k : K, vs : {<<>>, <<"a">>, <<"a", "b">>, <<"a", "a">>}, ttl : Ttls]
\cup [op : {"GetList", "Delete", "Exists"}, k : K]
\cup [op : {"Append", "Remove"}, k : K, v : Vals]
HashOps(K, Vals) ==
     [op : {"SetHash"}, k : K, f : {"f", "g"}, v : Vals]
\cup [op : {"GetHash", "DelHash"}, k : K, f : {"f", "g"}]
\cup [op : {"GetAllHash", "Delete", "Exists"}, k : K]
\cup [op : {"SetExp"}, k : K, ttl : {"S"}]
CtrOps(K) ==
     [op : {"IncrBy"}, k : K, n : {1, 2}]
\cup [op : {"Delete", "Exists", "GetExp"}, k : K]
\cup [op : {"SetExp"}, k : K, ttl : Ttls]    \* a counter made persistent (ttl 0) must stay persistent under IncrBy
=============================================================================
