\* C08 as-is configuration, strict property: TLC reports a violation of FindLive
\* (manual run: tlc -config ConnState_asis.cfg ConnState.tla; change Shapes to {"ptr"} for the
\* in-memory backend, where the very first lookup after a handshake fails).
CONSTANTS
  Nodes = {"A", "B"}
  NConns = 2
  Clients = {"X"}
  TTL = 2
  MaxClock = 3
  MaxHist = 99
  Shapes = {"str"}
  CasSet = {FALSE}
  FixSets = {{}}
  Causes = {"peer"}
  KeepCreatedAt = FALSE
  UseRequestId = FALSE
  IdxRenew = "checkSet"
  RecRenew = "set"
  Lookups = FALSE
  WritingLookup = FALSE
  InFlight = FALSE
  ClientState = FALSE
  Emit = FALSE
  Only = "all"
INIT Init
NEXT Next
VIEW view
INVARIANTS TypeOK FindLive FindClosed
CHECK_DEADLOCK FALSE
