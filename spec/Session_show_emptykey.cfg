\* Documentation only (not run by the check): named deviation "verifyIgnoresDecryptError" of Session.tla -
\* VerifyResponse goes on with the empty key when the stored secret cannot be decrypted: anybody who saw the
\* challenge is authenticated as that client.  TLC: FC, Corrupt(A), P1(A), P2(A, "EmptyKey") = ok.
\* TLC reports StepsOK / OnlyProven violated; the same configuration with Faults = {} (Session_c03key.cfg) passes.
CONSTANTS
  Conn <- Conn2
  Client <- Client2
  MaxNonce = 2
  MaxFail = 3
  MaxCtl = 0
  Faults = {"verifyIgnoresDecryptError"}
  Ops = {"Msg", "Corrupt", "Rekey"}
  Types = {"control"}
  PreAccept = TRUE
  Fixes = {"oneIdentity", "atomicEvict"}
  Split = FALSE
  MaxLevel = 6
  Emit = "no"
INIT Init
NEXT Next
VIEW view
INVARIANTS TypeOK OnlyProven StepsOK ProvenIssued C07InvMasked C07OneMasked
CHECK_DEADLOCK FALSE
