\* Documentation only (not run by the check): named deviation "reloadDropsPermanent" of Session.tla -
\* the loader skips blacklist records whose expiry date is the zero value (= never expires): after a restart a
\* permanently blacklisted address (exact or range entry) is authenticated.  TLC: Blacklist(c1, "perm"), Reload, Msg(c1, FC) = ok.
\* TLC reports StepsOK / OnlyProven violated; the same configuration with Faults = {} (Session_c03addr.cfg) passes.
CONSTANTS
  Conn <- Conn2
  Client <- Client2
  MaxNonce = 2
  MaxFail = 3
  MaxCtl = 0
  Faults = {"reloadDropsPermanent"}
  Ops = {"Msg", "Ban", "Blacklist", "Whitelist", "Reload"}
  Types = {"control"}
  PreAccept = TRUE
  Fixes = {"oneIdentity", "atomicEvict"}
  Split = FALSE
  MaxLevel = 5
  Emit = "no"
INIT Init
NEXT Next
VIEW view
INVARIANTS TypeOK OnlyProven StepsOK ProvenIssued C07InvMasked C07OneMasked
CHECK_DEADLOCK FALSE
