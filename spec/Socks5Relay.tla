----------------------------- MODULE Socks5Relay -----------------------------
(* C20, UDP-associate relay level ("parsed to destination and port WITH THE PAYLOAD LEFT INTACT"  *)
(* must still hold when datagrams arrive back to back).  Implementation-shaped model of            *)
(* client/socks5.UDPRelay:                                                                          *)
(*   readLoop   - ONE read buffer, reused for every datagram (Recv overwrites its first n octets); *)
(*                each valid datagram becomes a pending forward (destination, payload);              *)
(*   handlePacket goroutines - forward pending entries later, in any order: the first forward to a   *)
(*                new destination waits for the tunnel/session to be created (gate `open`), and that *)
(*                creation holds the session lock, so every other forward waits behind it.           *)
(* Octets are abstract: octet j of datagram i is <<i, j>>, so "which bytes were forwarded" is exact.  *)
(* Conforming code copies the datagram out of the read buffer before it starts the goroutine; the     *)
(* named deviation Alias ("payload is a sub-slice of the read buffer") reads the buffer at forward    *)
(* time and sets the ghost flag `dev` when what it reads is no longer the datagram's payload.          *)
(* Reply direction and the control-channel DNS route: a datagram for port 53 is, when a DNS query       *)
(* handler is installed, not tunnelled but handed to that handler (the resolver address is substituted  *)
(* for the virtual DNS address); every response - from a tunnel or from the handler - is wrapped in a     *)
(* UDP request header again and sent to the application, and that header must carry the destination       *)
(* the application addressed (the parsed header re-encoded).  Named deviation ReplySubst: the reply is     *)
(* headed by the address the query was sent to.                                                            *)
(* Round 5 - destinations are TEXT inside the relay: parseUDPHeader hands a host string on, the session table    *)
(* is keyed by "host:port", the virtual-DNS test compares the string, and every reply header is that string     *)
(* classified again by buildUDPHeader.  A key is [d, sp]: the destination it denotes and its spelling ("v4"     *)
(* dotted quad, "v6" IPv6 text, "nm" name).  With net.IP an IPv4-mapped IPv6 address is spelled as the dotted    *)
(* quad, so ATYP=1 a.b.c.d and ATYP=4 ::ffff:a.b.c.d are ONE key; the named deviation NetipText (net/netip         *)
(* spelling, seeded change r5m3) keeps the IPv6 text: two sessions for one destination, and ::ffff:10.0.0.1:53    *)
(* is no longer the virtual DNS address.  Reply headers are unaffected (the encoder maps both spellings to        *)
(* ATYP=1), which is why the fault is invisible end to end and is caught at the parser's round trip.              *)
(* Datagrams carry an address VALUE CLASS `cls` (Socks5Ref: V4Val / V6Val / name classes; concretised by the      *)
(* driver) and `alias`: datagram 2 names datagram 1's destination in the other IP encoding.                       *)
(* Behaviours: every sequence of K datagrams over header class (IPv4 10 / domain / IPv6 22 octets)     *)
(* x payload size class (S, L), optionally a malformed datagram in between, optionally two datagrams   *)
(* for the same destination, x the number r of datagrams received before the first forward is let go.  *)
EXTENDS Naturals, Sequences, FiniteSets, TLC, Json

CONSTANTS Emit, MaxK, Alias, ReplySubst,
          NetipText,    \* DEVIATION: the parser spells IP addresses with net/netip (FALSE on a conforming tree)
          ValClasses    \* TRUE: the address value classes and the alias pairs are enumerated

HdrLen(a) == CASE a = 1 -> 10 [] a = 3 -> 12 [] a = 4 -> 22      \* domain: representative 5+5+2
PayLen(p) == IF p = "S" THEN 2 ELSE 5
\* route: "tunnel" any port but 53; "dns" port 53 at an ordinary address; "vdns" port 53 at the virtual DNS address
Dg == [atyp : {1, 3, 4}, pay : {"S", "L"}, route : {"tunnel"}, cls : {"gen"}]
DgDns == [atyp : {1, 3, 4}, pay : {"S"}, route : {"tunnel", "dns"}, cls : {"gen"}]
         \cup {[atyp |-> 1, pay |-> "S", route |-> "vdns", cls |-> "vdns"]}
\* address value classes per ATYP (names: also the length extremes)
ClsOf(a) == CASE a = 1 -> {"zero", "bcast", "vdns", "loop"}
              [] a = 4 -> {"unspec", "loop", "mapped", "mapvdns", "compat", "linklocal", "zrun", "lead0", "full"}
              [] a = 3 -> {"num", "v4lit", "v6lit", "v6alt", "maplit", "lead0", "dot", "upper", "len1", "len255"}
IsVdns(d) == d.cls \in {"vdns", "mapvdns"}
MappedCls(d) == d.atyp = 4 /\ d.cls \in {"mapped", "mapvdns"}
Gen2 == [atyp |-> 1, pay |-> "L", route |-> "tunnel", cls |-> "gen"]
\* one datagram of every value class (tunnelled; and as a DNS query through the control channel), then a generic one
ValShapes(rt) == {<<[atyp |-> a, pay |-> "S", route |-> (IF rt = "dns" /\ k \in {"vdns", "mapvdns"} THEN "vdns" ELSE rt), cls |-> k], Gen2>>
                    : <<a, k>> \in UNION {{<<a, k>> : k \in ClsOf(a)} : a \in {1, 3, 4}}}
\* the same destination in both IP encodings, either order (tunnelled; and the virtual DNS address as a query)
AliasShapes(rt) == LET v4 == [atyp |-> 1, pay |-> "S", route |-> rt, cls |-> IF rt = "vdns" THEN "vdns" ELSE "gen"]
                       m6 == [atyp |-> 4, pay |-> "S", route |-> rt, cls |-> IF rt = "vdns" THEN "mapvdns" ELSE "mapped"]
                   IN {<<v4, m6>>, <<m6, v4>>}
Shapes == UNION {[1..k -> Dg] : k \in 2..MaxK}
DnsShapes == {s \in [1..2 -> DgDns] : \E i \in 1..2 : s[i].route # "tunnel"}
\* hdl: a DNS query handler is installed (the client always installs one; a bare relay has none)
Cases == {[dgs |-> s, bad |-> b, same |-> sm, alias |-> FALSE, r |-> r, hdl |-> FALSE] :
            s \in Shapes, b \in {"none", "frag", "short"}, sm \in BOOLEAN, r \in 1..MaxK}
    \cup {[dgs |-> s, bad |-> "none", same |-> FALSE, alias |-> FALSE, r |-> 2, hdl |-> h] : s \in DnsShapes, h \in BOOLEAN}
    \cup (IF ~ValClasses THEN {} ELSE
            {[dgs |-> s, bad |-> "none", same |-> FALSE, alias |-> FALSE, r |-> 2, hdl |-> FALSE] : s \in ValShapes("tunnel")}
       \cup {[dgs |-> s, bad |-> "none", same |-> FALSE, alias |-> FALSE, r |-> 2, hdl |-> TRUE] : s \in ValShapes("dns")}
       \cup {[dgs |-> s, bad |-> "none", same |-> FALSE, alias |-> TRUE, r |-> r, hdl |-> FALSE] : s \in AliasShapes("tunnel"), r \in 1..2}
       \cup {[dgs |-> s, bad |-> "none", same |-> FALSE, alias |-> TRUE, r |-> 2, hdl |-> TRUE] : s \in AliasShapes("vdns")})
Valid(cs) == /\ cs.r <= Len(cs.dgs)
             /\ cs.same => (Len(cs.dgs) = 2 /\ cs.dgs[1].atyp = cs.dgs[2].atyp /\ cs.bad = "none")
             /\ cs.bad # "none" => cs.r >= 2       \* the malformed one travels between datagram 1 and 2
             /\ (~cs.hdl /\ \E i \in DOMAIN cs.dgs : cs.dgs[i].route # "tunnel") => cs.dgs[1].route # "tunnel"

VARIABLES cs,       \* the case
          nrecv,    \* valid datagrams received so far
          badSeen,  \* the malformed datagram (if any) has been received and dropped
          buf,      \* the read buffer: sequence of abstract octets
          pending,  \* set of [i, off, len, copy]: forwards not yet performed
          fwd,      \* set of [i, via, dest, payload] handed on: via "tunnel" (dest = session key) or "dns" (dest = key of the server asked)
          replies,  \* set of [i, hdr]: response datagrams sent back to the application, hdr = destination named by their header
          sess,     \* session table: the keys ("host:port" texts) a tunnel exists for
          open,     \* the first tunnel has been created / the first query answered (forwards may proceed)
          dev
vars == <<cs, nrecv, badSeen, buf, pending, fwd, replies, sess, open, dev>>

K == Len(cs.dgs)
N(i) == HdrLen(cs.dgs[i].atyp) + PayLen(cs.dgs[i].pay)
Octets(i) == [j \in 1..N(i) |-> <<i, j>>]
Payload(i) == [j \in 1..PayLen(cs.dgs[i].pay) |-> <<i, HdrLen(cs.dgs[i].atyp) + j>>]
Dest(i) == IF cs.same \/ cs.alias THEN 1 ELSE i               \* the destination datagram i names (reference reading)
\* parseUDPHeader: the text handed on for datagram i = the key of its session
Spell(d) == CASE d.atyp = 1 -> "v4"
              [] d.atyp = 4 -> (IF MappedCls(d) /\ ~NetipText THEN "v4" ELSE "v6")
              [] OTHER -> "nm"
Key(i) == [d |-> Dest(i), sp |-> Spell(cs.dgs[i])]
Resolver == [d |-> 0, sp |-> "v4"]                             \* the resolver that stands behind the virtual DNS address
\* buildUDPHeader: the destination the re-encoded text names (both spellings of a mapped address -> ATYP=1: the same destination)
Enc(k) == k.d
ViaDns(i) == cs.hdl /\ cs.dgs[i].route # "tunnel"
\* handlePacket: `dstHost == VirtualDNSIP` is a comparison of TEXT - only the dotted-quad spelling is the virtual address
Intercepted(i) == IsVdns(cs.dgs[i]) /\ Key(i).sp = "v4"
Asked(i) == IF Intercepted(i) THEN Resolver ELSE Key(i)         \* where the query really goes
Overwrite(b, o) == [j \in 1..(IF Len(b) > Len(o) THEN Len(b) ELSE Len(o)) |-> IF j <= Len(o) THEN o[j] ELSE b[j]]

Init == /\ cs \in {x \in Cases : Valid(x)}
        /\ nrecv = 0 /\ badSeen = FALSE /\ buf = <<>> /\ pending = {} /\ fwd = {} /\ replies = {} /\ sess = {}
        /\ open = FALSE /\ dev = FALSE

BadDue == cs.bad # "none" /\ ~badSeen /\ nrecv = 1
\* readLoop: the malformed datagram lands in the read buffer too, and is dropped
RecvBad == /\ BadDue
           /\ buf' = Overwrite(buf, [j \in 1..(IF cs.bad = "short" THEN 6 ELSE 12) |-> <<0, j>>])
           /\ badSeen' = TRUE
           /\ UNCHANGED <<cs, nrecv, pending, fwd, replies, sess, open, dev>>
\* readLoop: next valid datagram; at most r of them before the first forward is let go
Recv == /\ nrecv < K /\ ~BadDue
        /\ (nrecv < cs.r \/ open)
        /\ LET i == nrecv + 1 IN
           /\ buf' = Overwrite(buf, Octets(i))
           /\ pending' = pending \cup {[i |-> i, off |-> HdrLen(cs.dgs[i].atyp), len |-> PayLen(cs.dgs[i].pay),
                                        copy |-> Payload(i)]}
           /\ nrecv' = i
        /\ UNCHANGED <<cs, badSeen, fwd, replies, sess, open, dev>>
\* the tunnel for the first datagram's destination is ready once r datagrams have arrived
Open == /\ ~open /\ nrecv >= cs.r /\ ~BadDue
        /\ open' = TRUE
        /\ UNCHANGED <<cs, nrecv, badSeen, buf, pending, fwd, replies, sess, dev>>
\* handlePacket: tunnel route -> session.SendPacket; DNS route -> handler.QueryDNS and, at once, the reply datagram
Forward(p) == /\ open /\ p \in pending
              /\ LET pl == IF Alias THEN [j \in 1..p.len |-> buf[p.off + j]] ELSE p.copy
                     hdr == Enc(IF ReplySubst THEN Asked(p.i) ELSE Key(p.i))
                 IN
                 /\ fwd' = fwd \cup {[i |-> p.i, via |-> IF ViaDns(p.i) THEN "dns" ELSE "tunnel",
                                       dest |-> IF ViaDns(p.i) THEN Asked(p.i) ELSE Key(p.i), payload |-> pl]}
                 /\ sess' = IF ViaDns(p.i) THEN sess ELSE sess \cup {Key(p.i)}        \* getOrCreateSession
                 /\ replies' = IF ViaDns(p.i) THEN replies \cup {[i |-> p.i, hdr |-> hdr]} ELSE replies
                 /\ dev' = (dev \/ pl # p.copy \/ (ViaDns(p.i) /\ hdr # Dest(p.i))
                                \/ (NetipText /\ MappedCls(cs.dgs[p.i]) /\ (cs.alias \/ IsVdns(cs.dgs[p.i]))))
              /\ pending' = pending \ {p}
              /\ UNCHANGED <<cs, nrecv, badSeen, buf, open>>
\* session.receiveLoop: a response arrives from the tunnel of an already forwarded datagram
TunnelReply(f) == /\ f \in fwd /\ f.via = "tunnel" /\ ~\E x \in replies : x.i = f.i
                  /\ replies' = replies \cup {[i |-> f.i, hdr |-> Enc(f.dest)]}
                  /\ UNCHANGED <<cs, nrecv, badSeen, buf, pending, fwd, sess, open, dev>>

Finished == nrecv = K /\ pending = {} /\ open /\ {x.i : x \in replies} = 1..K
BehOf == [kind |-> "relay", dgs |-> cs.dgs, bad |-> cs.bad, same |-> cs.same, alias |-> cs.alias, r |-> cs.r, hdl |-> cs.hdl]
Done == /\ Finished /\ (IF Emit THEN PrintT("BEH " \o ToJson(BehOf)) ELSE TRUE) /\ UNCHANGED vars
Next == RecvBad \/ Recv \/ Open \/ (\E p \in pending : Forward(p)) \/ (\E f \in fwd : TunnelReply(f)) \/ Done
Spec == Init /\ [][Next]_vars

\* ---- the property at this level ----------------------------------------------------------------
\* what was handed on for datagram i is the octets that followed its header, for its destination (a query for
\* the virtual DNS address goes to the resolver that stands behind it)
Intact == \A f \in fwd : f.payload = Payload(f.i) /\ (f.dest = Resolver \/ f.dest.d = Dest(f.i))
                             /\ (f.dest = Resolver => (f.via = "dns" /\ IsVdns(cs.dgs[f.i])))
\* the header of a response datagram is the re-encoded header of the datagram it answers
ReplyIntact == \A x \in replies : x.hdr = Dest(x.i)
Faithful == (Intact /\ ReplyIntact) \/ dev
\* at the end every valid datagram has been handed on exactly once, the malformed one never
Complete == Finished => /\ Cardinality(fwd) = K
                        /\ {f.i : f \in fwd} = 1..K
                        /\ Cardinality(replies) = K
\* design level (RFC 1928 fixes neither; not judged on the code): destination identity inside the relay is the key text -
\* one session per destination, and the virtual DNS address is recognised in either encoding
OneSessionPerDest == \A k1, k2 \in sess : k1.d = k2.d => k1 = k2
VdnsRecognised == \A f \in fwd : (f.via = "dns" /\ IsVdns(cs.dgs[f.i])) => f.dest = Resolver
NoDev == ~dev
TypeOK == nrecv \in 0..K /\ open \in BOOLEAN /\ Cardinality(pending) <= K /\ Cardinality(sess) <= K
=============================================================================
