----------------------------- MODULE Socks5Relay -----------------------------
(* C20, UDP-associate relay level ("parsed to destination and port WITH THE PAYLOAD LEFT INTACT"  *)
(* must still hold when datagrams arrive back to back).  Implementation-shaped model of            *)
(* client/socks5.UDPRelay:                                                                          *)
(*   readLoop   - ONE read buffer, reused for every datagram (Recv overwrites its first n octets); *)
(*                each valid datagram becomes a pending forward (destination, payload);              *)
(*   handlePacket goroutines - forward pending entries later, in any order: the first forward to a   *)
(*                new destination waits for the tunnel/session to be created (gate `open`), and that *)
(*                creation holds the session lock, so every other forward waits behind it.           *)
(* Octets are abstract: octet j of datagram i is <<i, j>>, so "which bytes were forwarded" is exact.  *)
(* Conforming code copies the datagram out of the read buffer before it starts the goroutine; the     *)
(* named deviation Alias ("payload is a sub-slice of the read buffer") reads the buffer at forward    *)
(* time and sets the ghost flag `dev` when what it reads is no longer the datagram's payload.          *)
(* Behaviours: every sequence of K datagrams over header class (IPv4 10 / domain / IPv6 22 octets)     *)
(* x payload size class (S, L), optionally a malformed datagram in between, optionally two datagrams   *)
(* for the same destination, x the number r of datagrams received before the first forward is let go.  *)
EXTENDS Naturals, Sequences, FiniteSets, TLC, Json

CONSTANTS Emit, MaxK, Alias

HdrLen(a) == CASE a = 1 -> 10 [] a = 3 -> 12 [] a = 4 -> 22      \* domain: representative 5+5+2
PayLen(p) == IF p = "S" THEN 2 ELSE 5
Dg == [atyp : {1, 3, 4}, pay : {"S", "L"}]
Shapes == UNION {[1..k -> Dg] : k \in 2..MaxK}
Cases == {[dgs |-> s, bad |-> b, same |-> sm, r |-> r] :
            s \in Shapes, b \in {"none", "frag", "short"}, sm \in BOOLEAN, r \in 1..MaxK}
Valid(cs) == /\ cs.r <= Len(cs.dgs)
             /\ cs.same => (Len(cs.dgs) = 2 /\ cs.dgs[1].atyp = cs.dgs[2].atyp /\ cs.bad = "none")
             /\ cs.bad # "none" => cs.r >= 2       \* the malformed one travels between datagram 1 and 2

VARIABLES cs,       \* the case
          nrecv,    \* valid datagrams received so far
          badSeen,  \* the malformed datagram (if any) has been received and dropped
          buf,      \* the read buffer: sequence of abstract octets
          pending,  \* set of [i, off, len, copy]: forwards not yet performed
          fwd,      \* set of [i, dest, payload] forwarded
          open,     \* the first tunnel has been created (forwards may proceed)
          dev
vars == <<cs, nrecv, badSeen, buf, pending, fwd, open, dev>>

K == Len(cs.dgs)
N(i) == HdrLen(cs.dgs[i].atyp) + PayLen(cs.dgs[i].pay)
Octets(i) == [j \in 1..N(i) |-> <<i, j>>]
Payload(i) == [j \in 1..PayLen(cs.dgs[i].pay) |-> <<i, HdrLen(cs.dgs[i].atyp) + j>>]
Dest(i) == IF cs.same THEN 1 ELSE i
Overwrite(b, o) == [j \in 1..(IF Len(b) > Len(o) THEN Len(b) ELSE Len(o)) |-> IF j <= Len(o) THEN o[j] ELSE b[j]]

Init == /\ cs \in {x \in Cases : Valid(x)}
        /\ nrecv = 0 /\ badSeen = FALSE /\ buf = <<>> /\ pending = {} /\ fwd = {} /\ open = FALSE /\ dev = FALSE

BadDue == cs.bad # "none" /\ ~badSeen /\ nrecv = 1
\* readLoop: the malformed datagram lands in the read buffer too, and is dropped
RecvBad == /\ BadDue
           /\ buf' = Overwrite(buf, [j \in 1..(IF cs.bad = "short" THEN 6 ELSE 12) |-> <<0, j>>])
           /\ badSeen' = TRUE
           /\ UNCHANGED <<cs, nrecv, pending, fwd, open, dev>>
\* readLoop: next valid datagram; at most r of them before the first forward is let go
Recv == /\ nrecv < K /\ ~BadDue
        /\ (nrecv < cs.r \/ open)
        /\ LET i == nrecv + 1 IN
           /\ buf' = Overwrite(buf, Octets(i))
           /\ pending' = pending \cup {[i |-> i, off |-> HdrLen(cs.dgs[i].atyp), len |-> PayLen(cs.dgs[i].pay),
                                        copy |-> Payload(i)]}
           /\ nrecv' = i
        /\ UNCHANGED <<cs, badSeen, fwd, open, dev>>
\* the tunnel for the first datagram's destination is ready once r datagrams have arrived
Open == /\ ~open /\ nrecv >= cs.r /\ ~BadDue
        /\ open' = TRUE
        /\ UNCHANGED <<cs, nrecv, badSeen, buf, pending, fwd, dev>>
Forward(p) == /\ open /\ p \in pending
              /\ LET pl == IF Alias THEN [j \in 1..p.len |-> buf[p.off + j]] ELSE p.copy IN
                 /\ fwd' = fwd \cup {[i |-> p.i, dest |-> Dest(p.i), payload |-> pl]}
                 /\ dev' = (dev \/ pl # p.copy)
              /\ pending' = pending \ {p}
              /\ UNCHANGED <<cs, nrecv, badSeen, buf, open>>

Finished == nrecv = K /\ pending = {} /\ open
BehOf == [kind |-> "relay", dgs |-> cs.dgs, bad |-> cs.bad, same |-> cs.same, r |-> cs.r]
Done == /\ Finished /\ (IF Emit THEN PrintT("BEH " \o ToJson(BehOf)) ELSE TRUE) /\ UNCHANGED vars
Next == RecvBad \/ Recv \/ Open \/ (\E p \in pending : Forward(p)) \/ Done
Spec == Init /\ [][Next]_vars

\* ---- the property at this level ----------------------------------------------------------------
\* what was forwarded for datagram i is (its destination, the octets that followed its header)
Intact == \A f \in fwd : f.dest = Dest(f.i) /\ f.payload = Payload(f.i)
Faithful == Intact \/ dev
\* at the end every valid datagram has been forwarded exactly once, the malformed one never
Complete == Finished => /\ Cardinality(fwd) = K
                        /\ {f.i : f \in fwd} = 1..K
NoDev == ~dev
TypeOK == nrecv \in 0..K /\ open \in BOOLEAN /\ Cardinality(pending) <= K
=============================================================================
