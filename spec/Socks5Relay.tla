----------------------------- MODULE Socks5Relay -----------------------------
(* C20, UDP-associate relay level ("parsed to destination and port WITH THE PAYLOAD LEFT INTACT"  *)
(* must still hold when datagrams arrive back to back).  Implementation-shaped model of            *)
(* client/socks5.UDPRelay:                                                                          *)
(*   readLoop   - ONE read buffer, reused for every datagram (Recv overwrites its first n octets); *)
(*                each valid datagram becomes a pending forward (destination, payload);              *)
(*   handlePacket goroutines - forward pending entries later, in any order: the first forward to a   *)
(*                new destination waits for the tunnel/session to be created (gate `open`), and that *)
(*                creation holds the session lock, so every other forward waits behind it.           *)
(* Octets are abstract: octet j of datagram i is <<i, j>>, so "which bytes were forwarded" is exact.  *)
(* Conforming code copies the datagram out of the read buffer before it starts the goroutine; the     *)
(* named deviation Alias ("payload is a sub-slice of the read buffer") reads the buffer at forward    *)
(* time and sets the ghost flag `dev` when what it reads is no longer the datagram's payload.          *)
(* Reply direction and the control-channel DNS route: a datagram for port 53 is, when a DNS query       *)
(* handler is installed, not tunnelled but handed to that handler (the resolver address is substituted  *)
(* for the virtual DNS address); every response - from a tunnel or from the handler - is wrapped in a     *)
(* UDP request header again and sent to the application, and that header must carry the destination       *)
(* the application addressed (the parsed header re-encoded).  Named deviation ReplySubst: the reply is     *)
(* headed by the address the query was sent to.                                                            *)
(* Behaviours: every sequence of K datagrams over header class (IPv4 10 / domain / IPv6 22 octets)     *)
(* x payload size class (S, L), optionally a malformed datagram in between, optionally two datagrams   *)
(* for the same destination, x the number r of datagrams received before the first forward is let go.  *)
EXTENDS Naturals, Sequences, FiniteSets, TLC, Json

CONSTANTS Emit, MaxK, Alias, ReplySubst

HdrLen(a) == CASE a = 1 -> 10 [] a = 3 -> 12 [] a = 4 -> 22      \* domain: representative 5+5+2
PayLen(p) == IF p = "S" THEN 2 ELSE 5
\* route: "tunnel" any port but 53; "dns" port 53 at an ordinary address; "vdns" port 53 at the virtual DNS address
Dg == [atyp : {1, 3, 4}, pay : {"S", "L"}, route : {"tunnel"}]
DgDns == [atyp : {1, 3, 4}, pay : {"S"}, route : {"tunnel", "dns"}] \cup {[atyp |-> 1, pay |-> "S", route |-> "vdns"]}
Shapes == UNION {[1..k -> Dg] : k \in 2..MaxK}
DnsShapes == {s \in [1..2 -> DgDns] : \E i \in 1..2 : s[i].route # "tunnel"}
\* hdl: a DNS query handler is installed (the client always installs one; a bare relay has none)
Cases == {[dgs |-> s, bad |-> b, same |-> sm, r |-> r, hdl |-> FALSE] :
            s \in Shapes, b \in {"none", "frag", "short"}, sm \in BOOLEAN, r \in 1..MaxK}
    \cup {[dgs |-> s, bad |-> "none", same |-> FALSE, r |-> 2, hdl |-> h] : s \in DnsShapes, h \in BOOLEAN}
Valid(cs) == /\ cs.r <= Len(cs.dgs)
             /\ cs.same => (Len(cs.dgs) = 2 /\ cs.dgs[1].atyp = cs.dgs[2].atyp /\ cs.bad = "none")
             /\ cs.bad # "none" => cs.r >= 2       \* the malformed one travels between datagram 1 and 2
             /\ (~cs.hdl /\ \E i \in DOMAIN cs.dgs : cs.dgs[i].route # "tunnel") => cs.dgs[1].route # "tunnel"

VARIABLES cs,       \* the case
          nrecv,    \* valid datagrams received so far
          badSeen,  \* the malformed datagram (if any) has been received and dropped
          buf,      \* the read buffer: sequence of abstract octets
          pending,  \* set of [i, off, len, copy]: forwards not yet performed
          fwd,      \* set of [i, via, dest, payload] handed on: via "tunnel" (dest = session) or "dns" (dest = server asked)
          replies,  \* set of [i, hdr]: response datagrams sent back to the application, hdr = address in their header
          open,     \* the first tunnel has been created / the first query answered (forwards may proceed)
          dev
vars == <<cs, nrecv, badSeen, buf, pending, fwd, replies, open, dev>>

K == Len(cs.dgs)
N(i) == HdrLen(cs.dgs[i].atyp) + PayLen(cs.dgs[i].pay)
Octets(i) == [j \in 1..N(i) |-> <<i, j>>]
Payload(i) == [j \in 1..PayLen(cs.dgs[i].pay) |-> <<i, HdrLen(cs.dgs[i].atyp) + j>>]
Dest(i) == IF cs.same THEN 1 ELSE i
ViaDns(i) == cs.hdl /\ cs.dgs[i].route # "tunnel"
Asked(i) == IF cs.dgs[i].route = "vdns" THEN 0 ELSE Dest(i)     \* where the query really goes (0 = the resolver behind the virtual address)
Overwrite(b, o) == [j \in 1..(IF Len(b) > Len(o) THEN Len(b) ELSE Len(o)) |-> IF j <= Len(o) THEN o[j] ELSE b[j]]

Init == /\ cs \in {x \in Cases : Valid(x)}
        /\ nrecv = 0 /\ badSeen = FALSE /\ buf = <<>> /\ pending = {} /\ fwd = {} /\ replies = {}
        /\ open = FALSE /\ dev = FALSE

BadDue == cs.bad # "none" /\ ~badSeen /\ nrecv = 1
\* readLoop: the malformed datagram lands in the read buffer too, and is dropped
RecvBad == /\ BadDue
           /\ buf' = Overwrite(buf, [j \in 1..(IF cs.bad = "short" THEN 6 ELSE 12) |-> <<0, j>>])
           /\ badSeen' = TRUE
           /\ UNCHANGED <<cs, nrecv, pending, fwd, replies, open, dev>>
\* readLoop: next valid datagram; at most r of them before the first forward is let go
Recv == /\ nrecv < K /\ ~BadDue
        /\ (nrecv < cs.r \/ open)
        /\ LET i == nrecv + 1 IN
           /\ buf' = Overwrite(buf, Octets(i))
           /\ pending' = pending \cup {[i |-> i, off |-> HdrLen(cs.dgs[i].atyp), len |-> PayLen(cs.dgs[i].pay),
                                        copy |-> Payload(i)]}
           /\ nrecv' = i
        /\ UNCHANGED <<cs, badSeen, fwd, replies, open, dev>>
\* the tunnel for the first datagram's destination is ready once r datagrams have arrived
Open == /\ ~open /\ nrecv >= cs.r /\ ~BadDue
        /\ open' = TRUE
        /\ UNCHANGED <<cs, nrecv, badSeen, buf, pending, fwd, replies, dev>>
\* handlePacket: tunnel route -> session.SendPacket; DNS route -> handler.QueryDNS and, at once, the reply datagram
Forward(p) == /\ open /\ p \in pending
              /\ LET pl == IF Alias THEN [j \in 1..p.len |-> buf[p.off + j]] ELSE p.copy
                     hdr == IF ReplySubst THEN Asked(p.i) ELSE Dest(p.i)
                 IN
                 /\ fwd' = fwd \cup {[i |-> p.i, via |-> IF ViaDns(p.i) THEN "dns" ELSE "tunnel",
                                       dest |-> IF ViaDns(p.i) THEN Asked(p.i) ELSE Dest(p.i), payload |-> pl]}
                 /\ replies' = IF ViaDns(p.i) THEN replies \cup {[i |-> p.i, hdr |-> hdr]} ELSE replies
                 /\ dev' = (dev \/ pl # p.copy \/ (ViaDns(p.i) /\ hdr # Dest(p.i)))
              /\ pending' = pending \ {p}
              /\ UNCHANGED <<cs, nrecv, badSeen, buf, open>>
\* session.receiveLoop: a response arrives from the tunnel of an already forwarded datagram
TunnelReply(f) == /\ f \in fwd /\ f.via = "tunnel" /\ ~\E x \in replies : x.i = f.i
                  /\ replies' = replies \cup {[i |-> f.i, hdr |-> f.dest]}
                  /\ UNCHANGED <<cs, nrecv, badSeen, buf, pending, fwd, open, dev>>

Finished == nrecv = K /\ pending = {} /\ open /\ {x.i : x \in replies} = 1..K
BehOf == [kind |-> "relay", dgs |-> cs.dgs, bad |-> cs.bad, same |-> cs.same, r |-> cs.r, hdl |-> cs.hdl]
Done == /\ Finished /\ (IF Emit THEN PrintT("BEH " \o ToJson(BehOf)) ELSE TRUE) /\ UNCHANGED vars
Next == RecvBad \/ Recv \/ Open \/ (\E p \in pending : Forward(p)) \/ (\E f \in fwd : TunnelReply(f)) \/ Done
Spec == Init /\ [][Next]_vars

\* ---- the property at this level ----------------------------------------------------------------
\* what was handed on for datagram i is the octets that followed its header, for its destination (a query for
\* the virtual DNS address goes to the resolver that stands behind it)
Intact == \A f \in fwd : f.payload = Payload(f.i) /\ f.dest = (IF f.via = "dns" THEN Asked(f.i) ELSE Dest(f.i))
\* the header of a response datagram is the re-encoded header of the datagram it answers
ReplyIntact == \A x \in replies : x.hdr = Dest(x.i)
Faithful == (Intact /\ ReplyIntact) \/ dev
\* at the end every valid datagram has been handed on exactly once, the malformed one never
Complete == Finished => /\ Cardinality(fwd) = K
                        /\ {f.i : f \in fwd} = 1..K
                        /\ Cardinality(replies) = K
NoDev == ~dev
TypeOK == nrecv \in 0..K /\ open \in BOOLEAN /\ Cardinality(pending) <= K
=============================================================================
