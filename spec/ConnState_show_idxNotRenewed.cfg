\* C08 documentation cfg (not run by the check): tlc -config ConnState_show_idxNotRenewed.cfg ConnState.tla
\* The heartbeat renews the record but not the client index (deviation idxNotRenewed).
\* Expected: Invariant FindLive is violated.
CONSTANTS
  Nodes = {"A", "B"}
  NConns = 2
  Clients = {"X"}
  TTL = 2
  MaxClock = 1000
  MaxHist = 99
  Shapes = {"str"}
  CasSet = {FALSE}
  FixSets = {{"ptrShape", "condIdxDelete", "hbRefresh", "successOnly"}}
  Causes = {"peer"}
  KeepCreatedAt = FALSE
  UseRequestId = FALSE
  IdxRenew = "none"
  RecRenew = "set"
  Lookups = FALSE
  WritingLookup = FALSE
  InFlight = FALSE
  ClientState = FALSE
  Emit = FALSE
  Only = "all"
INIT Init
NEXT Next
VIEW view
INVARIANTS TypeOK FindClosed FindLive
CHECK_DEADLOCK FALSE
