\* The node-id allocator as it was (heartbeat renews through SetRuntime = node-local cache while the
\* claim lives in the shared cache; memory + redis wiring): TLC finds two live nodes with one id
\* (NodeUnique violated): n1 claims slot 1 - three renew periods, n1 renewing locally each time -
\* the shared claim expires - n2 claims slot 1.
\* Not run by the check (it must fail); kept to show the counterexample:
\*   tlc -config IdGen_show_node.cfg IdGen.tla
CONSTANTS
  Mode = "node"
  Procs = {"n1", "n2"}
  HasNX = "yes"
  NCands = 1
  MaxAttempts = 1
  MaxCalls = 1
  Layouts = {"distinct"}
  NSlots = 2
  RenewTier = "local"
  Wiring = "split"
  TTLTicks = 3
  MaxTicks = 4
  Faults = {}
  MaxRenewFails = 0
  MaxConsecFails = 1
  HbGiveUp = "never"
  GiveUpAfter = 0
  RenewTTLTicks = 3
  Realloc = FALSE
  StopChan = "once"
  MaxU = 1
  ExhaustionReturnsLast = FALSE
  ReturnedIdReleased = FALSE
  WithLapse = FALSE
  Emit = FALSE
INIT Init
NEXT Next
VIEW view
INVARIANTS TypeOK NoForeign NodeUnique
CHECK_DEADLOCK FALSE
