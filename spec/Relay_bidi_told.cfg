\* (i) Bidirectional - END CAUSE x PEER BEHAVIOUR: every conn can be half-closed, the endpoints are peers that react to what
\* they are told (Reactive: a waiting endpoint closes once it sees end-of-stream, with fairness).  Whatever ends a direction
\* (clean EOF, read error, write error; either side; any point) the other side is told (BToldSafe, BTold) and one side ending
\* is enough for the relay to return (BReturnsWhenOneSideEnds).  Safety + liveness.
CONSTANTS
  MaxSend = 1
  EofWithData = TRUE
  ShapesA <- CwLocal
  ShapesB <- CwShapes
  DevDeadlineAt = "none"
  DevDeadlineHits = {"read"}
  Monitor = FALSE
  IdleMax = 2
  DevMonNoFeed = FALSE
  Reactive = TRUE
  DevNoSignalOnError = FALSE
  DevCloseWriterFallback = FALSE
  Emit = FALSE
  Classes = {1}
  BatchSize = 32
  BatchBuf = 22
  High = 100
  MaxT = 0
  MaxU = 0
  TSeqs <- TSmall
  USeqs <- USmall
  Cuts = "all"
  Chunks = {0}
  Paces = {"burst"}
  DevSpin = FALSE
  DevNoUnblock = FALSE
  DevAliasFlush = FALSE
  SockBatch = FALSE
  DevNoInnerFlush = FALSE
  SockQueue = FALSE
  DevQueueRefs = FALSE
  DevSockDeadline = FALSE
  DevDropOnClose = FALSE
SPECIFICATION BSpec
INVARIANTS BTypeOK BPipe BComplete BReverseKeepsFlowing BNoSpuriousEnd BNoSpuriousWriteEnd BNoDeadline BMonitorOnlyIdle BToldSafe
PROPERTIES BMonotone BTermination BReverseDelivered BTold BReturnsWhenOneSideEnds
CHECK_DEADLOCK FALSE
