\* variant: ActivateConnectionCode takes the one-time activation claim (SetNX conncode:claimed:<code>) before the
\* per-client mapping quota is checked, and the refusal by the quota does not give it back: a refused request changed
\* state.
\*   tlc -config Limits_show_claimbeforequota.cfg Limits.tla   (expected: Invariant RefusedClean is violated, n = 2,
\*   limit = 1, occupancy 0: Call(1), Count(1), Put(1), Index(1), Call(2) [claims the code], Count(2) [refused])
\* what it means for later requests: Limits_show_claimbeforequota_retry.cfg
CONSTANTS
  Kinds = {"mapquota"}
  NS = {2, 3, 4}
  Lims = {0, 1, 2}
  NodeCounts = {1}
  Variants = {"claimbeforequota"}
  Shape = "free"
  MaxReRel = 2
  Slacks = {1, 2}
  Listers = 1
  Retries = 1
  FixedKinds = {"conncap", "maplimit", "maplive", "codequota", "mapquota"}
  WithRelease = TRUE
  Emit = FALSE
  EmitMaxN = 4
  EmitAll = FALSE
INIT Init
NEXT Next
VIEW view
INVARIANTS TypeOK RefusedClean
CHECK_DEADLOCK FALSE
