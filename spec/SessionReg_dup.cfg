\* C07, connections that are authenticated for a client but not indexed (tunnel-type handshake, undeliverable
\* handshake response = LoginLost, login held before its registry section = LoginHold/LoginResume) next to the
\* client's indexed control connection, and every way of removing either of them (close by the peer, Disconnect
\* command, kick, eviction by the next login, heartbeat-timeout sweep in two parts), followed by further logins.
\* VIEW viewX = state graph (exhaustive check); without it and with EMIT = "canon" all canonical histories.
CONSTANTS
  Conn <- Conn3
  Client <- @@CLIENT@@
  MaxNonce = 2
  MaxFail = 3
  MaxCtl = 0
  Faults = @@FAULTS@@
  Ops = @@OPS@@
  Types = {"control", "tunnel"}
  PreAccept = TRUE
  Fixes = @@FIXES@@
  Split = FALSE
  MaxLevel = @@LEVEL@@
  Emit = @@EMIT@@
INIT InitX
NEXT NextX
@@VIEW@@
INVARIANTS TypeOKX OnlyProven C07InvX C07OneX SweepComplete
CHECK_DEADLOCK FALSE
