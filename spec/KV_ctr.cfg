CONSTANTS
  Keys = {"c1"}
  Vals = {"a", "b"}
  MaxClock = 2
  Emit = @@EMIT@@
INIT Init
NEXT Next
VIEW view
INVARIANTS TypeOK GhostsInvisible ZeroNeverExpires ReadsArePure AtomicsExact
CHECK_DEADLOCK FALSE
