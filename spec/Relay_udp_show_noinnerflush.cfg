\* (ii) UDP - SEEDED FAULT (C12/r3m1, not in the code): the flush inside the unpack loop is gone while the UDP
\* side is a real *net.UDPConn (udpBatchWriter with BatchSize slots; here BatchSize = 2).  THIS RUN MUST FAIL
\* with "Invariant UBatchFits is violated" / UCompleteAny: three datagrams in one parse pass, the third is dropped.
CONSTANTS
  MaxSend = 1
  EofWithData = TRUE
  ShapesA <- LocalShapes
  ShapesB <- AllShapes
  DevDeadlineAt = "none"
  DevDeadlineHits = {"read"}
  Monitor = FALSE
  IdleMax = 2
  DevMonNoFeed = FALSE
  Reactive = FALSE
  DevNoSignalOnError = FALSE
  DevCloseWriterFallback = FALSE
  Emit = FALSE
  Classes = {1, 2}
  BatchSize = 2
  BatchBuf = 22
  High = 100
  MaxT = 3
  MaxU = 1
  TSeqs <- TAll
  USeqs <- UNone
  Cuts = "all"
  Chunks = {0}
  Paces = {"burst"}
  DevSpin = FALSE
  DevNoUnblock = FALSE
  DevAliasFlush = FALSE
  SockBatch = TRUE
  DevNoInnerFlush = TRUE
  SockQueue = FALSE
  DevQueueRefs = FALSE
  DevSockDeadline = FALSE
  DevDropOnClose = FALSE
SPECIFICATION USpec
INVARIANTS UTypeOK UDatagrams UComplete UCompleteAny UEncoded UFlushed UMutex UBuf UBatchFits UNoSpuriousEnd
PROPERTIES UDelivMonotone UEventuallyFlushed UTermination
CHECK_DEADLOCK FALSE
