\* C09 exhaustive design check. Lifetimes are remaining ticks, so histories of any length are
\* covered; MaxReg bounds how often one tunnel id is registered.
CONSTANTS
  Nodes = @@NODES@@
  Tunnels = @@TUNNELS@@
  TTL = @@TTL@@
  MaxReg = @@MAXREG@@
  MaxClock = 1000
  MaxHist = 99
  Shapes = {"identity", "jsonString", "jsonMap"}
  Emit = FALSE
INIT Init
NEXT Next
VIEW view
INVARIANTS TypeOK LookupExact LookupGone
CHECK_DEADLOCK FALSE
