\* C09 exhaustive design check. Lifetimes are remaining ticks, so histories of any length are
\* covered; MaxReg bounds how often one tunnel id is registered.
\*   MODE = atomic | split (call-site steps)
\*   LF = FALSE (as-is: lifecycle started after the registration)  INVS = LookupGone NoDev
\*   LF = TRUE  (lifecycle started first)                          INVS = LookupExact LookupGoneOrDev
\*   as-is generally: INVS = LookupExact LookupGone NoDev LookupPure
\*   REGFIRST = TRUE (record written before the exists-check), MAXDUP >= 1:  INVS = LookupExactOrDev LookupGoneOrDev
\*   as-is with MAXDUP >= 1 also: PROPS = RefusedOpenInert (a refused open changes nothing)
\*   SKIP = TRUE (no record when the target is on the source node) / EVICT = TRUE (evicting lookups):
\*                                                                 INVS = LookupExactOrDev LookupGoneOrDev
CONSTANTS
  Nodes = @@NODES@@
  Tunnels = @@TUNNELS@@
  TTL = @@TTL@@
  MaxReg = @@MAXREG@@
  MaxClock = 1000
  MaxHist = 99
  Shapes = @@SHAPES@@
  Mode = "@@MODE@@"
  LifecycleFirst = @@LF@@
  SkipLocalTarget = @@SKIP@@
  EvictingLookup = @@EVICT@@
  HonourContext = @@HCTX@@
  RejectSeenIds = @@REJSEEN@@
  RegisterBeforeExistsCheck = @@REGFIRST@@
  MaxDup = @@MAXDUP@@
  Emit = FALSE
  Only = "all"
INIT Init
NEXT Next
VIEW view
INVARIANTS TypeOK @@INVS@@
PROPERTIES @@PROPS@@
CHECK_DEADLOCK FALSE
