\* C05: the code as it is - no release of a slice the pool did not make, every exit unlocks, every exit unregisters.
\* All histories of up to MaxFrames frames (53 classes) on up to MaxConns connections, every call on any reader thread.
CONSTANTS
  MaxFrames = @@FRAMES@@
  MaxConns = 2
  NThreads = 2
  RelSites = {}
  LeakAt = {}
  KeepAt = {}
  Answers = {"refused", "ok", "timeout"}
  Emit = FALSE
SPECIFICATION Spec
INVARIANTS TypeOK NoPanic PoolSound PoolBounded LockFree NeverBlocked NothingPending NothingAfterClose ProgressPossible
PROPERTY Termination
CHECK_DEADLOCK FALSE
