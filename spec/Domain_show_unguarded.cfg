\* C19 - deviation unguardedIndexDelete (seeded change C19-r4m1): deleteCascade deletes the domain index without checking that it
\* still names the mapping being deleted (it holds the delete claim and has re-read the record). Configuration gen:retry
\* (sequential, p1 = client c1 creates / deletes twice, p2 = client c2 claims, any ONE storage operation fails).
\* Expected: Invariant Consistent / NoIndexTheft / OneOwner is violated - Delete(1) by c1: DelGet DelLock DelGet2 DelIdx, DelRec FAILS
\* (the call reports the error; the index entry is gone, the record is still there); Create(n1) by c2 is acknowledged (mapping 2);
\* c1 RETRIES Delete(1): DelGet DelLock DelGet2 DelIdx deletes index[n1] = 2 (foreignIndexDelete): the live mapping 2 stops
\* routing and a third claim of n1 is acknowledged.
\*   tlc -config Domain_show_unguarded.cfg Domain.tla      (the same constants with Deviate = {} pass: `./check C19`)
CONSTANTS
  ProcsC1 = {"p1"}
  ProcsC2 = {"p2"}
  LookProcs = {}
  Names = {"n1"}
  MaxOps = 2
  MaxLook = 0
  Kinds = {"Create", "Delete"}
  Pre = TRUE
  Faults = 1
  Guess = FALSE
  HandlerProcs = {}
  Serial = TRUE
  MaxLegacy = 0
  Fix = TRUE
  Spell = {"plain"}
  CaseFold = TRUE
  OnlyDelete = {}
  OnlyCreate = {"p2"}
  Deviate = {"unguardedIndexDelete"}
  DelFaults = TRUE
  CreateFaults = TRUE
  ReadFaults = FALSE
  TTLRollback = TRUE
  UpdFields = {"inactive", "expired"}
  LegStatus = {"active"}
  OnlyList = {}
  Emit = FALSE
INIT Init
NEXT Next
VIEW view
INVARIANTS TypeOK OneOwner Consistent NoIndexTheft
CHECK_DEADLOCK FALSE
