\* Documentation only (not run by the check): a retransmission cache keyed by (CommandType, CommandId) - the
\* class of seeded change C11-r3m2.  TLC reports UnauthRefused (OwnExecution and PartyOnly fail as well):
\* B: MappingGet m1 id x -> ok; the unauthenticated c1: MappingGet id x -> Lookup hits, B's answer goes to c1.
CONSTANTS
  ReplayKey = "type+id"
  OnReadFault = "refuse"
  Actors = {"none", "C", "A"}
  MaxFaults = 0
  Emit = FALSE
INIT Init
NEXT Next
INVARIANTS TypeOK UnauthRefused UnauthNoChange OwnExecution PartyOnly
CHECK_DEADLOCK FALSE
