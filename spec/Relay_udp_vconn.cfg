\* (ii) UDP - the UDP side is a mapping.UDPVirtualConn (Write queues a COPY, writeLoop sends later;
\* after Close the queue is still drained: patch C12-3).  Exhaustive, datagram sequences <= 2, every cut.
CONSTANTS
  MaxSend = 1
  EofWithData = TRUE
  ShapesA <- LocalShapes
  ShapesB <- AllShapes
  DevDeadlineAt = "none"
  DevDeadlineHits = {"read"}
  Monitor = FALSE
  IdleMax = 2
  DevMonNoFeed = FALSE
  Reactive = FALSE
  DevNoSignalOnError = FALSE
  DevCloseWriterFallback = FALSE
  Emit = FALSE
  Classes = {1, 2, 3, 4}
  BatchSize = 32
  BatchBuf = 22
  High = 100
  MaxT = 2
  MaxU = 1
  TSeqs <- TAll
  USeqs <- UNone
  Cuts = "all"
  Chunks = {0}
  Paces = {"burst"}
  DevSpin = FALSE
  DevNoUnblock = FALSE
  DevAliasFlush = FALSE
  SockBatch = FALSE
  DevNoInnerFlush = FALSE
  SockQueue = TRUE
  DevQueueRefs = FALSE
  DevSockDeadline = FALSE
  DevDropOnClose = FALSE
SPECIFICATION USpec
INVARIANTS UTypeOK UDatagrams UComplete UCompleteAny UEncoded UFlushed UMutex UBuf UBatchFits UNoSpuriousEnd
PROPERTIES UDelivMonotone UEventuallyFlushed UTermination UQueueDrains
CHECK_DEADLOCK FALSE
