\* C19 - as found (before fix C19-3): adapter.CreateHTTPDomainMapping only logs a failure of the expiry update (UpdateMapping) and
\* acknowledges the create with an expires_at that was never stored. Configuration gen:opf with TTLRollback = FALSE.
\* Expected: Invariant ExpiryStored is violated - Create(n1) through the command handler: ... AddList, UpdGet / UpdSet fails,
\* the call returns "ok": the mapping never expires although its owner was told when it would.
\*   tlc -config Domain_show_unstoredexpiry.cfg Domain.tla      (the same constants with Deviate = {} pass: `./check C19`)
CONSTANTS
  ProcsC1 = {"p1"}
  ProcsC2 = {"p2"}
  LookProcs = {"lk"}
  Names = {"n1"}
  MaxOps = 2
  MaxLook = 1
  Kinds = {"Create", "Delete"}
  Pre = TRUE
  Faults = 1
  Guess = FALSE
  HandlerProcs = {"p1"}
  Serial = TRUE
  MaxLegacy = 0
  Fix = TRUE
  Spell = {"plain"}
  CaseFold = TRUE
  OnlyDelete = {}
  OnlyCreate = {}
  Deviate = {}
  DelFaults = TRUE
  CreateFaults = TRUE
  ReadFaults = FALSE
  TTLRollback = FALSE
  UpdFields = {"inactive", "expired"}
  LegStatus = {"active"}
  OnlyList = {}
  Emit = FALSE
INIT Init
NEXT Next
VIEW view
INVARIANTS TypeOK ExpiryStored
CHECK_DEADLOCK FALSE
