\* X04 demonstration, EXPECTED TO FAIL: ReqResp_show_closerace.cfg8
CONSTANTS
  Variant = "client"
  NW = 1
  NR = 1
  MaxReq = 1
  MaxMsg = 1
  MaxExp = 1
  MaxStop = 0
  MaxDrop = 0
  Kinds = {"ok"}
  Unknown = FALSE
  Cross = FALSE
  Fixed = FALSE
  Wired = TRUE
  Eager = FALSE
  Emit = FALSE
SPECIFICATION Spec
INVARIANTS TypeOK NoPanic

CHECK_DEADLOCK FALSE
