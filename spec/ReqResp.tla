------------------------------- MODULE ReqResp -------------------------------
(* X04 (extension) - implementation-shaped model of request/response matching and command         *)
(* forwarding in tunnox-core.                                                                      *)
(*                                                                                                 *)
(* (a) CODE MAPPED.  Two matchers with the same shape (a map id -> one-slot channel, one goroutine  *)
(* per pending request blocked in a select, reader goroutines that look the id up and do a          *)
(* non-blocking send), selected by the constant Variant:                                            *)
(*                                                                                                 *)
(*  Variant = "client"   internal/client/command/response_manager.go (ResponseManager),             *)
(*                       internal/client/command_sender.go (sendCommandAndWaitResponseWithContext), *)
(*                       internal/client/control_connection_read.go (readLoop: ONE reader)          *)
(*  Variant = "server"   internal/protocol/session/command_forwarder.go (CommandResponseManager,    *)
(*                       SendCommandToClient / sendCommandLocal / sendCommandCrossNode,             *)
(*                       DeliverCommandResponse), command_integration.go (handleCommandPacket: the  *)
(*                       read loops of the control connections, one reader per connection),         *)
(*                       cross_node_listener.go (handleCommand: the forwarder on the target node)   *)
(*                                                                                                 *)
(*  action        client code                                   server code                          *)
(*  Reg(p)        IsConnected, random.String(16) (fresh id),    GetControlConnectionByClientID,      *)
(*                RegisterRequest: mu section, new chan(1)      Register: mu section, new chan(1)    *)
(*  NotConn(p)    IsConnected = false (conn = "down"): error,   (no control connection: route cross)  *)
(*                nothing registered                                                                  *)
(*  Write(p)      controlStream.WritePacket ok; then the caller Stream.WritePacket ok; then Wait     *)
(*                blocks in the select of WaitForResponse...    blocks in its select                 *)
(*  WriteFail(p)  second IsConnected false / WritePacket error: (not modelled; scripted scenario     *)
(*                cleanupControlConnection (conn = down)        `gone` drives it)                    *)
(*  Take(p)       select: <-responseChan                        select: <-ch                         *)
(*  Expire(p)     select: timer (30 s) / ctx.Done: the          select: timeoutCtx.Done (timeout or  *)
(*                UnregisterRequest section (close + delete)    the caller's ctx); nothing else      *)
(*  Unreg(p)      deferred UnregisterRequest: if present        deferred Unregister: delete          *)
(*                close(ch) + delete; the call returns          (never closes); the call returns     *)
(*  Arrive(r)     readLoop got a CommandResp packet;            handleCommandPacket got a CommandResp*)
(*                HandleResponse: RLock lookup                  packet; Wired: Deliver: RLock lookup *)
(*                                                              not Wired (as found): the packet goes*)
(*                                                              to the command executor - nobody     *)
(*                                                              calls DeliverCommandResponse         *)
(*  Recheck(r)    json.Unmarshal of the body, then the second   -                                    *)
(*                RLock lookup "stillExists" (as found: only on                                      *)
(*                the good-body path; the parse-error path                                           *)
(*                sends without looking again)                                                       *)
(*  Send(r)       `select { case ch <- resp: default: }`        the same select, outside the lock,   *)
(*                OUTSIDE the lock (as found); repaired: one    on a channel nobody ever closes      *)
(*                RLock section {entry still this channel?                                           *)
(*                non-blocking send}                                                                 *)
(*  Stop          TunnoxClient.Close: ctx cancelled - every     -                                    *)
(*                blocked caller runs its Expire; a read loop                                        *)
(*                blocked in its read clears the connection                                          *)
(*                (conn = down), one in the middle of a response                                     *)
(*                leaves through ctx.Done and does not (stopped)                                     *)
(*  Drop          the server closes the control connection:     -                                    *)
(*                readLoop ends and clears it (conn = down),                                         *)
(*                callers keep waiting (timer)                                                       *)
(*  cross-node (server, Cross = TRUE): XSend(p) sendCommandCrossNode: FindClientNode, pool.Get,     *)
(*                WriteFrame(FrameTypeCommand), then ReadFrame with deadline `timeout`;             *)
(*                FwdReg(p) the target node's handleCommand: control connection found, Register;    *)
(*                FwdNoClient(p) not found: sendCommandError; the forwarder then is an ordinary     *)
(*                waiter (Write, Take, Expire = its 30 s, Unreg) whose return writes the reply       *)
(*                frame (Reply is part of Unreg); XRecv(p) ReadFrame got the reply; XExpire(p) read  *)
(*                deadline: MarkBroken - the link is closed, never pooled again, a later reply is    *)
(*                written to a dead socket.                                                          *)
(*                                                                                                 *)
(* Seams (where the driver parks a goroutine): Reg|Write = yield point cmdsender.registered /        *)
(* cmdfwd.registered, Take,Expire|Unreg = cmdsender.waited / cmdfwd.waited, Arrive|Recheck =         *)
(* respmgr.handle.found, Recheck|Send = respmgr.handle.checked (server: Arrive|Send =                *)
(* cmdresp.deliver.found).  A caller blocked in its select is not parked anywhere: a response put    *)
(* into its channel wakes it at once - generation uses Eager = TRUE (Send performs the Take of a     *)
(* blocked caller in the same step, Expire is offered only while the channel is empty); the          *)
(* exhaustive configurations use Eager = FALSE (every interleaving of Take).                         *)
(*                                                                                                 *)
(* (b) WHAT A USER RELIES ON.                                                                        *)
(*  RightWaiter  a call returns only a response that carries the id of its own request              *)
(*  AtMostOnce   a response is returned to at most one call (and a call returns once, by shape)     *)
(*  NoLoss       a well-formed response for a request whose caller is blocked with an empty channel *)
(*               is never thrown away                                                               *)
(*  NoPanic      no reader ever sends on a closed channel (client: the read loop stays alive)       *)
(*  NoLeak       when every call has returned the map is empty                                      *)
(*  BufOwned / ClosedUnreg  shape invariants of the model                                           *)
(*  Returns (liveness, WF on every caller step and on the timers): every call returns;              *)
(*  ReaderFree (liveness, WF on reader steps): a reader always gets back to its read - no response, *)
(*  late, duplicate or foreign, can block it.                                                       *)
(*  Ids are fresh per request in the model.  The client draws 16 random characters per request      *)
(*  (the judge checks that ids of simultaneously pending requests differ); on the server the id is  *)
(*  the caller's (cmd.CommandId): the contract "ids are not reused while pending" is the caller's   *)
(*  obligation there, the model and the judge are silent about callers that break it.               *)
(*  Also silent (accepted): a response that races with the expiry of its caller may be returned or  *)
(*  dropped (Go's select picks among ready cases); Deliver may report TRUE for a response it put    *)
(*  into the channel of a caller that has just given up; which connection a response came from is   *)
(*  not checked by either matcher (ids are unguessable); what a call returns after Stop / a lost    *)
(*  connection, as long as it returns.                                                              *)
(*                                                                                                 *)
(* (c) NAMED DEVIATIONS of the code as found (ghost `dev`; Fixed = FALSE / Wired = FALSE):          *)
(*  SendOnClosed  client: HandleResponse checks "still registered" under the lock and sends after   *)
(*                releasing it; the caller's UnregisterRequest (expiry, cancel, Stop, or the        *)
(*                deferred one after a first response) closes the channel in between: the read loop *)
(*                panics with "send on closed channel", is recovered by readLoop's defer and ENDS - *)
(*                every other pending request is stranded and the client reconnects.                *)
(*                ReqResp_show_closerace.cfg (late response), ReqResp_show_dup.cfg (duplicate).     *)
(*  BadBodySend   client: the parse-error path does not even look again: same panic with a wider    *)
(*                window (ReqResp_show_badresp.cfg).                                                *)
(*  Unwired       server: nothing calls DeliverCommandResponse - the response of the client to a    *)
(*                command sent with SendCommandToClient is handed to the command executor and the   *)
(*                caller (local, or the forwarder of another node) always runs into its timeout     *)
(*                (ReqResp_show_unwired.cfg).                                                       *)
(*  Repaired (patches X04-1, X04-2): Fixed = TRUE: look-up + non-blocking send in ONE read-locked    *)
(*  section that also compares the channel; Wired = TRUE: handleCommandPacket offers every          *)
(*  CommandResp to DeliverCommandResponse first.                                                    *)
EXTENDS Naturals, Sequences, FiniteSets, TLC, Json

CONSTANTS Variant,   \* "client" | "server"
          NW,        \* caller goroutines
          NR,        \* reader goroutines (client: 1 = the read loop)
          MaxReq,    \* requests per behaviour (= ids)
          MaxMsg,    \* response packets the peer(s) send
          MaxExp,    \* expiries (timer / ctx) per behaviour
          MaxStop, MaxDrop,
          Kinds,     \* subset of {"ok", "bad"}; "bad" = body that is not JSON (client only)
          Unknown,   \* TRUE: responses with an id nobody ever registered are sent too
          Cross,     \* TRUE (server): requests may take the cross-node route
          Fixed,     \* client: repaired look-up + send
          Wired,     \* server: handleCommandPacket calls DeliverCommandResponse
          Eager,     \* generation: a blocked caller takes a delivered response in the same step
          Emit       \* print one behaviour per transition

Procs   == 1..NW
Readers == 1..NR
Ids     == 1..MaxReq
Client  == Variant = "client"

VARIABLES reg,     \* id -> the map holds an entry for id
          buf,     \* id -> serial of the response sitting in the channel made for id (0 = empty)
          closed,  \* id -> that channel is closed
          sent,    \* id -> the request reached the peer
          owner,   \* id -> caller
          pc,      \* caller -> idle | xsent | reg | wait | took
          rid,     \* caller -> id of its current request
          res,     \* caller -> [r, n] what the select produced
          via,     \* caller -> local | cross
          opc,     \* caller -> none | wait      (cross: the origin node's ReadFrame)
          link,    \* caller -> none | open | broken
          rf,      \* caller -> reply frame written by the forwarder ([r, n]; r = "" none)
          rd,      \* reader -> [st : idle | found | checked, n]
          alive,   \* client: the read loop has not died
          conn,    \* client: up | down | stopped
          msgs,    \* serial -> [id, kind]
          nreq, cnt,
          rets,    \* ghost: results returned to callers [p, id, r, n]
          lost,    \* ghost: a response owed to a blocked caller was thrown away
          dev,     \* ghost: named deviations that happened
          hist
vars == <<reg, buf, closed, sent, owner, pc, rid, res, via, opc, link, rf, rd, alive, conn, msgs, nreq, cnt, rets, lost, dev, hist>>
view == <<reg, buf, closed, sent, owner, pc, rid, res, via, opc, link, rf, rd, alive, conn, msgs, nreq, cnt, rets, lost, dev>>

NoRes == [r |-> "", n |-> 0]
Rd0   == [st |-> "idle", n |-> 0]

Init == /\ reg = [i \in Ids |-> FALSE] /\ buf = [i \in Ids |-> 0] /\ closed = [i \in Ids |-> FALSE]
        /\ sent = [i \in Ids |-> FALSE] /\ owner = [i \in Ids |-> 0]
        /\ pc = [p \in Procs |-> "idle"] /\ rid = [p \in Procs |-> 0] /\ res = [p \in Procs |-> NoRes]
        /\ via = [p \in Procs |-> "local"] /\ opc = [p \in Procs |-> "none"] /\ link = [p \in Procs |-> "none"]
        /\ rf = [p \in Procs |-> NoRes]
        /\ rd = [r \in Readers |-> Rd0] /\ alive = TRUE /\ conn = "up" /\ msgs = <<>> /\ nreq = 0
        /\ cnt = [exp |-> 0, stop |-> 0, drop |-> 0]
        /\ rets = {} /\ lost = FALSE /\ dev = {} /\ hist = <<>>

\* ---- behaviour output ------------------------------------------------------------------------
Beh(h) == [variant |-> Variant, fixed |-> Fixed, wired |-> Wired, steps |-> h]
\* p = caller or reader (0 = environment), id = request (0 = unknown id), k = kind, st = where p is afterwards,
\* r/n = what a returning call returns, wk = callers that moved as a consequence [p, st, r, n], x = panic
Log(a, p, id, k, st, r, n, wk, x) ==
   /\ hist' = (IF Emit THEN Append(hist, [a |-> a, p |-> p, id |-> id, k |-> k, st |-> st, r |-> r, n |-> n, wk |-> wk, x |-> x]) ELSE hist)
   /\ (Emit => PrintT("BEH " \o ToJson(Beh(hist'))))

Ret(p, id, r, n) == rets' = rets \cup {[p |-> p, id |-> id, r |-> r, n |-> n]}

\* the unregister section of the client (close + delete); the server only deletes
UnregMap(S)   == [i \in Ids |-> IF i \in S THEN FALSE ELSE reg[i]]
UnregClose(S) == [i \in Ids |-> IF i \in S /\ reg[i] /\ Client THEN TRUE ELSE closed[i]]

\* ---- callers -----------------------------------------------------------------------------------
Reg(p) ==
  /\ pc[p] = "idle" /\ opc[p] = "none" /\ nreq < MaxReq /\ conn # "down"
  /\ LET id == nreq + 1 IN
     /\ nreq' = id
     /\ rid' = [rid EXCEPT ![p] = id] /\ owner' = [owner EXCEPT ![id] = p]
     /\ via' = [via EXCEPT ![p] = "local"]
     /\ reg' = [reg EXCEPT ![id] = TRUE]
     /\ pc' = [pc EXCEPT ![p] = "reg"] /\ res' = [res EXCEPT ![p] = NoRes]
     /\ UNCHANGED <<buf, closed, sent, opc, link, rf, rd, alive, conn, msgs, cnt, rets, lost, dev>>
     /\ Log("Reg", p, id, "", "reg", "", 0, <<>>, FALSE)

\* the read loop has seen the connection end and cleared it: the call fails before it registers anything
\* (conn = "stopped": the connection object stays in place, a call made then registers and fails at its write)
NotConn(p) ==
  /\ Client /\ pc[p] = "idle" /\ nreq < MaxReq /\ conn = "down"
  /\ nreq' = nreq + 1
  /\ Ret(p, nreq + 1, "err", 0)
  /\ UNCHANGED <<reg, buf, closed, sent, owner, pc, rid, res, via, opc, link, rf, rd, alive, conn, msgs, cnt, lost, dev>>
  /\ Log("NotConn", p, nreq + 1, "", "idle", "err", 0, <<>>, FALSE)

Write(p) ==
  /\ pc[p] = "reg" /\ conn = "up"
  /\ sent' = [sent EXCEPT ![rid[p]] = TRUE]
  /\ pc' = [pc EXCEPT ![p] = "wait"]
  /\ UNCHANGED <<reg, buf, closed, owner, rid, res, via, opc, link, rf, rd, alive, conn, msgs, nreq, cnt, rets, lost, dev>>
  /\ Log("Write", p, rid[p], "", "wait", "", 0, <<>>, FALSE)

WriteFail(p) ==
  /\ Client /\ pc[p] = "reg" /\ conn # "up"
  /\ pc' = [pc EXCEPT ![p] = "took"] /\ res' = [res EXCEPT ![p] = [r |-> "err", n |-> 0]]
  /\ conn' = "down"      \* cleanupControlConnection clears the connection object
  /\ UNCHANGED <<reg, buf, closed, sent, owner, rid, via, opc, link, rf, rd, alive, msgs, nreq, cnt, rets, lost, dev>>
  /\ Log("WriteFail", p, rid[p], "", "took", "", 0, <<>>, FALSE)

Take(p) ==
  /\ ~Eager
  /\ pc[p] = "wait" /\ buf[rid[p]] # 0
  /\ res' = [res EXCEPT ![p] = [r |-> "resp", n |-> buf[rid[p]]]]
  /\ buf' = [buf EXCEPT ![rid[p]] = 0]
  /\ pc' = [pc EXCEPT ![p] = "took"]
  /\ UNCHANGED <<reg, closed, sent, owner, rid, via, opc, link, rf, rd, alive, conn, msgs, nreq, cnt, rets, lost, dev>>
  /\ Log("Take", p, rid[p], "", "took", "", 0, <<>>, FALSE)

\* the select's other branch (timer or context); ready at any time - also when a response is in the channel
Expire(p) ==
  /\ pc[p] = "wait" /\ cnt.exp < MaxExp
  /\ Eager => buf[rid[p]] = 0
  /\ cnt' = [cnt EXCEPT !.exp = @ + 1]
  /\ res' = [res EXCEPT ![p] = [r |-> "expired", n |-> 0]]
  /\ pc' = [pc EXCEPT ![p] = "took"]
  /\ reg' = (IF Client THEN UnregMap({rid[p]}) ELSE reg)
  /\ closed' = UnregClose({rid[p]})
  /\ UNCHANGED <<buf, sent, owner, rid, via, opc, link, rf, rd, alive, conn, msgs, nreq, rets, lost, dev>>
  /\ Log("Expire", p, rid[p], "", "took", "", 0, <<>>, FALSE)

\* the deferred unregister; the call returns (cross: the forwarder writes its reply frame)
Unreg(p) ==
  /\ pc[p] = "took"
  /\ reg' = UnregMap({rid[p]}) /\ closed' = UnregClose({rid[p]})
  /\ pc' = [pc EXCEPT ![p] = "idle"]
  /\ IF via[p] = "local"
     THEN /\ Ret(p, rid[p], res[p].r, res[p].n) /\ UNCHANGED rf
     ELSE /\ rf' = [rf EXCEPT ![p] = IF link[p] = "open" THEN res[p] ELSE NoRes] /\ UNCHANGED rets
  /\ UNCHANGED <<buf, sent, owner, rid, res, via, opc, link, rd, alive, conn, msgs, nreq, cnt, lost, dev>>
  /\ Log("Unreg", p, rid[p], "", "idle", IF via[p] = "local" THEN res[p].r ELSE "", IF via[p] = "local" THEN res[p].n ELSE 0, <<>>, FALSE)

\* ---- cross-node route (server) ------------------------------------------------------------------
XSend(p) ==
  /\ ~Client /\ Cross /\ pc[p] = "idle" /\ opc[p] = "none" /\ nreq < MaxReq
  /\ LET id == nreq + 1 IN
     /\ nreq' = id /\ rid' = [rid EXCEPT ![p] = id] /\ owner' = [owner EXCEPT ![id] = p]
     /\ via' = [via EXCEPT ![p] = "cross"] /\ opc' = [opc EXCEPT ![p] = "wait"]
     /\ link' = [link EXCEPT ![p] = "open"] /\ rf' = [rf EXCEPT ![p] = NoRes]
     /\ pc' = [pc EXCEPT ![p] = "xsent"] /\ res' = [res EXCEPT ![p] = NoRes]
     /\ UNCHANGED <<reg, buf, closed, sent, rd, alive, conn, msgs, cnt, rets, lost, dev>>
     /\ Log("XSend", p, id, "", "xsent", "", 0, <<>>, FALSE)

FwdReg(p) ==
  /\ pc[p] = "xsent"
  /\ reg' = [reg EXCEPT ![rid[p]] = TRUE]
  /\ pc' = [pc EXCEPT ![p] = "reg"]
  /\ UNCHANGED <<buf, closed, sent, owner, rid, res, via, opc, link, rf, rd, alive, conn, msgs, nreq, cnt, rets, lost, dev>>
  /\ Log("FwdReg", p, rid[p], "", "reg", "", 0, <<>>, FALSE)

FwdNoClient(p) ==
  /\ pc[p] = "xsent"
  /\ pc' = [pc EXCEPT ![p] = "idle"]
  /\ rf' = [rf EXCEPT ![p] = IF link[p] = "open" THEN [r |-> "err", n |-> 0] ELSE NoRes]
  /\ UNCHANGED <<reg, buf, closed, sent, owner, rid, res, via, opc, link, rd, alive, conn, msgs, nreq, cnt, rets, lost, dev>>
  /\ Log("FwdNoClient", p, rid[p], "", "idle", "", 0, <<>>, FALSE)

XRecv(p) ==
  /\ opc[p] = "wait" /\ rf[p].r # ""
  /\ opc' = [opc EXCEPT ![p] = "none"] /\ link' = [link EXCEPT ![p] = "none"]
  /\ Ret(p, rid[p], rf[p].r, rf[p].n)
  /\ UNCHANGED <<reg, buf, closed, sent, owner, pc, rid, res, via, rf, rd, alive, conn, msgs, nreq, cnt, lost, dev>>
  /\ Log("XRecv", p, rid[p], "", "", rf[p].r, rf[p].n, <<>>, FALSE)

\* read deadline: MarkBroken, the pool closes the link instead of keeping it
XExpire(p) ==
  /\ opc[p] = "wait" /\ rf[p].r = "" /\ cnt.exp < MaxExp
  /\ cnt' = [cnt EXCEPT !.exp = @ + 1]
  /\ opc' = [opc EXCEPT ![p] = "none"] /\ link' = [link EXCEPT ![p] = "broken"]
  /\ Ret(p, rid[p], "expired", 0)
  /\ UNCHANGED <<reg, buf, closed, sent, owner, pc, rid, res, via, rf, rd, alive, conn, msgs, nreq, lost, dev>>
  /\ Log("XExpire", p, rid[p], "", "", "expired", 0, <<>>, FALSE)

\* ---- readers -----------------------------------------------------------------------------------
\* a blocked caller with an empty channel is owed the next well-formed response for its id
Owed(id) == IF id = 0 THEN FALSE ELSE (reg[id] /\ pc[owner[id]] = "wait" /\ buf[id] = 0)

Arrive(r, id, k) ==
  /\ rd[r].st = "idle" /\ Len(msgs) < MaxMsg /\ conn = "up" /\ alive
  /\ (IF id = 0 THEN TRUE ELSE sent[id])
  /\ LET n == Len(msgs) + 1 IN
     /\ msgs' = Append(msgs, [id |-> id, kind |-> k])
     /\ UNCHANGED <<reg, buf, closed, sent, owner, pc, rid, res, via, opc, link, rf, alive, conn, nreq, cnt, rets>>
     /\ IF ~Client /\ ~Wired
        THEN \* as found: the packet is executed as a command; nobody looks at the waiters
             /\ lost' = (lost \/ Owed(id)) /\ dev' = (IF Owed(id) THEN dev \cup {"Unwired"} ELSE dev)
             /\ UNCHANGED rd
             /\ Log("Arrive", r, id, k, "idle", "", n, <<>>, FALSE)
        ELSE IF (IF id = 0 THEN TRUE ELSE ~reg[id])
        THEN /\ UNCHANGED <<rd, lost, dev>>
             /\ Log("Arrive", r, id, k, "idle", "", n, <<>>, FALSE)
        ELSE /\ rd' = [rd EXCEPT ![r] = [st |-> IF Client THEN "found" ELSE "checked", n |-> n]]
             /\ UNCHANGED <<lost, dev>>
             /\ Log("Arrive", r, id, k, IF Client THEN "found" ELSE "checked", "", n, <<>>, FALSE)

\* client: the body is parsed, then (as found: good bodies only) the map is consulted again
Recheck(r) ==
  /\ Client /\ rd[r].st = "found"
  /\ LET m == msgs[rd[r].n] IN
     /\ UNCHANGED <<reg, buf, closed, sent, owner, pc, rid, res, via, opc, link, rf, alive, conn, msgs, nreq, cnt, rets, lost, dev>>
     /\ IF ~Fixed /\ m.kind = "ok" /\ ~reg[m.id]
        THEN /\ rd' = [rd EXCEPT ![r] = Rd0]
             /\ Log("Recheck", r, m.id, m.kind, "idle", "", rd[r].n, <<>>, FALSE)
        ELSE /\ rd' = [rd EXCEPT ![r].st = "checked"]
             /\ Log("Recheck", r, m.id, m.kind, "checked", "", rd[r].n, <<>>, FALSE)

Send(r) ==
  /\ rd[r].st = "checked"
  /\ LET n == rd[r].n
         m == msgs[n]
         id == m.id
         w == owner[id]
         wake == Eager /\ pc[w] = "wait" /\ rid[w] = id IN
     /\ rd' = [rd EXCEPT ![r] = Rd0]
     /\ UNCHANGED <<reg, closed, sent, owner, rid, via, opc, link, rf, conn, msgs, nreq, cnt, rets>>
     /\ IF Client /\ ~Fixed /\ closed[id]
        THEN \* send on closed channel: the read loop dies
             /\ alive' = FALSE /\ dev' = dev \cup {IF m.kind = "bad" THEN "BadBodySend" ELSE "SendOnClosed"}
             /\ UNCHANGED <<buf, pc, res, lost>>
             /\ Log("Send", r, id, m.kind, "dead", "", n, <<>>, TRUE)
        ELSE IF (Client /\ Fixed /\ ~reg[id]) \/ buf[id] # 0
        THEN \* unregistered meanwhile (repaired code looks under the lock) / channel full: dropped
             /\ UNCHANGED <<buf, pc, res, alive, lost, dev>>
             /\ Log("Send", r, id, m.kind, "idle", "", n, <<>>, FALSE)
        ELSE IF wake
        THEN /\ pc' = [pc EXCEPT ![w] = "took"] /\ res' = [res EXCEPT ![w] = [r |-> "resp", n |-> n]]
             /\ UNCHANGED <<buf, alive, lost, dev>>
             /\ Log("Send", r, id, m.kind, "idle", "", n, <<[p |-> w, st |-> "took", r |-> "resp", n |-> n]>>, FALSE)
        ELSE /\ buf' = [buf EXCEPT ![id] = n]
             /\ UNCHANGED <<pc, res, alive, lost, dev>>
             /\ Log("Send", r, id, m.kind, "idle", "", n, <<>>, FALSE)

\* ---- environment (client) ------------------------------------------------------------------------
\* TunnoxClient.Close: the context every call waits on is cancelled; every blocked caller runs its Expire
Stop ==
  /\ Client /\ conn = "up" /\ cnt.stop < MaxStop
  /\ Eager => \A p \in Procs : pc[p] = "wait" => buf[rid[p]] = 0
  /\ cnt' = [cnt EXCEPT !.stop = @ + 1]
  \* a read loop blocked in its read sees the closed socket and clears the connection (IsConnected = false from then
  \* on); one that is in the middle of a response leaves through ctx.Done and never clears it
  /\ conn' = (IF \A r \in Readers : rd[r].st = "idle" THEN "down" ELSE "stopped")
  /\ LET W == {p \in Procs : pc[p] = "wait"}
         I == {rid[p] : p \in W} IN
     /\ pc' = [p \in Procs |-> IF p \in W THEN "took" ELSE pc[p]]
     /\ res' = [p \in Procs |-> IF p \in W THEN [r |-> "expired", n |-> 0] ELSE res[p]]
     /\ reg' = UnregMap(I) /\ closed' = UnregClose(I)
     /\ UNCHANGED <<buf, sent, owner, rid, via, opc, link, rf, rd, alive, msgs, nreq, rets, lost, dev>>
     /\ Log("Stop", 0, 0, "", "", "", 0, [i \in 1..Cardinality(W) |->
              LET q == CHOOSE q \in W : Cardinality({x \in W : x < q}) = i - 1 IN [p |-> q, st |-> "took", r |-> "expired", n |-> 0]], FALSE)

\* the peer closes the control connection: the read loop ends after what it is doing, callers keep waiting
Drop ==
  /\ Client /\ conn = "up" /\ cnt.drop < MaxDrop
  /\ \A r \in Readers : rd[r].st = "idle"
  /\ cnt' = [cnt EXCEPT !.drop = @ + 1]
  /\ conn' = "down"
  /\ UNCHANGED <<reg, buf, closed, sent, owner, pc, rid, res, via, opc, link, rf, rd, alive, msgs, nreq, rets, lost, dev>>
  /\ Log("Drop", 0, 0, "", "", "", 0, <<>>, FALSE)

IdsOrUnknown == Ids \cup (IF Unknown THEN {0} ELSE {})
CallerStep(p) == Reg(p) \/ NotConn(p) \/ Write(p) \/ WriteFail(p) \/ Take(p) \/ Unreg(p)
                 \/ XSend(p) \/ FwdReg(p) \/ FwdNoClient(p) \/ XRecv(p)
TimerStep(p)  == Expire(p) \/ XExpire(p)
ReaderStep(r) == Recheck(r) \/ Send(r)
Next == \/ \E p \in Procs : CallerStep(p) \/ TimerStep(p)
        \/ \E r \in Readers : \/ ReaderStep(r)
                              \/ \E id \in IdsOrUnknown, k \in Kinds : Arrive(r, id, k)
        \/ Stop \/ Drop
Spec == Init /\ [][Next]_vars
\* fairness for the liveness properties: callers and readers keep running, timers fire
\* (the number of requests is bounded, so "Reg" being weakly fair only makes behaviours use their budget)
Fair == /\ \A p \in Procs : WF_vars(Write(p) \/ WriteFail(p) \/ Take(p) \/ Unreg(p) \/ FwdReg(p) \/ XRecv(p)) /\ WF_vars(TimerStep(p))
        /\ \A r \in Readers : WF_vars(ReaderStep(r))
LiveSpec == Spec /\ Fair

\* ---- properties ------------------------------------------------------------------------------------
TypeOK == /\ \A i \in Ids : buf[i] \in 0..MaxMsg /\ owner[i] \in 0..NW
          /\ \A p \in Procs : /\ pc[p] \in {"idle", "xsent", "reg", "wait", "took"} /\ rid[p] \in 0..MaxReq
                              /\ opc[p] \in {"none", "wait"} /\ link[p] \in {"none", "open", "broken"}
          /\ \A r \in Readers : rd[r].st \in {"idle", "found", "checked"} /\ rd[r].n \in 0..MaxMsg
          /\ conn \in {"up", "down", "stopped"} /\ nreq \in 0..MaxReq /\ Len(msgs) <= MaxMsg
\* (1) a call returns only a response carrying the id of its own request
RightWaiter == \A x \in rets : x.r = "resp" => (x.n \in 1..Len(msgs) /\ msgs[x.n].id = x.id /\ owner[x.id] = x.p)
\* (2) a response is returned at most once
AtMostOnce == \A x, y \in rets : (x.r = "resp" /\ y.r = "resp" /\ x.n = y.n) => x = y
\* (3) nothing owed is thrown away
NoLoss == ~lost
NoLossOrDev == ~lost \/ "Unwired" \in dev
\* (4) no reader ever sends on a closed channel; the client's read loop stays alive
NoPanic == alive /\ dev \cap {"SendOnClosed", "BadBodySend"} = {}
NoPanicOrDev == alive \/ dev \cap {"SendOnClosed", "BadBodySend"} # {}
\* (5) when every call has returned the map is empty
Quiet == \A p \in Procs : pc[p] = "idle" /\ opc[p] = "none"
NoLeak == Quiet => \A i \in Ids : ~reg[i]
\* shape
BufOwned == \A i \in Ids : buf[i] # 0 => msgs[buf[i]].id = i
ClosedUnreg == \A i \in Ids : closed[i] => (~reg[i] /\ Client)
NoDeviation == dev = {}
\* liveness
Returns == \A p \in Procs : (pc[p] # "idle" \/ opc[p] # "none") ~> (pc[p] = "idle" /\ opc[p] = "none")
ReaderFree == \A r \in Readers : (rd[r].st # "idle") ~> (rd[r].st = "idle")
=============================================================================
