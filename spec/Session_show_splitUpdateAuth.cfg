\* C07 named deviation "splitUpdateAuth" (the behaviour class of seeded change C07-m2): UpdateAuth = lookup under
\* the read lock, index write under the write lock; a removal of the connection in between leaves the index
\* pointing at an unregistered, closed connection.  TLC must report C07Inv violated (LookupSound).
\* The as-is model (Faults = {}) passes: Session_split.cfg.
CONSTANTS
  Conn <- Conn2
  Client <- Client1
  MaxNonce = 2
  MaxFail = 3
  MaxCtl = 0
  Faults = {"splitUpdateAuth"}
  Ops = {"Login", "Close", "Kick", "Tick"}
  Types = {"control"}
  PreAccept = TRUE
  Fixes = {"oneIdentity", "atomicEvict"}
  Split = TRUE
  MaxLevel = 12
  Emit = "no"
INIT Init
NEXT Next
VIEW view
INVARIANTS TypeOK OnlyProven C07Inv C07One
CHECK_DEADLOCK FALSE
