\* (ii) UDP - DEVIATION (neighbour of C12/r3m2 and r3m3, not in the code): an absolute read deadline on the UDP socket.
\* THIS RUN MUST FAIL with "Invariant UNoSpuriousEnd is violated": time passes, the socket reader leaves its loop although
\* the socket is open and the tunnel alive - later datagrams of the peer never reach the tunnel.
CONSTANTS
  MaxSend = 1
  EofWithData = TRUE
  ShapesA <- LocalShapes
  ShapesB <- AllShapes
  DevDeadlineAt = "none"
  DevDeadlineHits = {"read"}
  Monitor = FALSE
  IdleMax = 2
  DevMonNoFeed = FALSE
  Reactive = FALSE
  DevNoSignalOnError = FALSE
  DevCloseWriterFallback = FALSE
  Emit = FALSE
  Classes = {1, 2}
  BatchSize = 32
  BatchBuf = 22
  High = 100
  MaxT = 1
  MaxU = 1
  TSeqs <- TAll
  USeqs <- USmall
  Cuts = "all"
  Chunks = {0}
  Paces = {"burst"}
  DevSpin = FALSE
  DevNoUnblock = FALSE
  DevAliasFlush = FALSE
  SockBatch = FALSE
  DevNoInnerFlush = FALSE
  SockQueue = FALSE
  DevQueueRefs = FALSE
  DevSockDeadline = TRUE
  DevDropOnClose = FALSE
INIT UInit
NEXT UNext
INVARIANTS UTypeOK UDatagrams UComplete UEncoded UFlushed UMutex UBuf UNoSpuriousEnd
CHECK_DEADLOCK FALSE
