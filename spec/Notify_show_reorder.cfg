\* X07 demonstration, EXPECTED TO FAIL (two consecutive config pushes reach the client newest-first): the code as found (PushReorder) violates PushOrder
CONSTANTS
  Part = "push"
  Devs = {"PushReorder"}
  Emit = FALSE
  MinLen = 0
  Eager = FALSE
  NS = 1
  MaxConn = 2
  MaxSend = 0
  MaxBcast = 1
  NH = 1
  MaxNotif = 1
  MaxAdd = 1
  NG = 2
  Flags = {}
  NP = 1
  MaxPush = 2
  MaxMove = 1
  MaxChange = 1
SPECIFICATION Spec
INVARIANTS TypeOK PushOrder
CHECK_DEADLOCK FALSE
