\* ConnCode.tla - the repaired design plus "reset on failed update": when the final Update of the code record fails,
\* the rollback writes the activation's own copy of the record back as not activated. That copy was read at the start
\* of the call: a revoke that completed in between is erased, and a later activation of the revoked code succeeds.
\* EXPECTED RESULT: TLC reports "Invariant NoActivationAfterDeath is violated". With ResetOnFail = FALSE: no error.
\*   tlc -workers 8 -config ConnCode_show_reset.cfg ConnCode.tla
CONSTANTS
  Acts = {"a1", "a2"}
  HasRev = TRUE
  CanExpire = FALSE
  MaxFault = 1
  PreSet = {}
  Quota = 3
  Claim = TRUE
  CreateRb = TRUE
  Node2 = {"a2"}
  ClaimLocal = FALSE
  SameAs = {}
  Reclaim = FALSE
  ResetOnFail = TRUE
  ResetCreate = FALSE
  RelScope = "fail"
  CanTick = FALSE
  ShortClaim = FALSE
  Emit = FALSE
INIT Init
NEXT Next
VIEW view
INVARIANTS TypeOK NoActivationAfterDeath LockOK AtMostOneSuccess AtMostOneMapping SuccessWasValid FailedLeavesNone FieldsOK
CHECK_DEADLOCK FALSE
