------------------------------- MODULE KVProg -------------------------------
(* C13 concurrent part - program generator: TLC (simulation mode) draws, for NP client        *)
(* processes, scripts of NOps operations each over one key-type family.  The programs are     *)
(* run free-running on the real backend (there is no seam inside its mutex sections); the      *)
(* recorded call/return history is judged for linearizability by KVConcTrace.tla.              *)
EXTENDS KVRef, Json

CONSTANTS Keys, Vals, NP, NOps, Emit
VARIABLES prog
vars == <<prog>>

Ops == (IF \E k \in Keys : KeyType(k) = "str"  THEN {o \in StrOps({k \in Keys : KeyType(k) = "str"}, Vals) : o.op \notin {"SetExp", "GetExp"} /\ ("ttl" \in DOMAIN o => o.ttl = "0")} ELSE {})
  \cup (IF \E k \in Keys : KeyType(k) = "list" THEN {o \in ListOps({k \in Keys : KeyType(k) = "list"}, Vals) : "ttl" \in DOMAIN o => o.ttl = "0"} ELSE {})
  \cup (IF \E k \in Keys : KeyType(k) = "hash" THEN {o \in HashOps({k \in Keys : KeyType(k) = "hash"}, Vals) : o.op # "SetExp"} ELSE {})
  \cup (IF \E k \in Keys : KeyType(k) = "ctr"  THEN {o \in CtrOps({k \in Keys : KeyType(k) = "ctr"}) : o.op # "SetExp"} ELSE {})
  \cup {[op |-> "Sweep"]}     \* a client calling CleanupExpired: the identity in the reference (KVRef), whatever it is concurrent with

Init == prog = [p \in 1..NP |-> <<>>]
Full == \A p \in 1..NP : Len(prog[p]) = NOps
Next == /\ ~Full
        /\ \E p \in 1..NP, o \in Ops :
              /\ Len(prog[p]) < NOps
              /\ prog' = [prog EXCEPT ![p] = Append(@, o)]
Done == Full => (IF Emit THEN PrintT("BEH " \o ToJson(prog)) ELSE TRUE)
Spec == Init /\ [][Next]_vars
=============================================================================
