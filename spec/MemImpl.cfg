\* C13 - the memory backend as it is (or, through the placeholders, one of its named variants) refines the reference:
\* every interleaving of client sections, sweep sections, the ticker switch and clock ticks over one key-type family.
CONSTANTS
  Keys = @@KEYS@@
  Vals = {"a", "b"}
  MaxClock = 2
  OldCAS = @@OLDCAS@@
  OldSetExp = @@OLDSETEXP@@
  Procs = @@PROCS@@
  Sweepers = @@SWEEPERS@@
  Sweep = @@SWEEP@@
  Evict = "recheck"
  LazyReads = @@LAZY@@
  Emit = FALSE
INIT Init
NEXT Next
INVARIANTS TypeOK StoresAgree AnswersAgree NeverExpiringStays
PROPERTY SilentInvisible
CHECK_DEADLOCK FALSE
