CONSTANTS
  Keys = @@KEYS@@
  Vals = {"a", "b"}
  MaxClock = 2
  OldCAS = @@OLDCAS@@
  OldSetExp = @@OLDSETEXP@@
INIT Init
NEXT Next
INVARIANTS StoresAgree AnswersAgree
CHECK_DEADLOCK FALSE
