\* judge for C01 (and C05: same module, same constants)
CONSTANTS
  MaxBodyKiB = 16384
  KRead = 6
  KDispatch = 12
  SlackKiB = 1024
  RetainSlackKiB = 96
INIT Init
NEXT Next
POSTCONDITION Consumed
CHECK_DEADLOCK FALSE
