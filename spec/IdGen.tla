------------------------------- MODULE IdGen -------------------------------
(* C15 - implementation-shaped model of identifier generation over ONE shared store.          *)
(*                                                                                            *)
(* Mode = "gen"  : idgen.StorageIDGenerator[T] (internal/core/idgen/generator.go), as used    *)
(*                 directly and through idgen.IDManager.  Callers p (goroutines) belong to    *)
(*                 generator instances InstOf(p); several instances = several nodes, or       *)
(*                 several IDManagers of one process (the server builds at least three over   *)
(*                 the same storage), all over the same key prefix of the same store.         *)
(*    Generate   loop attempts < MaxAttempts { candidate := random; tryMarkAsUsed(candidate) }*)
(*    tryMarkAsUsed  store is a CASStore : SetNX(key)                        -> action NX     *)
(*                   otherwise           : g.mu.Lock(); Exists(key); Set(key); g.mu.Unlock()  *)
(*                                         (g.mu is PER INSTANCE)            -> Ex, FSet      *)
(*    Release    Delete(key)                                                 -> CallRel, Del  *)
(*   The random pick is local to the caller, so it is merged into the step that leads to it   *)
(*   (CallGen picks the first candidate, a failed NX/Ex picks the next one): field c of hist. *)
(*   MaxAttempts is 100 in the code; the model uses a small bound, the driver realises the    *)
(*   last failing attempt of the model as "this and every remaining attempt fail" (the        *)
(*   scripted random source keeps returning the same taken candidate, nothing is interleaved).*)
(*                                                                                            *)
(* Mode = "node" : node.NodeIDAllocator (internal/core/node/node_id_allocator.go) over        *)
(*                 hybrid.Storage.  Procs are nodes.                                          *)
(*    AllocateNodeID  for slot := 1..1000 { SetNXRuntime(key(slot)) }        -> CallAlloc,    *)
(*                    SetNXRuntime = SetNX on the shared cache when there is one   Claim      *)
(*    heartbeatLoop   every 30 s: SetRuntime(key) = Set on the node-LOCAL cache  -> Renew     *)
(*                    (RenewTier = "local": the code as it was;  "claim": renewal written to  *)
(*                    the tier that holds the claim = repaired code).  Wiring = "same": the   *)
(*                    local cache IS the shared store (redis mode), "split": memory + redis.  *)
(*    claim key TTL   90 s = TTLTicks renew periods                           -> Tick,         *)
(*                                                                              SlotExpire    *)
(*    Release         close(stopCh); Delete(key)                             -> CallRel, Del  *)
(*    Crash           the node stops (context cancelled): heartbeats end, key left to expire  *)
(*   Time: Tick = one renew period elapses.  A live node renews once per period (Tick is      *)
(*   enabled only when every holder has renewed since the last Tick; a fresh claim counts),   *)
(*   and a Release call does not stay between close(stopCh) and Delete for a whole period.    *)
(*   (Without the second assumption TLC finds, with three nodes: n1 stalls in Release for     *)
(*   longer than the TTL, its key expires, n2 claims the slot, n1's unconditional Delete      *)
(*   removes n2's key, n3 claims the slot too.  A 90 s stall inside one call is outside what  *)
(*   the check can drive; recorded as a limit.)                                               *)
(*                                                                                            *)
(* Store faults: at most ONE operation of kind fk (chosen in Init from Faults: "SetNX",       *)
(* "Exists", "Set", "Delete") on the shared store fails with an error (fault branch of NX, Ex,*)
(* FSet, Del, Claim; farm: "idle" -> "spent").  What the code does then: Generate logs the    *)
(* error and goes on with the next attempt (the marker is untouched), Release returns the     *)
(* error (the marker stays), AllocateNodeID goes on with the next slot.  A fault never hits   *)
(* the model's last attempt (the real loop has 98 more).                                      *)
(* A node whose allocation failed holds nothing: its Release (NRelNoop) touches no key.       *)
(* The lease (node mode, MaxTicks > 0): a claim key lives ttl[s] periods after its last write *)
(* (SetNX at Claim: TTLTicks; Set at Renew: RenewTTLTicks, the same 90 s in the code).  The     *)
(* holder's heartbeat goroutine hb[n] is started by the successful Claim ("run"), fires once a   *)
(* period and ends ONLY by Release (close(stopCh): "off", stopc[n] = "closed") or Crash          *)
(* (context cancelled: "off").  Each firing is one Set on the claim key:                         *)
(*    Renew(n)      the Set succeeds: key (re)written unconditionally, age 0, cf[n] = 0          *)
(*    RenewFail(n)  the Set fails with a transient store error: nothing written; the loop logs   *)
(*                  the error and GOES ON.  Environment bounds: att[n] < MaxRenewFails failures  *)
(*                  per node over its life, cf[n] < MaxConsecFails in a row.  With               *)
(*                  MaxConsecFails <= TTLTicks - 2 the faults themselves never let a claim run   *)
(*                  out (a renewal attempt is made while the key has a full period left):        *)
(*                  "transient".  MaxConsecFails = TTLTicks - 1 puts the deciding attempt on the *)
(*                  expiry instant (IdGen_show_outage.cfg: the limit of any lease).              *)
(* Faults of SetNX (Claim) and Delete (Release: NDelfault - Release returns the error, the key   *)
(* stays until its TTL, the heartbeat has already stopped) can happen at any time in node mode.  *)
(* Named deviations of the heartbeat life cycle (constant-selected; as-is = "never"/TTLTicks/    *)
(* Realloc FALSE), each with a *_show_* configuration under which TLC reports the duplicate:     *)
(*    HbGiveUp = "lifetime" the loop returns after GiveUpAfter failed renewals counted over its  *)
(*               whole life (rf[n], never reset by a success)        IdGen_show_hbgiveup.cfg     *)
(*    HbGiveUp = "consec"   ... after GiveUpAfter failures in a row (harmless iff GiveUpAfter    *)
(*               > MaxConsecFails)                                   IdGen_show_hbgiveup2.cfg    *)
(*    RenewTTLTicks < TTLTicks  the renewal grants a shorter lease than the claim did            *)
(*                                                                   IdGen_show_shortlease.cfg   *)
(*    Realloc    the allocator object is used again after Release.  StopChan = "once" (what the   *)
(*               code does): stopCh is made once, in the constructor, and stays closed - the new *)
(*               heartbeat returns at once, and the next Release panics in close(stopCh) before  *)
(*               it deletes anything.  StopChan = "fresh" (repair C15-2): a new channel per      *)
(*               allocation.  No call site in tunnox-core re-uses an allocator.                  *)
(*                                                                   IdGen_show_realloc.cfg      *)
(* hbLost (ghost): the heartbeat of a live holder has ended.                                     *)
(* Lapse (gen, WithLapse): a long time passes (more than any cache default TTL, far less than  *)
(* the 30 days of the markers): markers written with "no expiry" (ttl 0) or 30 days stay.      *)
(*                                                                                            *)
(* Mode = "uuid" : idgen.UUIDGenerator (connection, tunnel, mapping-instance ids): no store;  *)
(*   an id is fresh by construction (UGen hands out number |used|+1) as long as the entropy    *)
(*   source works; while it fails (EntropyFail .. EntropyHeal, fk = "Entropy") a generation     *)
(*   hands out NOTHING (error or abort) - in particular not a constant.                        *)
(* Mode = "uniq" : the retry layer of idgen.IDManager above its generators                     *)
(*   (GenerateUniqueID / GenerateUniqueClientID / GenerateUniquePortMappingID /                 *)
(*   GenerateUniqueNodeID in internal/core/idgen/id_manager.go): the caller supplies a check    *)
(*   function that answers from ITS repository (`repo`: ids that exist there - clients, mappings *)
(*   ... - whether or not a used-marker exists for them; `taken` = pre-existing markers).        *)
(*    for uatt < MaxU {  id := Generate()          inner loop of the generator: UNX (SetNX on   *)
(*                                                 the marker, inner retry, inner exhaustion)    *)
(*                       exists, err := check(id)  UChk: err or not exists -> return id          *)
(*                       Release(id)               URel: Delete of the marker just written, next *)
(*                    }                            candidate                                     *)
(*    return error (resource exhausted)            URel of attempt MaxU: the budget is used up   *)
(*   MaxU is MaxAttempts (100) in the code, small in the model; the driver stretches the model's *)
(*   last collision to 99 / 100 / 101+ colliding candidates (uniq.go).                           *)
(*   Deviations: ExhaustionReturnsLast (constant; seeded change C15-r5m2): with the budget used  *)
(*   up the LAST candidate - taken according to the repository, its marker just deleted - is     *)
(*   returned as a success (IdGen_show_exhaustion.cfg).  chkAssumed (ghost; what the code does): *)
(*   when the check function fails (fk = "Check") the id is assumed free and returned, taken or  *)
(*   not (IdGen_show_checkerr.cfg; deliberate in the code: the driver accepts the returned id on *)
(*   that path, the judge does not ask whether the repository knows it).  What the call leaves   *)
(*   behind is demanded on EVERY return path: the returned id keeps its marker (HeldMarked), so  *)
(*   the next generator that draws it is refused (Unique).  ReturnedIdReleased (constant; seeded *)
(*   change C15-r6m2): the id returned on the check-error path loses its marker on the way out   *)
(*   (IdGen_show_returnedreleased.cfg).                                                          *)
(* The pattern of pre-existing ids (`taken`) and the instance layout are chosen in Init, so   *)
(* one TLC run covers all patterns.  Ghost flags name the deviations:                         *)
(*   nonAtomic  a fallback Set wrote a marker that another instance had written since Exists  *)
(*   wrongTier  a heartbeat renewal was written to another tier than the one holding the claim*)
(*   expLive    a node-id claim expired while its holder was alive and renewing               *)
EXTENDS Naturals, Sequences, FiniteSets, TLC, Json

CONSTANTS Mode,         \* "gen" | "node"
          Procs,        \* gen: callers "p1".."p3";  node: nodes
          HasNX,        \* gen: "yes" | "no": the store offers SetNX; "both": chosen in Init (one run covers both stores)
          NCands,       \* gen: candidate ids 1..NCands (what the scripted random source can return)
          MaxAttempts,  \* gen: attempts per Generate
          MaxCalls,     \* API calls per process (gen)
          Layouts,      \* gen: subset of {"distinct", "same", "mixed"} to choose the layout from
          NSlots,       \* node: slots 1..NSlots are contended (all further slots are occupied by foreign nodes)
          RenewTier,    \* node: "local" | "claim"
          Wiring,       \* node: "split" | "same"
          TTLTicks,     \* node: claim TTL in renew periods (90 s / 30 s = 3)
          MaxTicks,     \* node: bound on elapsed periods (0 = untimed interleavings only)
          Faults,       \* kinds of store operation of which one may fail ({} = no fault); uuid: {"Entropy"}
          MaxRenewFails,\* node: bound on transient heartbeat failures per node (0 = none)
          MaxConsecFails,\* node: bound on heartbeat failures in a row per holder (transient: <= TTLTicks - 2)
          HbGiveUp,     \* node: "never" (the code) | "lifetime" | "consec": when the heartbeat loop gives up (deviation)
          GiveUpAfter,  \* node: ... after this many failures
          RenewTTLTicks,\* node: lease granted by a renewal, in periods (the code: TTLTicks)
          Realloc,      \* node: TRUE = an allocator may allocate again after its Release (MaxCalls allocations)
          StopChan,     \* node: "once" = one stop channel per allocator object (the code) | "fresh" = one per allocation
          WithLapse,    \* gen: TRUE = the Lapse action (long time passes once) is enabled
          MaxU,         \* uniq: attempts of the manager's retry loop (MaxAttempts = 100 in the code)
          ExhaustionReturnsLast, \* uniq: TRUE = deviation: the used-up budget returns the last candidate instead of the error
          ReturnedIdReleased,    \* uniq: TRUE = deviation: the id returned on the check-error path loses its marker on the way out
          Emit

VARIABLES layout, taken, fk, hasnx,            \* chosen in Init (fk: the kind of operation that may fail once, or "none";
                                               \*                 hasnx: the store offers SetNX)
          farm,                                \* "idle": the fault has not happened yet, "spent": it has
          used,                                \* gen: ids whose marker key exists in the store
          pc, cand, att, held, calls,          \* per process
          mu,                                  \* gen: holder of each instance's mutex, or "none"
          dup, tookTaken, nonAtomic,           \* ghosts (gen)
          sh, age,                             \* node: claim key of slot present in the claim tier / periods since last write
          hold, renewed, ticks,                \* node: slot held by a node (0 = none) / renewed in this period / periods elapsed
          expLive, wrongTier, ndup, nforeign,  \* ghosts (node)
          hb, cf, rf, ttl, stopc, allocs, hbLost, \* node: heartbeat goroutine / failures in a row / failures seen by the running loop /
                                               \*       lease of the key of slot s in periods / stopCh / allocations made / ghost
          repo, uatt, chkAssumed,              \* uniq: ids that exist in the caller's repository / attempt of the retry loop / ghost
          hist
uniqv == <<repo, uatt, chkAssumed>>
genv  == <<used, cand, att, held, calls, mu, dup, tookTaken, nonAtomic>>
hbv   == <<hb, cf, rf, ttl, stopc, allocs, hbLost>>
nodev == <<sh, age, hold, renewed, ticks, expLive, wrongTier, ndup, nforeign, hbv>>
fv    == <<fk, farm, hasnx>>
vars  == <<layout, taken, fv, pc, genv, nodev, uniqv, hist>>
view  == <<layout, taken, fv, pc, genv, nodev, uniqv>>

Cands == 1..NCands
Slots == 1..NSlots
MuDom == Procs \cup {"g1"}
InstOf(p) == IF layout = "same" THEN "g1"
             ELSE IF layout = "mixed" /\ p \in {"p1", "p2"} THEN "g1" ELSE p

\* the fault kinds that exist on the chosen store (SetNX path: SetNX, Delete; fallback path: Exists, Set, Delete)
GenLike == Mode \in {"gen", "uniq"}
FaultsFor(nx) == LET f == IF Mode = "gen" THEN Faults \cap (IF nx THEN {"SetNX", "Delete"} ELSE {"Exists", "Set", "Delete"}) ELSE Faults
                 IN IF f = {} THEN {"none"} ELSE f

Init == /\ layout \in (IF GenLike THEN Layouts ELSE {"nodes"})
        /\ hasnx \in (IF HasNX = "both" THEN BOOLEAN ELSE {HasNX = "yes"})
        /\ fk \in FaultsFor(hasnx) /\ farm = "idle"
        /\ taken \in (IF GenLike THEN SUBSET Cands ELSE IF Mode = "node" /\ fk # "Entropy" THEN SUBSET Slots ELSE {{}})
        /\ used = (IF GenLike THEN taken ELSE {})
        /\ repo \in (IF Mode = "uniq" THEN SUBSET Cands ELSE {{}}) /\ uatt = [p \in Procs |-> 0] /\ chkAssumed = FALSE
        /\ pc = [p \in Procs |-> "idle"] /\ cand = [p \in Procs |-> 0] /\ att = [p \in Procs |-> 0]
        /\ held = [p \in Procs |-> {}] /\ calls = [p \in Procs |-> 0]
        /\ mu = [i \in MuDom |-> "none"]
        /\ dup = FALSE /\ tookTaken = FALSE /\ nonAtomic = FALSE
        /\ sh = [s \in Slots |-> Mode = "node" /\ s \in taken] /\ age = [s \in Slots |-> 0]
        /\ hold = [p \in Procs |-> 0] /\ renewed = [p \in Procs |-> FALSE] /\ ticks = 0
        /\ expLive = FALSE /\ wrongTier = FALSE /\ ndup = FALSE /\ nforeign = FALSE
        /\ hb = [p \in Procs |-> "off"] /\ cf = [p \in Procs |-> 0] /\ rf = [p \in Procs |-> 0]
        /\ ttl = [s \in Slots |-> TTLTicks] /\ stopc = [p \in Procs |-> "open"] /\ allocs = [p \in Procs |-> 0]
        /\ hbLost = FALSE
        /\ hist = [lay |-> layout, tk |-> taken, rp |-> repo, fk |-> fk, nx |-> hasnx, st |-> <<>>]

Out(h) == IF Emit THEN PrintT("BEH " \o ToJson(h)) ELSE TRUE
\* who obtained an instance mutex in this step ("" = nobody); at most one mutex changes per step
Got == LET ch == {i \in MuDom : mu'[i] # mu[i] /\ mu'[i] # "none"}
       IN IF ch = {} THEN "" ELSE mu'[CHOOSE i \in ch : TRUE]
\* hist step: p process, a action, c candidate picked / id released / slot, r result of the step,
\*            w: p is blocked on its instance mutex after the step, g: who obtained a mutex
Log(p, a, c, r) == /\ hist' = [hist EXCEPT !.st = Append(hist.st,
                                  [p |-> p, a |-> a, c |-> c, r |-> r, w |-> (p \in Procs /\ pc'[p] = "W"), g |-> Got])]
                   /\ Out(hist')

\* the single store fault can hit this operation of kind k now
CanFail(k) == fk = k /\ farm = "idle" /\ (Mode = "gen" => ticks = 0)   \* (gen: a behaviour has a fault or a Lapse, not both;
                                                                       \*  node: the fault can happen at any time)
Spend == farm' = "spent" /\ fk' = fk /\ hasnx' = hasnx

\* =========================== generator (Mode = "gen") =====================================
\* a long time passes (once); recorded in `ticks`, which gen mode does not use otherwise
Lapse ==
  /\ Mode = "gen" /\ WithLapse /\ ticks = 0 /\ used # {}
  /\ farm = "idle" /\ \A p \in Procs : pc[p] = "idle"          \* between calls
  /\ ticks' = 1
  /\ UNCHANGED <<uniqv, layout, taken, fv, pc, genv, sh, age, hold, renewed, expLive, wrongTier, ndup, nforeign, hbv>>
  /\ Log("time", "Lapse", 0, "")

Waiters(i) == {q \in Procs : pc[q] = "W" /\ InstOf(q) = i}

\* p asks for the mutex of its instance (tryMarkAsUsed, fallback path)
Enter(p) == LET i == InstOf(p) IN
            IF mu[i] = "none" THEN mu' = [mu EXCEPT ![i] = p] /\ pc' = [pc EXCEPT ![p] = "ex"]
                              ELSE mu' = mu /\ pc' = [pc EXCEPT ![p] = "W"]

\* p unlocks; the contenders are the goroutines blocked in Lock and, if `again`, p itself which
\* comes straight back for its next attempt.  sync.Mutex makes no promise who wins.
Handover(p, again) ==
  LET i == InstOf(p)
      C == Waiters(i) \cup (IF again THEN {p} ELSE {}) IN
  IF C = {} THEN mu' = [mu EXCEPT ![i] = "none"] /\ pc' = [pc EXCEPT ![p] = "idle"]
  ELSE \E win \in C : /\ mu' = [mu EXCEPT ![i] = win]
                      /\ pc' = [q \in Procs |-> IF q = win THEN "ex"
                                                ELSE IF q = p THEN (IF again THEN "W" ELSE "idle")
                                                ELSE pc[q]]

RetOk(p, x) == /\ held' = [held EXCEPT ![p] = held[p] \cup {x}]
               /\ dup' = (dup \/ \E q \in Procs : x \in held[q])       \* x is outstanding somewhere
               /\ tookTaken' = (tookTaken \/ x \in taken \cup repo)
               /\ calls' = [calls EXCEPT ![p] = calls[p] + 1]
RetErr(p) == /\ calls' = [calls EXCEPT ![p] = calls[p] + 1] /\ UNCHANGED <<held, dup, tookTaken>>

CallGen(p, c) ==
  /\ Mode = "gen" /\ pc[p] = "idle" /\ calls[p] < MaxCalls
  /\ cand' = [cand EXCEPT ![p] = c] /\ att' = [att EXCEPT ![p] = 1]
  /\ IF hasnx THEN pc' = [pc EXCEPT ![p] = "nx"] /\ mu' = mu ELSE Enter(p)
  /\ UNCHANGED <<uniqv, layout, taken, fv, used, held, calls, dup, tookTaken, nonAtomic, nodev>>
  /\ Log(p, "CallGen", c, "")

\* atomic set-if-absent
NXok(p) ==
  /\ pc[p] = "nx"
  /\ UNCHANGED <<uniqv, layout, taken, fv, mu, nonAtomic, nodev>>
  /\ IF cand[p] \notin used
     THEN /\ used' = used \cup {cand[p]} /\ RetOk(p, cand[p]) /\ pc' = [pc EXCEPT ![p] = "idle"]
          /\ UNCHANGED <<cand, att>> /\ Log(p, "NX", 0, "ok")
     ELSE IF att[p] < MaxAttempts
     THEN \E c \in Cands : /\ cand' = [cand EXCEPT ![p] = c] /\ att' = [att EXCEPT ![p] = att[p] + 1]
                           /\ UNCHANGED <<used, pc, held, calls, dup, tookTaken>> /\ Log(p, "NX", c, "retry")
     ELSE /\ RetErr(p) /\ pc' = [pc EXCEPT ![p] = "idle"]               \* ErrIDExhausted
          /\ UNCHANGED <<used, cand, att>> /\ Log(p, "NX", 0, "err")

\* SetNX returns an error: tryMarkAsUsed fails, Generate logs it and goes on with the next attempt
NXfault(p) ==
  /\ pc[p] = "nx" /\ CanFail("SetNX") /\ att[p] < MaxAttempts /\ Spend
  /\ \E c \in Cands : /\ cand' = [cand EXCEPT ![p] = c] /\ att' = [att EXCEPT ![p] = att[p] + 1]
                        /\ UNCHANGED <<uniqv, layout, taken, mu, nonAtomic, nodev, used, pc, held, calls, dup, tookTaken>>
                        /\ Log(p, "NX", c, "fretry")
NX(p) == NXok(p) \/ NXfault(p)

\* fallback, first half: Exists(key) under the instance mutex
Exok(p) ==
  /\ pc[p] = "ex" /\ mu[InstOf(p)] = p
  /\ UNCHANGED <<uniqv, layout, taken, fv, used, nonAtomic, nodev>>
  /\ IF cand[p] \notin used
     THEN /\ pc' = [pc EXCEPT ![p] = "set"]
          /\ UNCHANGED <<mu, cand, att, held, calls, dup, tookTaken>> /\ Log(p, "Ex", 0, "free")
     ELSE IF att[p] < MaxAttempts
     THEN \E c \in Cands : /\ cand' = [cand EXCEPT ![p] = c] /\ att' = [att EXCEPT ![p] = att[p] + 1]
                           /\ Handover(p, TRUE)
                           /\ UNCHANGED <<held, calls, dup, tookTaken>> /\ Log(p, "Ex", c, "retry")
     ELSE /\ RetErr(p) /\ Handover(p, FALSE)
          /\ UNCHANGED <<cand, att>> /\ Log(p, "Ex", 0, "err")

\* Exists / Set returns an error: tryMarkAsUsed unlocks and fails, Generate goes on with the next attempt
FBfault(p, k, a) ==
  /\ mu[InstOf(p)] = p /\ CanFail(k) /\ att[p] < MaxAttempts /\ Spend
  /\ UNCHANGED <<uniqv, layout, taken, used, nonAtomic, nodev, held, calls, dup, tookTaken>>
  /\ \E c \in Cands : /\ cand' = [cand EXCEPT ![p] = c] /\ att' = [att EXCEPT ![p] = att[p] + 1]
                        /\ Handover(p, TRUE)
                        /\ Log(p, a, c, "fretry")
Ex(p) == Exok(p) \/ (pc[p] = "ex" /\ FBfault(p, "Exists", "Ex"))

\* fallback, second half: Set(key) - unconditional
FSetok(p) ==
  /\ pc[p] = "set" /\ mu[InstOf(p)] = p
  /\ nonAtomic' = (nonAtomic \/ cand[p] \in used)                       \* deviation: somebody marked it since our Exists
  /\ used' = used \cup {cand[p]}
  /\ RetOk(p, cand[p]) /\ Handover(p, FALSE)
  /\ UNCHANGED <<uniqv, layout, taken, fv, cand, att, nodev>>
  /\ Log(p, "Set", 0, "ok")
FSet(p) == FSetok(p) \/ (pc[p] = "set" /\ FBfault(p, "Set", "Set"))

\* Release(x) of an id this caller holds: outstanding ends at the call, the marker goes at Del
CallRel(p, x) ==
  /\ GenLike /\ pc[p] = "idle" /\ calls[p] < MaxCalls /\ x \in held[p]
  /\ held' = [held EXCEPT ![p] = held[p] \ {x}]
  /\ cand' = [cand EXCEPT ![p] = x] /\ pc' = [pc EXCEPT ![p] = "del"]
  /\ UNCHANGED <<uniqv, layout, taken, fv, used, att, calls, mu, dup, tookTaken, nonAtomic, nodev>>
  /\ Log(p, "CallRel", x, "")

Del(p) ==
  /\ GenLike /\ pc[p] = "del"
  /\ calls' = [calls EXCEPT ![p] = calls[p] + 1] /\ pc' = [pc EXCEPT ![p] = "idle"]
  /\ UNCHANGED <<uniqv, layout, taken, cand, att, held, mu, dup, tookTaken, nonAtomic, nodev>>
  /\ \/ used' = used \ {cand[p]} /\ UNCHANGED fv /\ Log(p, "Del", 0, "")
     \/ CanFail("Delete") /\ Spend /\ used' = used /\ Log(p, "Del", 0, "fault")   \* Release returns the error, the marker stays

\* =========================== the manager's retry layer (Mode = "uniq") ======================
\* GenerateUniqueXxxID(check): first attempt, first candidate of the inner generator
UCall(p, c) ==
  /\ Mode = "uniq" /\ pc[p] = "idle" /\ calls[p] < MaxCalls
  /\ cand' = [cand EXCEPT ![p] = c] /\ att' = [att EXCEPT ![p] = 1] /\ uatt' = [uatt EXCEPT ![p] = 1]
  /\ pc' = [pc EXCEPT ![p] = "unx"]
  /\ UNCHANGED <<layout, taken, fv, used, held, calls, mu, dup, tookTaken, nonAtomic, nodev, repo, chkAssumed>>
  /\ Log(p, "UCall", c, "")

\* the inner generator's SetNX on the marker of its candidate
UNX(p) ==
  /\ pc[p] = "unx"
  /\ UNCHANGED <<layout, taken, fv, mu, nonAtomic, nodev, uniqv>>
  /\ IF cand[p] \notin used
     THEN /\ used' = used \cup {cand[p]} /\ pc' = [pc EXCEPT ![p] = "uchk"]            \* Generate returns the candidate
          /\ UNCHANGED <<cand, att, held, calls, dup, tookTaken>> /\ Log(p, "UNX", 0, "ok")
     ELSE IF att[p] < MaxAttempts
     THEN \E c \in Cands : /\ cand' = [cand EXCEPT ![p] = c] /\ att' = [att EXCEPT ![p] = att[p] + 1]
                           /\ UNCHANGED <<used, pc, held, calls, dup, tookTaken>> /\ Log(p, "UNX", c, "retry")
     ELSE /\ RetErr(p) /\ pc' = [pc EXCEPT ![p] = "idle"]              \* Generate fails (ErrIDExhausted): the manager returns that error
          /\ UNCHANGED <<used, cand, att>> /\ Log(p, "UNX", 0, "err")

\* the caller's check function answers for the candidate
UChk(p) ==
  /\ pc[p] = "uchk"
  /\ UNCHANGED <<layout, taken, mu, nonAtomic, nodev, cand, att, repo, uatt>>
  /\ \/ /\ UNCHANGED <<fv, chkAssumed, used>>
        /\ IF cand[p] \notin repo
           THEN RetOk(p, cand[p]) /\ pc' = [pc EXCEPT ![p] = "idle"] /\ Log(p, "UChk", 0, "free")
           ELSE pc' = [pc EXCEPT ![p] = "urel"] /\ UNCHANGED <<held, calls, dup, tookTaken>> /\ Log(p, "UChk", 0, "exists")
     \* the check function returns an error: the code assumes "does not exist" and returns the id
     \/ /\ CanFail("Check") /\ Spend
        /\ RetOk(p, cand[p]) /\ pc' = [pc EXCEPT ![p] = "idle"]
        /\ chkAssumed' = (chkAssumed \/ cand[p] \in repo)                                 \* deviation
        \* whatever the return path, the id that is handed out keeps its marker until it is released
        \* (deviation ReturnedIdReleased, seeded change C15-r6m2: the marker is deleted on the way out)
        /\ used' = IF ReturnedIdReleased THEN used \ {cand[p]} ELSE used
        /\ Log(p, "UChk", 0, "ferr")

\* the candidate exists: its marker is released (Delete), then the next attempt - or the budget is used up
URel(p) ==
  /\ pc[p] = "urel"
  /\ used' = used \ {cand[p]}
  /\ UNCHANGED <<layout, taken, fv, mu, nonAtomic, nodev, repo, chkAssumed>>
  /\ IF uatt[p] < MaxU
     THEN \E c \in Cands : /\ cand' = [cand EXCEPT ![p] = c] /\ att' = [att EXCEPT ![p] = 1]
                           /\ uatt' = [uatt EXCEPT ![p] = uatt[p] + 1] /\ pc' = [pc EXCEPT ![p] = "unx"]
                           /\ UNCHANGED <<held, calls, dup, tookTaken>> /\ Log(p, "URel", c, "retry")
     ELSE /\ pc' = [pc EXCEPT ![p] = "idle"] /\ UNCHANGED <<cand, att, uatt>>
          /\ IF ExhaustionReturnsLast
             THEN RetOk(p, cand[p]) /\ Log(p, "URel", 0, "last")              \* deviation: the taken, unmarked candidate is handed out
             ELSE RetErr(p) /\ Log(p, "URel", 0, "err")                      \* resource exhausted

\* =========================== UUID ids ====================================================
\* The UUID generators need no store; to save a TLC run they are also a sub-model of Mode "node":
\* an initial state with fk = "Entropy" runs ONLY these actions, every other one only the allocator's.
UuidOn == Mode = "uuid" \/ (Mode = "node" /\ fk = "Entropy")
EntropyFail == /\ UuidOn /\ fk = "Entropy" /\ farm = "idle" /\ farm' = "failing" /\ fk' = fk /\ hasnx' = hasnx
               /\ UNCHANGED <<uniqv, layout, taken, pc, genv, nodev>> /\ Log("env", "EntropyFail", 0, "")
EntropyHeal == /\ UuidOn /\ farm = "failing" /\ farm' = "spent" /\ fk' = fk /\ hasnx' = hasnx
               /\ UNCHANGED <<uniqv, layout, taken, pc, genv, nodev>> /\ Log("env", "EntropyHeal", 0, "")
\* one Generate call of a UUID generator (it touches no store: one step)
UGen(p) ==
  /\ UuidOn /\ calls[p] < MaxCalls
  /\ UNCHANGED <<uniqv, layout, taken, fv, pc, cand, att, mu, nonAtomic, nodev>>
  /\ IF farm = "failing"
     THEN RetErr(p) /\ UNCHANGED used /\ Log(p, "UGen", 0, "ferr")
     ELSE LET x == Cardinality(used) + 1 IN
          /\ x \in Cands /\ used' = used \cup {x} /\ RetOk(p, x) /\ Log(p, "UGen", x, "ok")

\* =========================== node ids (Mode = "node") =====================================
Live(n) == pc[n] = "held"                                \* allocated and neither released nor crashed
HbRuns(n) == hb[n] = "run"                               \* its heartbeat goroutine is in its loop
RenewHitsClaim == RenewTier = "claim" \/ Wiring = "same"
\* the deviation HbGiveUp: the loop returns after lf failures over its life / c in a row
GivesUp(lf, c) == \/ HbGiveUp = "lifetime" /\ lf >= GiveUpAfter
                  \/ HbGiveUp = "consec" /\ c >= GiveUpAfter

CallAlloc(n) ==
  /\ Mode = "node" /\ fk # "Entropy" /\ pc[n] = "idle" /\ allocs[n] < (IF Realloc THEN MaxCalls ELSE 1)
  /\ pc' = [pc EXCEPT ![n] = "claim"] /\ cand' = [cand EXCEPT ![n] = 1]
  /\ UNCHANGED <<uniqv, layout, taken, fv, used, att, held, calls, mu, dup, tookTaken, nonAtomic, nodev>>
  /\ Log(n, "CallAlloc", 0, "")

\* SetNXRuntime on the key of slot cand[n]; success starts the heartbeat goroutine, which returns at
\* once if this allocator's stopCh is already closed (allocation after Release on the same object)
Claimok(n) ==
  /\ Mode = "node" /\ pc[n] = "claim"
  /\ UNCHANGED <<uniqv, layout, taken, fv, used, att, held, calls, mu, dup, tookTaken, nonAtomic, ticks, expLive, wrongTier>>
  /\ LET s == cand[n] IN
     IF ~sh[s]
     THEN /\ sh' = [sh EXCEPT ![s] = TRUE] /\ age' = [age EXCEPT ![s] = 0] /\ ttl' = [ttl EXCEPT ![s] = TTLTicks]
          /\ hold' = [hold EXCEPT ![n] = s] /\ renewed' = [renewed EXCEPT ![n] = TRUE]
          /\ ndup' = (ndup \/ \E m \in Procs \ {n} : Live(m) /\ hold[m] = s)
          /\ nforeign' = (nforeign \/ s \in taken)
          /\ LET dead == stopc[n] = "closed" /\ StopChan = "once" IN
               /\ hb' = [hb EXCEPT ![n] = IF dead THEN "stopped" ELSE "run"]
               /\ hbLost' = (hbLost \/ dead)                                           \* deviation (Realloc on the code as it is)
          /\ stopc' = IF StopChan = "fresh" THEN [stopc EXCEPT ![n] = "open"] ELSE stopc
          /\ cf' = [cf EXCEPT ![n] = 0] /\ rf' = [rf EXCEPT ![n] = 0] /\ allocs' = [allocs EXCEPT ![n] = allocs[n] + 1]
          /\ pc' = [pc EXCEPT ![n] = "held"] /\ UNCHANGED cand
          /\ Log(n, "Claim", s, "ok")
     ELSE IF s < NSlots
     THEN /\ cand' = [cand EXCEPT ![n] = s + 1]
          /\ UNCHANGED <<sh, age, hold, renewed, ndup, nforeign, pc, hbv>> /\ Log(n, "Claim", s, "retry")
     ELSE /\ pc' = [pc EXCEPT ![n] = "failed"]                         \* every further slot is occupied too
          /\ UNCHANGED <<sh, age, hold, renewed, ndup, nforeign, cand, hbv>> /\ Log(n, "Claim", s, "err")

\* SetNXRuntime returns an error: the allocator logs it and goes on with the next slot
Claimfault(n) ==
  /\ Mode = "node" /\ pc[n] = "claim" /\ CanFail("SetNX") /\ Spend
  /\ UNCHANGED <<uniqv, layout, taken, used, att, held, calls, mu, dup, tookTaken, nonAtomic, nodev>>
  /\ IF cand[n] < NSlots
     THEN cand' = [cand EXCEPT ![n] = cand[n] + 1] /\ UNCHANGED pc /\ Log(n, "Claim", cand[n], "fretry")
     ELSE pc' = [pc EXCEPT ![n] = "failed"] /\ UNCHANGED cand /\ Log(n, "Claim", cand[n], "ferr")
Claim(n) == Claimok(n) \/ Claimfault(n)

\* Release by an allocator whose allocation failed: it holds nothing, no key is touched
NRelNoop(n) ==
  /\ Mode = "node" /\ pc[n] = "failed"
  /\ pc' = [pc EXCEPT ![n] = "gone"]
  /\ UNCHANGED <<uniqv, layout, taken, fv, genv, nodev>>
  /\ Log(n, "CallRel", 0, "noop")

\* heartbeat of a live node, once per period: Set(key, nodeID, 90 s) succeeds
Renew(n) ==
  /\ Mode = "node" /\ MaxTicks > 0 /\ Live(n) /\ HbRuns(n) /\ ~renewed[n]
  /\ renewed' = [renewed EXCEPT ![n] = TRUE] /\ cf' = [cf EXCEPT ![n] = 0]
  /\ IF RenewHitsClaim THEN /\ sh' = [sh EXCEPT ![hold[n]] = TRUE] /\ age' = [age EXCEPT ![hold[n]] = 0]   \* plain Set: unconditional
                             /\ ttl' = [ttl EXCEPT ![hold[n]] = RenewTTLTicks]
                       ELSE UNCHANGED <<sh, age, ttl>>                                                \* written to the node-local cache
  /\ wrongTier' = (wrongTier \/ ~RenewHitsClaim)                                                      \* deviation
  \* calls[n] (node mode, with transient faults): successful renewals since the last failed one, capped
  /\ calls' = IF MaxRenewFails > 0 /\ att[n] > 0 /\ calls[n] < MaxCalls THEN [calls EXCEPT ![n] = calls[n] + 1] ELSE calls
  /\ UNCHANGED <<uniqv, layout, taken, fv, pc, used, cand, att, held, mu, dup, tookTaken, nonAtomic, hold, ticks, expLive, ndup, nforeign,
                 hb, rf, stopc, allocs, hbLost>>
  /\ Log(n, "Renew", hold[n], IF RenewHitsClaim THEN "claim" ELSE "local")

\* the heartbeat's Set fails with a transient store error: nothing is written, the loop goes on
\* (deviation HbGiveUp: or returns)
RenewFail(n) ==
  /\ Mode = "node" /\ MaxTicks > 0 /\ Live(n) /\ HbRuns(n) /\ ~renewed[n] /\ RenewHitsClaim
  /\ att[n] < MaxRenewFails /\ cf[n] < MaxConsecFails
  /\ renewed' = [renewed EXCEPT ![n] = TRUE] /\ att' = [att EXCEPT ![n] = att[n] + 1]
  /\ cf' = [cf EXCEPT ![n] = cf[n] + 1]
  /\ rf' = IF HbGiveUp = "lifetime" THEN [rf EXCEPT ![n] = rf[n] + 1] ELSE rf     \* (only that deviation reads it)
  /\ LET quit == GivesUp(rf[n] + 1, cf[n] + 1) IN
       /\ hb' = IF quit THEN [hb EXCEPT ![n] = "stopped"] ELSE hb
       /\ hbLost' = (hbLost \/ quit)                                           \* deviation
  /\ calls' = [calls EXCEPT ![n] = 0]
  /\ UNCHANGED <<uniqv, layout, taken, fv, pc, used, cand, held, mu, dup, tookTaken, nonAtomic,
                 sh, age, hold, ticks, expLive, wrongTier, ndup, nforeign, ttl, stopc, allocs>>
  /\ Log(n, "Renew", hold[n], "fail")

Tick ==
  /\ Mode = "node" /\ ticks < MaxTicks
  /\ \E s \in Slots : sh[s] /\ s \notin taken   \* periods are counted only while a claim of a modelled node exists
                                               \* (keeps "ticks" meaningful: k ticks under a live holder = k renewals)
  /\ \A n \in Procs : (Live(n) /\ HbRuns(n)) => renewed[n]      \* every running heartbeat has fired in this period
  /\ \A n \in Procs : pc[n] # "rel"          \* a Release call lasts less than a period (see note below)
  /\ \A s \in Slots : (sh[s] /\ s \notin taken) => age[s] < ttl[s]       \* a due expiry happens before more time passes
  /\ age' = [s \in Slots |-> IF sh[s] /\ s \notin taken THEN age[s] + 1 ELSE age[s]]   \* foreign holders keep their claims fresh
  /\ renewed' = [n \in Procs |-> FALSE] /\ ticks' = ticks + 1
  /\ UNCHANGED <<uniqv, layout, taken, fv, pc, genv, sh, hold, expLive, wrongTier, ndup, nforeign, hbv>>
  /\ Log("time", "Tick", 0, "")

SlotExpire(s) ==
  /\ Mode = "node" /\ sh[s] /\ s \notin taken /\ age[s] = ttl[s]
  /\ sh' = [sh EXCEPT ![s] = FALSE] /\ age' = [age EXCEPT ![s] = 0]
  /\ expLive' = (expLive \/ \E n \in Procs : Live(n) /\ hold[n] = s)    \* deviation
  /\ UNCHANGED <<uniqv, layout, taken, fv, pc, genv, hold, renewed, ticks, wrongTier, ndup, nforeign, hbv>>
  /\ Log("time", "Expire", s, IF \E n \in Procs : Live(n) /\ hold[n] = s THEN "live" ELSE "dead")

NCallRel(n) ==
  /\ Mode = "node" /\ Live(n)
  /\ UNCHANGED <<uniqv, layout, taken, fv, genv, sh, age, hold, renewed, ticks, expLive, wrongTier, ndup, nforeign, cf, rf, ttl, allocs, hbLost>>
  /\ IF stopc[n] = "closed"
     \* (only with Realloc on the code as it is) close of a closed channel: Release panics, nothing is deleted
     THEN /\ pc' = [pc EXCEPT ![n] = "relfailed"] /\ hb' = [hb EXCEPT ![n] = "off"] /\ UNCHANGED stopc
          /\ Log(n, "CallRel", hold[n], "panic")
     ELSE /\ pc' = [pc EXCEPT ![n] = "rel"]                                     \* close(stopCh): no more heartbeats
          /\ hb' = [hb EXCEPT ![n] = "off"] /\ stopc' = [stopc EXCEPT ![n] = "closed"]
          /\ Log(n, "CallRel", hold[n], "")

NDel(n) ==
  /\ Mode = "node" /\ pc[n] = "rel"
  /\ UNCHANGED <<uniqv, layout, taken, genv, renewed, ticks, expLive, wrongTier, ndup, nforeign, hbv>>
  /\ \/ /\ sh' = [sh EXCEPT ![hold[n]] = FALSE] /\ age' = [age EXCEPT ![hold[n]] = 0]   \* Delete: unconditional
        /\ hold' = [hold EXCEPT ![n] = 0]
        /\ pc' = [pc EXCEPT ![n] = IF Realloc /\ allocs[n] < MaxCalls THEN "idle" ELSE "gone"]   \* nodeID = "": may allocate again
        /\ UNCHANGED fv /\ Log(n, "Del", 0, "")
     \* Delete returns an error: Release returns it; the key stays (to its TTL: the heartbeat has stopped),
     \* the allocator keeps its id (a second Release would close stopCh twice - not modelled)
     \/ /\ CanFail("Delete") /\ Spend
        /\ pc' = [pc EXCEPT ![n] = "relfailed"] /\ UNCHANGED <<sh, age, hold>>
        /\ Log(n, "Del", 0, "fault")

Crash(n) ==
  /\ Mode = "node" /\ MaxTicks > 0 /\ Live(n)
  /\ pc' = [pc EXCEPT ![n] = "dead"] /\ hb' = [hb EXCEPT ![n] = "off"]
  /\ UNCHANGED <<uniqv, layout, taken, fv, genv, sh, age, hold, renewed, ticks, expLive, wrongTier, ndup, nforeign, cf, rf, ttl, stopc, allocs, hbLost>>
  /\ Log(n, "Crash", hold[n], "")

Next == \/ \E p \in Procs : \/ \E c \in Cands : CallGen(p, c)
                            \/ NX(p) \/ Ex(p) \/ FSet(p) \/ Del(p)
                            \/ \E x \in Cands : CallRel(p, x)
                            \/ UGen(p)
                            \/ (\E c \in Cands : UCall(p, c)) \/ UNX(p) \/ UChk(p) \/ URel(p)
                            \/ CallAlloc(p) \/ Claim(p) \/ Renew(p) \/ RenewFail(p) \/ NCallRel(p) \/ NRelNoop(p) \/ NDel(p) \/ Crash(p)
        \/ Tick \/ Lapse \/ EntropyFail \/ EntropyHeal
        \/ \E s \in Slots : SlotExpire(s)
Spec == Init /\ [][Next]_vars

\* =========================== properties (C15) =============================================
TypeOK == /\ used \subseteq Cands /\ taken \subseteq (Cands \cup Slots)
          /\ \A p \in Procs : /\ held[p] \subseteq Cands /\ calls[p] \in 0..MaxCalls
                              /\ att[p] \in 0..(MaxAttempts + MaxRenewFails) /\ hold[p] \in 0..NSlots
          /\ \A i \in MuDom : mu[i] \in Procs \cup {"none"}
          /\ \A i \in MuDom : mu[i] = "none" => Waiters(i) = {}          \* a free mutex has no waiters
          /\ farm \in {"idle", "failing", "spent"} /\ fk \in Faults \cup {"none"} /\ hasnx \in BOOLEAN
          /\ \A p \in Procs : /\ hb[p] \in {"off", "run", "stopped"} /\ stopc[p] \in {"open", "closed"}
                              /\ cf[p] \in 0..MaxConsecFails /\ rf[p] \in 0..MaxRenewFails /\ allocs[p] \in 0..MaxCalls
          /\ \A s \in Slots : ttl[s] \in {TTLTicks, RenewTTLTicks}
          /\ repo \subseteq Cands /\ \A p \in Procs : uatt[p] \in 0..MaxU
\* (1) no two un-released successful generations are equal
Unique       == ~dup
HeldDisjoint == \A p, q \in Procs : p # q => held[p] \cap held[q] = {}
\* (2) a taken candidate is never returned
NoTaken      == ~tookTaken /\ \A p \in Procs : held[p] \cap (taken \cup repo) = {}
\* (3) every outstanding id is visibly taken (its marker exists) - what the next generation relies on
HeldMarked   == ~dup => \A p \in Procs : held[p] \subseteq used
\* (4) exhaustion: a call gives up (error) exactly after MaxAttempts taken candidates - by construction of
\*     NX/Ex; what remains to state is that it never hands out an id instead
Exhaustion   == (taken = Cands /\ Mode = "gen") => \A p \in Procs : held[p] = {}
\* the only route to a duplicate on a store without SetNX is the named deviation, and a single
\* instance (its own mutex) is safe
\* one run over both kinds of store
GenOK == IF hasnx THEN Unique /\ HeldDisjoint /\ NoTaken /\ HeldMarked /\ Exhaustion
                  ELSE NoTaken /\ Exhaustion /\ (Unique \/ nonAtomic) /\ (layout = "same" => (Unique /\ HeldMarked))
FallbackOnlyDeviation == (Unique \/ nonAtomic) /\ (layout = "same" => (Unique /\ HeldMarked))
\* the manager's retry layer: a returned id was free according to the markers AND the caller's repository, the used-up
\* budget is an error, and between calls no marker is left over (every marker is a pre-existing one or an outstanding id's)
UniqClean == (Mode = "uniq" /\ \A p \in Procs : pc[p] = "idle") => used \subseteq (taken \cup UNION {held[p] : p \in Procs})
UniqExhaustion == (Mode = "uniq" /\ repo \cup taken = Cands) => \A p \in Procs : held[p] = {}
UniqOK == /\ Unique /\ HeldDisjoint /\ HeldMarked /\ UniqClean
          /\ (chkAssumed \/ (NoTaken /\ UniqExhaustion))     \* (the only as-is route to a taken id: a failing check function)
\* node ids
\* a node whose allocation failed holds nothing (so its Release has nothing to delete)
FailedHoldsNothing == \A n \in Procs : pc[n] \in {"failed", "gone"} => hold[n] = 0
NodeUnique == /\ ~ndup
              /\ \A n, m \in Procs : (n # m /\ Live(n) /\ Live(m)) => hold[n] # hold[m]
NoForeign  == ~nforeign
ClaimNeverExpiresUnderLiveHolder == ~expLive
NoWrongTier == ~wrongTier
\* the lease life cycle: as long as a node is live (allocated, not released, not crashed) its heartbeat
\* goroutine is in its loop, and - the store faults being transient - its claim key is present with time left
HeartbeatRunsWhileLive == ~hbLost /\ \A n \in Procs : Live(n) => HbRuns(n)
LeaseMargin == (RenewHitsClaim /\ MaxConsecFails <= TTLTicks - 2) =>
                 \A n \in Procs : Live(n) => sh[hold[n]] /\ age[hold[n]] < ttl[hold[n]]
\* a heartbeat runs only for a live node (it ends with Release and Crash)
NoHeartbeatWithoutHolder == \A n \in Procs : hb[n] = "run" => Live(n)
NodeOnlyDeviation == NodeUnique \/ wrongTier
=============================================================================
