\* C07, re-registration of an existing connection id (ClientRegistry.Register "already exists, replacing"; same stream
\* and a stream of its own; before and after authentication, control and tunnel type) followed by lookups, closes
\* (by the peer, Disconnect command) and further logins.  VIEW viewX = exhaustive check; EMIT "canon" = all histories.
CONSTANTS
  Conn <- Conn3
  Client <- @@CLIENT@@
  MaxNonce = 2
  MaxFail = 3
  MaxCtl = 0
  Faults = @@FAULTS@@
  Ops = {"FirstLogin", "Login", "Knock", "ReReg", "Close", "CloseCmd"}
  Types = {"control", "tunnel"}
  PreAccept = TRUE
  Fixes = @@FIXES@@
  Split = FALSE
  MaxLevel = @@LEVEL@@
  Emit = @@EMIT@@
INIT InitX
NEXT NextX
@@VIEW@@
INVARIANTS TypeOKX OnlyProven C07InvX C07OneX
CHECK_DEADLOCK FALSE
