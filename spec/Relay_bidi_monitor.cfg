\* (i) Bidirectional under tunnel.Tunnel: the idle monitor (monitorTimeout) next to runDataCopy, as patched by
\* C12-4 (every Read/Write of the tunnel conn that moves data signals activityChan).  IdleMax = 2 ticks.  The monitor
\* closes the tunnel only after IdleMax ticks without any data movement (BMonitorOnlyIdle); safety + liveness.
CONSTANTS
  MaxSend = 1
  EofWithData = TRUE
  ShapesA <- LocalShapes
  ShapesB <- TwoShapes
  DevDeadlineAt = "none"
  DevDeadlineHits = {"read"}
  Monitor = TRUE
  IdleMax = 2
  DevMonNoFeed = FALSE
  Reactive = FALSE
  DevNoSignalOnError = FALSE
  DevCloseWriterFallback = FALSE
  Emit = FALSE
  Classes = {1}
  BatchSize = 32
  BatchBuf = 22
  High = 100
  MaxT = 0
  MaxU = 0
  TSeqs <- TSmall
  USeqs <- USmall
  Cuts = "all"
  Chunks = {0}
  Paces = {"burst"}
  DevSpin = FALSE
  DevNoUnblock = FALSE
  DevAliasFlush = FALSE
  SockBatch = FALSE
  DevNoInnerFlush = FALSE
  SockQueue = FALSE
  DevQueueRefs = FALSE
  DevSockDeadline = FALSE
  DevDropOnClose = FALSE
SPECIFICATION BSpec
INVARIANTS BTypeOK BPipe BComplete BReverseKeepsFlowing BNoSpuriousEnd BNoSpuriousWriteEnd BNoDeadline BMonitorOnlyIdle BToldSafe
PROPERTIES BMonotone BTermination BReverseDelivered BTold
CHECK_DEADLOCK FALSE
