\* C03, handshake messages alone, both connection types: every message class on fresh connections and on connections
\* that are ALREADY authenticated (re-handshake phase 1 for the same / another id, phase 2 naming the same / another /
\* an unknown id with the own / a foreign / the named client's own valid key over the latest or an earlier challenge,
\* first connect on an authenticated connection); short enough to be driven completely.
CONSTANTS
  Conn <- Conn2
  Client <- Client2
  MaxNonce = 2
  MaxFail = 3
  MaxCtl = 0
  Faults = {}
  Ops = {"Msg"}
  Types = {"control", "tunnel"}
  PreAccept = TRUE
  Fixes = @@FIXES@@
  Split = FALSE
  MaxLevel = @@LEVEL@@
  Emit = @@EMIT@@
INIT Init
NEXT Next
VIEW view
INVARIANTS TypeOK OnlyProven StepsOK ProvenIssued C07InvMasked C07OneMasked
CHECK_DEADLOCK FALSE
