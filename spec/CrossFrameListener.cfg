\* C10 listener hand-over, exhaustive: every segmentation of frame+data with <=3 cuts, every
\* interleaving of arrival, frame reading, hand-over and raw copying. Also the behaviour
\* generator (one behaviour per distinct (data class, cut classes); Emit).
CONSTANTS
  H = 2
  P = 2
  DSizes = {0, 1, 3}
  MaxCuts = 3
  ReadAhead = FALSE
  Emit = @@EMIT@@
INIT Init
NEXT Next
INVARIANTS TypeOK NoByteDropped InOrderPrefix Complete
CHECK_DEADLOCK FALSE
