\* (i) Bidirectional - SEEDED FAULT (C12/r2m3, not in the code): the adapter's CloseWrite closes a
\* Writer that is only an io.Closer.  THIS RUN MUST FAIL with "Invariant BReverseKeepsFlowing is violated":
\* tunnel side of shape same-closer (one full-duplex conn behind Reader and Writer), the local side
\* half-closes first -> tryCloseWrite(tunnel) closes the whole tunnel conn while tunnel->local is live.
CONSTANTS
  MaxSend = 1
  EofWithData = TRUE
  ShapesA <- LocalShapes
  ShapesB <- AllShapes
  DevDeadlineAt = "none"
  DevDeadlineHits = {"read"}
  Monitor = FALSE
  IdleMax = 2
  DevMonNoFeed = FALSE
  Reactive = FALSE
  DevNoSignalOnError = FALSE
  DevCloseWriterFallback = TRUE
  Emit = FALSE
  Classes = {1}
  BatchSize = 32
  BatchBuf = 22
  High = 100
  MaxT = 0
  MaxU = 0
  TSeqs <- TSmall
  USeqs <- USmall
  Cuts = "all"
  Chunks = {0}
  Paces = {"burst"}
  DevSpin = FALSE
  DevNoUnblock = FALSE
  DevAliasFlush = FALSE
  SockBatch = FALSE
  DevNoInnerFlush = FALSE
  SockQueue = FALSE
  DevQueueRefs = FALSE
  DevSockDeadline = FALSE
  DevDropOnClose = FALSE
INIT BInit
NEXT BNext
INVARIANTS BTypeOK BPipe BComplete BReverseKeepsFlowing BNoSpuriousEnd BNoDeadline
CHECK_DEADLOCK FALSE
