---------------------------- MODULE BridgeTrace ----------------------------
(* C02 judge: property-level trace specification over what the two ends of a tunnel and the    *)
(* server's tunnel map showed.  It knows nothing about copiers, buffers or the rate limiter; it *)
(* knows the statement:                                                                          *)
(*   - what an end has received is always a prefix of what the other end sent (in order, once,   *)
(*     unchanged), in both directions at the same time, with or without a bandwidth limit;       *)
(*   - it is all of it if neither end closed early;                                              *)
(*   - when either end closes or fails, the other end observes closure within bounded time       *)
(*     (5 s watchdog, DESIGN.md Appendix B) and the server forgets the tunnel.                   *)
(*                                                                                              *)
(* Alphabet (one trace = one behaviour on the real code; events are logged in real-time order    *)
(* under one lock, a Send before its bytes become readable, a Deliver inside the Write call of   *)
(* the bridge, a CloseEnd before it takes effect):                                               *)
(*  Cfg      {lim, mode, via, src}     first event: bandwidth-limit class, gated|free, conn|stream; *)
(*                                     src (optional) = pkt: the source's tunnel connection came     *)
(*                                     through the packet path (Handshake, TunnelOpen), too          *)
(*  Send     {e, dir, n}               end e wrote n more bytes of its counter stream             *)
(*  Attach   {k}                       the target connection was attached to the bridge (k: see   *)
(*                                     TrAttach; fwd = this server is the target's node and       *)
(*                                     forwards the tunnel to the source's node: its source end   *)
(*                                     is the cross-node connection, "forgotten" = the connection *)
(*                                     manager's entry is gone)                                   *)
(*  Deliver  {dir, off, len, eq}       the bridge wrote len bytes to the receiving end of dir;    *)
(*                                     off = the receiver's count so far, eq = they equal the     *)
(*                                     sender's stream at [off, off+len)                          *)
(*  Env      {a, clean, k}             arm | glitch | stall | unstall | routefail | statstall |    *)
(*                                     statresume (the statistics backend stops answering /       *)
(*                                     answers again) | hold (the tunnel outlives the heartbeat   *)
(*                                     timeout) | replace |                                       *)
(*                                     closeold (script bookkeeping; stall = the end stops        *)
(*                                     draining, routefail = the routing store fails deletes);    *)
(*                                     replace carries clean (see TrEnv); glitch carries k: t0 =  *)
(*                                     a Read returns (0, timeout), tn = (n > 0, timeout)         *)
(*  CloseEnd {e, kind, w, x}           close: end e closed its connection; error: it failed for   *)
(*                                     good (every further call returns the error); x (optional) = *)
(*                                     what the error says about itself: tmo = Timeout() but not   *)
(*                                     Temporary(), tmp = Temporary() but not Timeout();           *)
(*                                     w = data: the last bytes come with io.EOF / the error;     *)
(*                                     short: it failed inside a Write after taking part of it;   *)
(*                                     bridge: a third party called Bridge.Close() (e = "-")      *)
(*  Drain    {ok, why}                 the driver waited until everything sent so far was         *)
(*                                     delivered (ok) or no byte moved for 5 s / the tunnel ended *)
(*  Closure  {e, seen}                 whether the bridge closed end e's connection within 5 s    *)
(*                                     of the first CloseEnd (or of Attach, if that came later)   *)
(*  Forgot   {n}                       tunnels left in the server's map 5 s after that instant    *)
(*  Counters {sent, recv}              Bridge.GetBytesSent/Received (recorded, not judged)        *)
(*  Calls    {e, n}                    how many Read / Write calls the server had made, by the    *)
(*                                     end of the watch, on end e's connection AFTER that         *)
(*                                     connection had failed: a permanent failure ends the copy   *)
(*                                     loops - a handful of calls (each loop learns of it once),  *)
(*                                     not a busy loop on a dead connection                       *)
(*  Crash    {fn}                      the (child) server process died of a Go panic whose topmost *)
(*                                     frame is the tunnox-core function fn; fn = typed-nil-conn: *)
(*                                     the server called a method on a nil connection it had      *)
(*                                     wrapped in an interface (a nil dereference in production)  *)
(*                                                                                              *)
(* "Closed early" is read from the trace: the completeness clause is demanded                    *)
(*   (a) at every Drain that happens while no end has closed or failed, and                      *)
(*   (b) for the bytes of an end that closed gracefully after its last write while everything    *)
(*       the peer had sent was already delivered and the peer stayed silent and open afterwards. *)
(* In every other case (a close or failure while bytes were outstanding, a failed end, a third   *)
(* party closing the bridge) only the prefix clause applies.                                     *)
EXTENDS VLib

VARIABLES cfg,        \* the Cfg record of the current trace (or Nil)
          sent,       \* [dir -> bytes written by the feeding end]
          delivered,  \* [dir -> bytes delivered to the receiving end]
          attached,
          ended,      \* "none" or the kind of the first CloseEnd
          ender,      \* the end of the first CloseEnd
          tail,       \* TRUE while clause (b) is still demanded for `ender`
          stale,      \* the source was replaced and the replaced connection is still open
          void,       \* directions for which nothing is demanded any more (unclean source replacement)
          fault,      \* the injected transport behaviour of this trace ("" = none), part of every detail key
          kind        \* how the target was attached ("" = SetTargetConnection called directly)
vars == <<l, viol, cfg, sent, delivered, attached, ended, ender, tail, stale, void, fault, kind>>

Dirs == {"s2t", "t2s"}
Nil == [lim |-> "?", mode |-> "?", via |-> "?"]
Zero == [d \in Dirs |-> 0]
OutOf(e) == IF e = "S" THEN "s2t" ELSE "t2s"
Other(e) == IF e = "S" THEN "T" ELSE "S"

Init == /\ l = 1 /\ viol = {} /\ cfg = Nil /\ sent = Zero /\ delivered = Zero /\ attached = FALSE
        /\ ended = "none" /\ ender = "-" /\ tail = FALSE /\ stale = FALSE /\ void = {} /\ fault = "" /\ kind = ""

Add(c, d) == viol' = viol \cup {V(c, d)}
Also(x) == IF fault = "" THEN x ELSE fault \o "," \o x      \* injected faults accumulate in script order
Ctx == "lim=" \o cfg.lim \o (IF fault = "" THEN "" ELSE ":" \o fault)
\* violations that can only be told apart from others by the replaced, still open source connection
\* carry that fact in front (so that one known-finding key can name them)
\* (likewise the closure / forgetting clauses of a tunnel this server forwards to the source's node)
St(x) == IF stale THEN "stale-source:" \o x ELSE IF kind = "fwd" THEN "forwarded:" \o x ELSE x

TrCfg == /\ Is("Cfg") /\ l' = l + 1
         /\ cfg' = [lim |-> Ev.lim, mode |-> Ev.mode, via |-> Ev.via]
         /\ fault' = (IF Has("src") THEN Also("source=" \o Ev.src) ELSE fault)
         /\ UNCHANGED <<viol, sent, delivered, attached, ended, ender, tail, stale, void, kind>>

TrSend == /\ Is("Send") /\ l' = l + 1
          /\ sent' = [sent EXCEPT ![Ev.dir] = @ + Ev.n]
          \* the peer of a gracefully closed end speaks again: clause (b) no longer applies
          /\ tail' = (tail /\ Ev.e = ender)
          /\ UNCHANGED <<viol, cfg, delivered, attached, ended, ender, stale, void, fault, kind>>

\* k (optional): pkt = through the packet path (Handshake, TunnelOpen), xnode = from another node through
\* the cross-node listener; absent = SetTargetConnection called directly
TrAttach == /\ Is("Attach") /\ l' = l + 1 /\ attached' = TRUE
            /\ fault' = (IF Has("k") THEN Also("attach=" \o Ev.k) ELSE fault)
            /\ kind' = (IF Has("k") THEN Ev.k ELSE kind)
            /\ UNCHANGED <<viol, cfg, sent, delivered, ended, ender, tail, stale, void>>

TrDeliver ==
  /\ Is("Deliver") /\ l' = l + 1
  /\ delivered' = [delivered EXCEPT ![Ev.dir] = @ + Ev.len]
  /\ IF Ev.dir \in void THEN viol' = viol
     ELSE IF ~attached THEN Add("Prefix", "before-attach:" \o Ev.dir \o ":" \o Ctx)
     ELSE IF Ev.off # delivered[Ev.dir] THEN Add("Prefix", "gap-or-duplicate:" \o Ev.dir \o ":" \o Ctx)
     ELSE IF ~Ev.eq THEN Add("Prefix", "corrupt:" \o Ev.dir \o ":" \o Ctx)
     ELSE IF delivered[Ev.dir] + Ev.len > sent[Ev.dir] THEN Add("Prefix", "beyond-sent:" \o Ev.dir \o ":" \o Ctx)
     ELSE viol' = viol
  /\ UNCHANGED <<cfg, sent, attached, ended, ender, tail, stale, void, fault, kind>>

\* replace: the source client re-opened the tunnel on a new connection.  The statement does not speak
\* about reconnects; the judge keeps demanding the pipe clauses for the logical source end only after a
\* clean handover (clean = nothing the source wrote on the old connection was still unread there);
\* otherwise nothing is demanded for s2t any more.
TrEnv == /\ Is("Env") /\ l' = l + 1
         /\ stale' = (IF Ev.a = "replace" THEN TRUE ELSE IF Ev.a = "closeold" THEN FALSE ELSE stale)
         /\ void' = (IF Ev.a = "replace" /\ ~Ev.clean THEN void \cup {"s2t"} ELSE void)
         /\ tail' = (tail /\ Ev.a # "replace")
         /\ fault' = (IF Ev.a = "glitch" THEN Also(IF Ev.k = "tn" THEN "read=data+timeout" ELSE IF Ev.k = "tp" THEN "read=polling" ELSE "read=timeout")
                      ELSE IF Ev.a = "arm" THEN Also("write=short")
                      ELSE IF Ev.a = "stall" THEN Also("write=stalled")
                      ELSE IF Ev.a = "routefail" THEN Also("route=delete-fails")
                      ELSE IF Ev.a = "statstall" THEN Also("stats=stalled")
                      ELSE IF Ev.a = "hold" THEN Also("held>heartbeat") ELSE fault)
         /\ UNCHANGED <<viol, cfg, sent, delivered, attached, ended, ender, kind>>

TrCloseEnd ==
  /\ Is("CloseEnd") /\ l' = l + 1
  /\ IF ended = "none"
     THEN /\ ended' = Ev.kind /\ ender' = Ev.e
          \* clause (b): graceful, nothing outstanding towards the closing end
          /\ tail' = (Ev.kind = "close" /\ ~stale /\ delivered[OutOf(Other(Ev.e))] = sent[OutOf(Other(Ev.e))])
     ELSE /\ ended' = ended /\ ender' = ender
          /\ tail' = FALSE                       \* a second end closed or failed
  /\ fault' = (LET f1 == IF Has("x") THEN Also("error=" \o Ev.x) ELSE fault
                   f2 == IF f1 = "" THEN (IF Ev.kind = "close" THEN "read=data+eof" ELSE "read=data+error")
                         ELSE f1 \o "," \o (IF Ev.kind = "close" THEN "read=data+eof" ELSE "read=data+error")
               IN IF Has("w") /\ Ev.w = "data" THEN f2 ELSE f1)
  /\ UNCHANGED <<viol, cfg, sent, delivered, attached, stale, void, kind>>

\* clause (a); the judge recounts, it does not rely on the driver's flag
Short == {d \in Dirs \ void : delivered[d] # sent[d]}
TrDrain ==
  /\ Is("Drain") /\ l' = l + 1
  /\ IF ended = "none" /\ attached /\ ~stale /\ Short # {}
     THEN Add("Complete", Ctx \o ":" \o (IF Ev.ok THEN "miscounted" ELSE Ev.why) \o ":" \o
                          (IF Short = Dirs THEN "both" ELSE IF "s2t" \in Short THEN "s2t" ELSE "t2s"))
     ELSE viol' = viol
  /\ UNCHANGED <<cfg, sent, delivered, attached, ended, ender, tail, stale, void, fault, kind>>

Judged == ended \in {"close", "error", "short"}
EndCtx == "end=" \o ender \o ":" \o ended \o ":" \o Ctx

TrClosure ==
  /\ Is("Closure") /\ l' = l + 1
  /\ IF Judged /\ attached /\ Ev.e = Other(ender) /\ ~Ev.seen
     THEN Add("Closure", St("not-observed:" \o EndCtx)) ELSE viol' = viol
  /\ UNCHANGED <<cfg, sent, delivered, attached, ended, ender, tail, stale, void, fault, kind>>

TrForgot ==
  /\ Is("Forgot") /\ l' = l + 1
  /\ IF Judged /\ attached /\ Ev.n # 0
     THEN Add("Forgotten", St("still-registered:" \o EndCtx)) ELSE viol' = viol
  /\ UNCHANGED <<cfg, sent, delivered, attached, ended, ender, tail, stale, void, fault, kind>>

\* the server process died with a panic in tunnox-core code while running this tunnel: every tunnel of
\* the server is cut and nothing is "forgotten" in an orderly way
TrCrash == /\ Is("Crash") /\ l' = l + 1
           /\ Add("Crash", IF Ev.fn = "typed-nil-conn" THEN Ev.fn ELSE "panic:" \o Ev.fn)
           /\ UNCHANGED <<cfg, sent, delivered, attached, ended, ender, tail, stale, void, fault, kind>>

\* bounded number of calls on a dead connection (model: NoBusyLoop, at most 2 per direction)
MaxDeadCalls == 4
TrCalls == /\ Is("Calls") /\ l' = l + 1
           /\ IF Ev.n > MaxDeadCalls THEN Add("BusyLoop", St("calls-on-failed-connection:end=" \o Ev.e \o ":" \o Ctx)) ELSE viol' = viol
           /\ UNCHANGED <<cfg, sent, delivered, attached, ended, ender, tail, stale, void, fault, kind>>

TrCounters == /\ Is("Counters") /\ l' = l + 1
              /\ UNCHANGED <<viol, cfg, sent, delivered, attached, ended, ender, tail, stale, void, fault, kind>>

\* clause (b) is settled at the end of the trace (the driver has waited for the tunnel to go away)
TailViol == IF tail /\ attached /\ OutOf(ender) \notin void /\ delivered[OutOf(ender)] # sent[OutOf(ender)]
            THEN {V("Complete", Ctx \o ":graceful-tail-cut:" \o OutOf(ender))} ELSE {}

TrEnd == /\ Is("End")
         /\ PrintT("VERDICT " \o ToJson([tr |-> Ev.tr, viol |-> SetToSeq(viol \cup TailViol)]))
         /\ l' = l + 1
         /\ viol' = {} /\ cfg' = Nil /\ sent' = Zero /\ delivered' = Zero /\ attached' = FALSE
         /\ ended' = "none" /\ ender' = "-" /\ tail' = FALSE /\ stale' = FALSE /\ void' = {} /\ fault' = "" /\ kind' = ""

Next == TrCfg \/ TrSend \/ TrAttach \/ TrDeliver \/ TrEnv \/ TrCloseEnd \/ TrDrain
        \/ TrClosure \/ TrForgot \/ TrCounters \/ TrCalls \/ TrCrash \/ TrEnd
Spec == Init /\ [][Next]_vars
=============================================================================
