\* behaviour generation (C01): every packet sequence x every chunking within the bounds, one
\* "BEH" line per complete behaviour (history kept in the state).
CONSTANTS
  Mode = "honest"
  MaxPkts = @@PKTS@@
  MaxLen = @@LEN@@
  BodyClasses = @@CONTENTS@@
  Flags = @@FLAGS@@
  MaxFrames = 1
  Threads = {1}
  MaxStall = @@STALL@@
  Chunking = "@@CHUNK@@"
  Dev = {}
  Emit = TRUE
INIT Init
NEXT Next
CHECK_DEADLOCK FALSE
