------------------------------- MODULE Commands -------------------------------
(* C11 implementation-shaped model: what a control-channel command does, as a function of    *)
(* the authentication state of the connection it arrives on and of who owns the object it     *)
(* names.  One actor connection c1 goes through the handshake state machine of                *)
(* app/server/auth_handler.go (ControlConnection.ClientID / Authenticated / PendingChallenge; *)
(* same sections as Session.tla, reduced to what command handling can see); three clients     *)
(* A, B, C are online on their own control connections and own a fixed world:                 *)
(*     mapping m1 (listen A, target B)    connection code k1 (owner B, not activated)          *)
(*     HTTP domain d1 (owner B)                                                               *)
(*     mapping m0 (listen client 0 = listened on by the server itself, target B)               *)
(*     mapping mz (listen A, target client 0)                                                  *)
(* so that the actor is, per object, unauthenticated / owner / other party / stranger.        *)
(*                                                                                            *)
(* Cmd(ty, pt, cl, bf, obj) models SessionManager.handleCommandPacket: the special cases          *)
(* (SOCKS5 tunnel request, DNS resolve / query, traffic report, disconnect, proxy response)   *)
(* and CommandExecutor.Execute -> handler for the registered types.  Every handler derives     *)
(* the caller from the connection (executor.createCommandContext / handlers' getClientID /     *)
(* SessionManager.getClientIDFromConnection = ControlConnection.ClientID, 0 when the           *)
(* connection never authenticated); none reads CommandPacket.SenderId / ReceiverId / Token     *)
(* for a decision, which is why Outcome has no claims argument (cl only travels to the driver; *)
(* the judge checks the real code against that: clause ClaimsMatter).  Handlers that consult   *)
(* no identity at all, or skip the "not authenticated" refusal, are modelled as they are and   *)
(* named in Deviating; Fixes says which of the patches/C11-* the modelled tree has:            *)
(*   "trafficParty" HandleTrafficReport refuses unauthenticated connections and non-parties    *)
(*   "dnsAuth"      DNS resolve / query forwarding refuses unauthenticated connections         *)
(*   "domainAuth"   HTTP domain create / list / delete refuse unauthenticated connections      *)
(*   "notifyAuth"   SendNotifyToClientHandler refuses unauthenticated connections              *)
(*   "socksAuth"    the SOCKS5 tunnel request handler refuses unauthenticated connections       *)
(* Devs names deviations nobody has (yet) made - the as-is tree has none; Commands_show_*.cfg    *)
(* select them one at a time and TLC rejects each:                                               *)
(*   "listByIndex"  the list commands keep what the caller's per-client index names and is not   *)
(*                  the caller's own listening mapping, instead of re-checking the record's      *)
(*                  listen / target client (equivalent while index and records agree)            *)
(*   "replayByTypeId" / "replayById"  a response remembered under (type, command id) / the command *)
(*                  id alone answers the next command carrying it, whoever sends it               *)
(*   "faultOpen"    a failed read of the named object's record skips the party check              *)
(* (CommandsExec.tla has the last two at the granularity of the code's steps)                     *)
(*                                                                                            *)
(* Every effect (object returned, added, deleted, modified, packet delivered to a client) is   *)
(* logged with the identity the code acted for (id) and the authentication of the connection.  *)
EXTENDS Naturals, Sequences, FiniteSets, Json, CommandsPolicy

CONSTANTS Sets,     \* row sets driven: {"server", "special"} or {"library"}
          WVs,      \* world variants explored: states of the named objects when the behaviour starts
                    \*   "base"     m1 active, k1 fresh, d1 active
                    \*   "expired"  m1 / k1 / d1 past their expiry but still stored
                    \*   "revoked"  m1 revoked, k1 revoked
                    \*   "inactive" m1 and d1 switched to status inactive
                    \*   "migrated" a history that re-owns: CloudControl.MigrateClientMappings(A, C) made C the listen
                    \*              client of A's mappings (m1, mz); A's per-client index still names them
                    \*   "migratedT" the same API called for the TARGET side, MigrateClientMappings(B, C): every mapping
                    \*              filed under B (m1, m0) gets listen client C - A is no party of m1 any more (its index
                    \*              still names m1), the server-listened m0 becomes C's
                    \* (k0, the code that created m1, is always there as the "already activated" code)
          Fixes,    \* see above
          Devs,     \* see above ({} = the tree as it is)
          MaxCmds,  \* commands on c1
          RespToo,  \* TRUE: registered types are also sent in CommandResp packets (the executor does not look)
          Emit      \* TRUE: print one behaviour per explored command transition

Clients == {"A", "B", "C"}
None    == "none"
NoId    == "nobody"          \* the handler consulted no identity
Victim(a) == IF a = "B" THEN "A" ELSE "B"
AllFixes == {"trafficParty", "dnsAuth", "domainAuth", "notifyAuth", "socksAuth"}

VARIABLES cn,     \* c1: [auth, typ, reg, pend (challenge pending for whom), failed, alive]
          ctl,    \* client -> "v" (its own control connection) | "c1": who holds the client-id index entry
          st,     \* store: [wv, m1, m0, mz, m2, k1by, gen, d1, d2, tr]
          ncmd,
          primed, \* <<type, object, out, returned>> of the command another client just sent, whose command id the actor's next command reuses (<<>>: none)
          log,    \* ghost: effects [ty, auth, e] of the latest command (the invariants are evaluated after every command)
          outs,   \* ghost: [ty, auth, out] of the latest command
          hist
vars == <<cn, ctl, st, ncmd, primed, log, outs, hist>>
\* hist is not in the view: every authentication state of c1 is explored once, with the handshake prefix that reached it first
\* (the handshake part of the state space is finite without a bound on the number of messages)
view == <<cn, ctl, st, ncmd, primed, log, outs>>

\* ------------------------------------------------------------------------------------------
\* the store
Present(s)    == (IF s.m1 THEN {"m1"} ELSE {}) \cup (IF s.m2 # None THEN {"m2"} ELSE {})
                 \cup (IF s.m0 THEN {"m0"} ELSE {}) \cup (IF s.mz THEN {"mz"} ELSE {})
\* ListenClientID / TargetClientID as stored; "none" = client id 0 - the same value an unauthenticated connection has
Listen0(s, m) == CASE m \in {"m1", "mz"} -> "A" [] m = "m0" -> None [] OTHER -> s.m2      \* as created
Target(s, m)  == IF m = "mz" THEN None ELSE "B"
\* MigrateClientMappings(from, to): ListenClientID := to on every mapping the index files under from (whatever its role there)
Listen(s, m)  == CASE s.wv = "migrated"  /\ m \in {"m1", "mz"} -> "C"
                   [] s.wv = "migratedT" /\ m \in {"m1", "m0"} -> "C"
                   [] OTHER -> Listen0(s, m)
Parties(s, m) == {Listen(s, m), Target(s, m)} \ {None}
MapsOf(s, a)  == {m \in Present(s) : a \in Parties(s, m)}
\* the per-client index the list commands start from: filled when a mapping is created, not touched by the migration -
\* afterwards it still files m1 under A, and nothing under C
Indexed(s, a) == {m \in Present(s) : a \in {Listen0(s, m), Target(s, m)}}
Listed(s, a)  == Indexed(s, a) \cap MapsOf(s, a)
CodesOf(s, a) == (IF a = "B" THEN {"k1"} ELSE {}) \cup (IF a \in s.gen THEN {"g" \o a} ELSE {})
Doms(s)       == (IF s.d1 THEN {"d1"} ELSE {}) \cup (IF s.d2 # None THEN {"d2"} ELSE {})
DomOwner(s, d) == IF d = "d1" THEN "B" ELSE s.d2
DomsOf(s, a)  == {d \in Doms(s) : DomOwner(s, d) = a}

E(k, o, ps, id, to) == [k |-> k, o |-> o, ps |-> ps, id |-> id, to |-> to]
R(out, es, s) == [out |-> out, effs |-> es, s |-> s]
Fail(s)  == R("fail", {}, s)
Quiet(s) == R("none", {}, s)
Fixed(f) == f \in Fixes

\* rows whose behaviour equals another row (handleCommandPacket does not look at the packet type there)
Base(ty) == CASE ty = "SOCKS5TunnelRequestCmd:resp" -> "SOCKS5TunnelRequestCmd"
              [] ty = "TunnelTrafficReport:resp" -> "TunnelTrafficReport"
              [] ty = "Disconnect:resp" -> "Disconnect"
              [] OTHER -> ty

\* a = ControlConnection.ClientID of c1 ("none" = 0), rg = a ControlConnection exists for c1
\* Storage faults (flt): "read1" = the first read of the named object's main record during the command fails (transient),
\* "readAll" = every read of it fails while the command runs.
\* rows whose handler reads that record for its party check, through the handlers' repositories:
FaultRows == {"MappingGet", "MappingDelete", "HTTPDomainDelete", "ConnectionCodeActivate"}
\* rows handled in the session layer: the mapping is read through the cloud-control adapter
SessionFaultRows == {"SOCKS5TunnelRequestCmd", "TunnelTrafficReport"}
Stored(s, obj) == obj \in Present(s) \cup Doms(s) \cup {"k1", "k0"}
Dev(d) == d \in Devs

DelMap(s, obj) == CASE obj = "m1" -> [s EXCEPT !.m1 = FALSE] [] obj = "m0" -> [s EXCEPT !.m0 = FALSE]
                    [] obj = "mz" -> [s EXCEPT !.mz = FALSE] [] OTHER -> [s EXCEPT !.m2 = None]
DelDom(s, obj) == IF obj = "d1" THEN [s EXCEPT !.d1 = FALSE] ELSE [s EXCEPT !.d2 = None]
\* what a list command answers with; unreadable records are left out (GetClientPortMappings skips them)
ListSet(s, a, dir, flt) ==
  (IF Dev("listByIndex")
   THEN {x \in Indexed(s, a) : CASE dir = "inbound" -> Listen(s, x) # a [] dir = "outbound" -> Listen(s, x) = a [] OTHER -> TRUE}
   ELSE {x \in Listed(s, a) : CASE dir = "inbound" -> Target(s, x) = a [] dir = "outbound" -> Listen(s, x) = a [] OTHER -> TRUE})
  \ (IF flt = "readAll" THEN {"m1"} ELSE {})

Outcome(s, a, rg, ty0, obj, flt) ==
  LET ty == Base(ty0) IN
  CASE Dev("faultOpen") /\ flt # "none" /\ ty \in {"MappingGet", "MappingDelete", "HTTPDomainDelete"} /\ Stored(s, obj) /\ a # None ->
         \* deviation: the unreadable record is taken for a half-deleted object; on to the effect, no party check
         (CASE ty = "MappingGet" -> IF flt = "read1" THEN R("ok", {E("ret", obj, Parties(s, obj), a, None)}, s) ELSE Fail(s)
            [] ty = "MappingDelete" -> R("ok", {E("del", obj, Parties(s, obj), a, None)}, DelMap(s, obj))
            [] OTHER -> R("ok", {E("del", obj, {DomOwner(s, obj)}, a, None)}, DelDom(s, obj)))
    [] flt # "none" /\ ty \in FaultRows /\ Stored(s, obj) /\ a # None -> Fail(s)   \* unreadable record: no party check possible, refused
    [] flt # "none" /\ ty \in FaultRows /\ a = None /\ ty = "HTTPDomainDelete" /\ ~Fixed("domainAuth") /\ Stored(s, obj) -> Fail(s)
    \* session layer: the tunnel request reads the mapping first and fails; the traffic report ignores an unreadable mapping
    [] flt # "none" /\ ty = "SOCKS5TunnelRequestCmd" /\ obj \in Present(s) -> Fail(s)
    [] flt # "none" /\ ty = "TunnelTrafficReport" /\ obj \in Present(s) -> IF Fixed("trafficParty") /\ a = None THEN Fail(s) ELSE Quiet(s)
    [] ty \in {"ConfigGet", "MappingList"} ->
         \* MappingList: obj is the direction argument ("none" = both); a fault there is on m1's record
         IF a = None THEN Fail(s)
         ELSE R("ok", {E("ret", m, Parties(s, m), a, None) : m \in ListSet(s, a, obj, flt)}, s)
    [] ty = "ConnectionCodeGenerate" ->
         IF a = None THEN Fail(s) ELSE R("ok", {E("add", "g" \o a, {a}, a, None)}, [s EXCEPT !.gen = @ \cup {a}])
    [] ty = "ConnectionCodeList" ->
         \* an expired, never activated code is not listed (the service also deletes it, asynchronously: not modelled)
         IF a = None THEN Fail(s) ELSE R("ok", {E("ret", k, {a}, a, None) : k \in CodesOf(s, a) \ (IF s.wv = "expired" THEN {"k1"} ELSE {})}, s)
    [] ty = "ConnectionCodeActivate" ->
         IF a = None \/ obj # "k1" \/ s.k1by # None \/ s.m2 # None \/ s.wv \in {"expired", "revoked"} THEN Fail(s)   \* k0: already used
         ELSE R("ok", {E("add", "m2", {a, "B"}, a, None), E("mod", "k1", {"B"}, a, None)}, [s EXCEPT !.m2 = a, !.k1by = a])
    [] ty = "MappingGet" ->
         IF a = None \/ obj \notin Present(s) THEN Fail(s)
         ELSE IF a \notin Parties(s, obj) THEN Fail(s)
         ELSE R("ok", {E("ret", obj, Parties(s, obj), a, None)}, s)
    [] ty = "MappingDelete" ->
         IF a = None \/ obj \notin Present(s) THEN Fail(s)
         ELSE IF a \notin Parties(s, obj) THEN Fail(s)
         ELSE R("ok", {E("del", obj, Parties(s, obj), a, None)}, DelMap(s, obj))
    [] ty \in {"HTTPDomainGetBaseDomains", "HTTPDomainCheckSubdomain", "HTTPDomainGenSubdomain", "RpcInvoke"} -> R("ok", {}, s)
    [] ty = "HTTPDomainCreate" ->
         \* unauthenticated: refused by the patched handler; before the patch by HTTPDomainMapping.Validate (client id must be positive)
         IF a = None \/ s.d2 # None THEN Fail(s) ELSE R("ok", {E("add", "d2", {a}, a, None)}, [s EXCEPT !.d2 = a])
    [] ty = "HTTPDomainList" ->
         IF a = None THEN (IF Fixed("domainAuth") THEN Fail(s) ELSE R("ok", {}, s))      \* deviation: answers "success, no mappings"
         ELSE R("ok", {E("ret", d, {a}, a, None) : d \in DomsOf(s, a)}, s)
    [] ty = "HTTPDomainDelete" ->
         IF a = None /\ Fixed("domainAuth") THEN Fail(s)
         ELSE IF obj \notin Doms(s) THEN R("ok", {}, s)                                  \* "already deleted" is a success (deviation when a = none)
         ELSE IF DomOwner(s, obj) # a THEN Fail(s)
         ELSE R("ok", {E("del", obj, {a}, a, None)}, DelDom(s, obj))
    [] ty = "SOCKS5TunnelRequestCmd" ->
         \* "source client = ListenClientID" is the whole check: for a server-listened mapping (listen id 0) it is met by
         \* exactly the connections that never authenticated - unless "socksAuth" refuses those first
         IF obj \notin Present(s) \/ a # Listen(s, obj) \/ (a = None /\ Fixed("socksAuth")) THEN Fail(s)
         ELSE IF Target(s, obj) = None THEN Fail(s)                                          \* client 0 is never online
         ELSE R("none", {E("deliv", obj, {Listen(s, obj)}, a, Target(s, obj))}, s)
    [] ty = "TunnelTrafficReport" ->
         IF Fixed("trafficParty")
         THEN (IF a = None THEN Fail(s)
               ELSE IF obj \notin Present(s) THEN Quiet(s)                                 \* "the mapping may have been deleted": silently ignored
               ELSE IF a \notin Parties(s, obj) THEN Fail(s)
               ELSE R("none", {E("mod", obj, Parties(s, obj), a, None)}, [s EXCEPT !.tr[obj] = @ + 1]))
         ELSE (IF obj \notin Present(s) THEN Quiet(s)
               ELSE R("none", {E("mod", obj, Parties(s, obj), NoId, None)}, [s EXCEPT !.tr[obj] = @ + 1]))   \* deviation: no identity, no party check
    [] ty \in {"DNSResolve", "DNSQuery"} ->
         IF obj = "explicit"
         THEN (IF Fixed("dnsAuth") /\ a = None THEN Fail(s)
               ELSE R(IF rg THEN "ok" ELSE "fail",                                        \* the answer is relayed only to a registered connection
                      {E("deliv", "dns", {Victim(a)}, IF Fixed("dnsAuth") THEN a ELSE NoId, Victim(a))}, s))  \* deviation: target taken from the packet, caller never looked at
         \* (taken from the caller's index without looking at the parties: after the migration A still resolves through m1)
         ELSE (IF a = None \/ {m \in Indexed(s, a) : m = "m1" /\ s.wv \notin {"inactive", "revoked"}} = {} THEN Fail(s)   \* default target: an ACTIVE socks mapping (revoking makes it inactive)
               ELSE R("ok", {E("deliv", "dns", {"B"}, a, "B")}, s))                       \* default target: target client of the caller's own mapping
    [] ty = "SendNotifyToClient" ->
         IF a = None /\ Fixed("notifyAuth") THEN Fail(s)
         ELSE R("ok", {E("deliv", "notify", {Victim(a)}, a, Victim(a))}, s)               \* deviation when a = none: sender id 0
    [] OTHER -> Quiet(s)    \* replies without a pending request, the connection's own disconnect, oneway stubs

Deviating(ty0) == LET ty == Base(ty0) IN
     (ty = "TunnelTrafficReport" /\ ~Fixed("trafficParty"))
  \/ (ty \in {"DNSResolve", "DNSQuery"} /\ ~Fixed("dnsAuth"))
  \/ (ty \in {"HTTPDomainList", "HTTPDomainDelete"} /\ ~Fixed("domainAuth"))
  \/ (ty = "SendNotifyToClient" /\ ~Fixed("notifyAuth"))
  \/ (ty = "SOCKS5TunnelRequestCmd" /\ ~Fixed("socksAuth"))

\* ------------------------------------------------------------------------------------------
\* what the environment may send
Rows == {t \in Types : Policy[t].set \in Sets}
IsResp(t) == t \in {"DNSResolve:resp", "DNSQuery:resp", "HTTPProxyResponse:resp", "Disconnect:resp",
                    "SOCKS5TunnelRequestCmd:resp", "TunnelTrafficReport:resp"}
PTs(t) == IF IsResp(t) THEN {"resp"}
          ELSE IF RespToo /\ Policy[t].set # "special" THEN {"cmd", "resp"} ELSE {"cmd"}
ObjsFor(s, t0) == LET t == Base(t0) IN
  CASE t \in {"MappingGet", "MappingDelete", "SOCKS5TunnelRequestCmd", "TunnelTrafficReport"} -> Present(s) \cup {"m1", "absent"}
    [] t = "ConnectionCodeActivate" -> {"k1", "k0", "absent"}
    [] t = "MappingList" -> {"none", "inbound", "outbound"}
    [] t = "HTTPDomainDelete" -> Doms(s) \cup {"d1", "absent"}
    [] t \in {"DNSResolve", "DNSQuery"} -> {"explicit", "default"}
    [] t = "SendNotifyToClient" -> {"explicit"}
    [] OTHER -> {"none"}
\* claimed identity fields only travel to the driver (no handler reads them for a decision): enumerated when
\* behaviours are emitted, for the rows that carry a demand, in the base world.  <<envelope, body>>:
\*   envelope = SenderId / ReceiverId / Token of the CommandPacket
\*   body     = client-id fields inside the JSON body (target_client_id of the tunnel request, and client_id /
\*              listen_client_id / sender_client_id / owner_client_id / user_id on every request)
\*   "own" = the caller's id, "victim" = another party, "third" = a client that is neither
\* (with the plain authentication states of c1 - never authenticated, or authenticated as A / B / C by a control
\* handshake: the other states differ from these only in the handshake history, which the base matrix covers)
PlainState == cn.pend = None /\ ~cn.failed /\ cn.typ # "tunnel"
ClaimPairs(s, t) == IF Emit /\ Policy[t].need /\ s.wv = "base" /\ PlainState
                    THEN {<<"absent", "absent">>, <<"own", "absent">>, <<"victim", "absent">>,
                          <<"absent", "own">>, <<"absent", "third">>, <<"absent", "victim">>}
                    ELSE {<<"absent", "absent">>}

\* one command = row x packet type x object x variant [cl, bf, cid, flt]:
\*   cid  "reused": the CommandId (client chosen) is the one another client's command just carried
\*   flt  see Outcome
Plain == [cl |-> "absent", bf |-> "absent", cid |-> "fresh", flt |-> "none"]
\* (exhaustive runs explore the fault dimension on the first command only - a refused command leaves the state unchanged,
\* so later positions add transitions but no states; the generators vary it everywhere)
Faults(s, t, obj) == IF ~Emit /\ ncmd > 0 THEN {} ELSE
       (IF Base(t) \in FaultRows /\ Stored(s, obj) /\ s.wv = "base" THEN {"read1", "readAll"} ELSE {})
  \cup (IF Base(t) \in SessionFaultRows /\ obj \in Present(s) /\ s.wv = "base" THEN {"read1"} ELSE {})
  \cup (IF t = "MappingList" /\ s.m1 /\ s.wv \in {"base", "migrated"} THEN {"readAll"} ELSE {})
Variants(s, t, obj) ==
  IF primed # <<>> THEN {[Plain EXCEPT !.cid = "reused"]}
  ELSE {[Plain EXCEPT !.cl = cp[1], !.bf = cp[2]] : cp \in ClaimPairs(s, t)}
       \cup {[Plain EXCEPT !.flt = f] : f \in Faults(s, t, obj)}
       \* two dimensions at once where a fallback suggests itself: the tunnel request cannot read the mapping AND
       \* its body names a target client
       \cup (IF Base(t) = "SOCKS5TunnelRequestCmd" /\ obj \in Present(s) /\ s.wv = "base" /\ Emit /\ PlainState
            THEN {[Plain EXCEPT !.flt = "read1", !.bf = b] : b \in {"third", "victim"}} ELSE {})
\* who sends the priming command: a party for whom it succeeds (the listen client for the tunnel request)
Primer(t) == IF Base(t) = "SOCKS5TunnelRequestCmd" THEN "A" ELSE "B"

HistClass == IF cn.auth = None THEN (IF ~cn.reg THEN "fresh" ELSE IF cn.pend # None THEN "challenged" ELSE "failed")
             ELSE cn.typ \o (IF cn.pend # None THEN "+challenged" ELSE IF cn.failed THEN "+failedReauth" ELSE "")

Out(h) == IF Emit THEN PrintT("BEH " \o ToJson([reg |-> IF "library" \in Sets THEN "library" ELSE "server", wv |-> st.wv, steps |-> h])) ELSE TRUE

\* ------------------------------------------------------------------------------------------
\* handshake messages on c1 (HandleHandshake; Session.tla has the full machine)
P1(X, t) ==
  /\ cn.alive /\ ncmd = 0 /\ primed = <<>>
  /\ cn.auth # None => X = Victim(cn.auth)       \* after authentication only attempts for another identity are explored, and they fail
  /\ cn' = [cn EXCEPT !.reg = TRUE, !.pend = X]
  /\ hist' = Append(hist, [op |-> "Hs", k |-> "P1", id |-> X, resp |-> None, type |-> t])
  /\ UNCHANGED <<ctl, st, ncmd, primed, log, outs>>

\* r = "valid": the HMAC of X's key over the pending challenge; "garbage": anything else
P2(X, r, t) ==
  /\ cn.alive /\ ncmd = 0 /\ primed = <<>>
  /\ cn.pend = X
  /\ r = "valid" => cn.auth = None
  /\ cn' = IF r = "valid" THEN [cn EXCEPT !.auth = X, !.typ = t, !.pend = None, !.failed = FALSE]
                          ELSE [cn EXCEPT !.pend = None, !.failed = TRUE]
  /\ ctl' = IF r = "valid" /\ t = "control" THEN [ctl EXCEPT ![X] = "c1"] ELSE ctl      \* eviction of the previous holder
  /\ hist' = Append(hist, [op |-> "Hs", k |-> "P2", id |-> X, resp |-> r, type |-> t])
  /\ UNCHANGED <<st, ncmd, primed, log, outs>>

\* another client (online on its own control connection) sends a command of type ty with command id X and is
\* answered; the actor's next command of that type carries the same id
Prime(ty, obj) ==
  /\ cn.alive /\ ncmd = 0 /\ primed = <<>> /\ PlainState /\ st.wv = "base"
  /\ Policy[ty].need /\ ~IsResp(ty) /\ ctl[Primer(ty)] = "v"
  /\ ~(ty = "ConnectionCodeGenerate" /\ Primer(ty) \in st.gen) /\ ~(ty = "HTTPDomainCreate" /\ st.d2 # None)
  /\ LET a == Primer(ty)
         r == Outcome(st, a, TRUE, ty, obj, "none")
     IN /\ st' = r.s
        /\ log' = {[ty |-> ty, auth |-> a, e |-> e] : e \in r.effs}
        /\ outs' = {[ty |-> ty, auth |-> a, out |-> r.out]}
        /\ hist' = Append(hist, [op |-> "Prime", ty |-> ty, obj |-> obj, by |-> a])
        /\ primed' = <<ty, obj, r.out, {e \in r.effs : e.k = "ret"}>>
  /\ UNCHANGED <<cn, ctl, ncmd>>

Cmd(ty, pt, v, obj) ==
  /\ cn.alive /\ ncmd < MaxCmds
  \* the reused command id travels on a command of the same type, or - after B's MappingGet of m1 - of any type with a demand
  /\ primed # <<>> => ty = primed[1] \/ (primed[1] = "MappingGet" /\ primed[2] = "m1" /\ Policy[ty].need /\ pt = "cmd")
  /\ (Emit /\ st.wv # "base") => PlainState /\ Policy[ty].need   \* world variants: plain authentication states, rows with a demand
  /\ ~(ty = "ConnectionCodeGenerate" /\ cn.auth \in st.gen)
  /\ ~(ty = "HTTPDomainCreate" /\ st.d2 # None)
  /\ LET replayed == /\ primed # <<>> /\ primed[3] = "ok" /\ Policy[ty].set = "server"     \* (deviations) duplex commands of the executor
                     /\ (Dev("replayById") \/ (Dev("replayByTypeId") /\ ty = primed[1]))
         r == IF replayed THEN R("ok", primed[4], st)       \* the primer's answer, produced for the primer
              ELSE Outcome(st, cn.auth, cn.reg, ty, obj, v.flt)
         h == Append(hist, [op |-> "Cmd", ty |-> ty, pt |-> pt, claims |-> v.cl, bf |-> v.bf, cid |-> v.cid, flt |-> v.flt,
                            obj |-> obj, hc |-> HistClass, exp |-> [out |-> r.out, effs |-> r.effs]])
     IN /\ st' = r.s
        /\ log' = {[ty |-> ty, auth |-> cn.auth, e |-> e] : e \in r.effs}
        /\ outs' = {[ty |-> ty, auth |-> cn.auth, out |-> r.out]}
        /\ cn' = IF Base(ty) = "Disconnect" /\ cn.reg THEN [cn EXCEPT !.alive = FALSE] ELSE cn
        /\ hist' = h
        /\ Out(h)
  /\ ncmd' = ncmd + 1 /\ primed' = <<>>
  /\ UNCHANGED ctl

PolicyOut == IF Emit THEN PrintT("BEH " \o ToJson([policy |-> [t \in Types |-> Policy[t]],
                                                  reg |-> IF "library" \in Sets THEN "library" ELSE "server"]))
             ELSE TRUE

Init ==
  /\ cn = [auth |-> None, typ |-> None, reg |-> FALSE, pend |-> None, failed |-> FALSE, alive |-> TRUE]
  /\ ctl = [X \in Clients |-> "v"]
  /\ \E w \in WVs : st = [wv |-> w, m1 |-> TRUE, m0 |-> TRUE, mz |-> TRUE, m2 |-> None, k1by |-> None, gen |-> {}, d1 |-> TRUE, d2 |-> None, tr |-> [m \in {"m1", "m2", "m0", "mz"} |-> 0]]
  /\ ncmd = 0 /\ primed = <<>> /\ log = {} /\ outs = {} /\ hist = <<>>
  /\ PolicyOut

Next == \/ \E X \in Clients, t \in {"control", "tunnel"} : P1(X, t) \/ \E r \in {"valid", "garbage"} : P2(X, r, t)
        \/ \E ty \in Rows : \E pt \in PTs(ty), obj \in ObjsFor(st, ty) : \/ \E v \in Variants(st, ty, obj) : Cmd(ty, pt, v, obj)
                                                                         \/ (pt = "cmd" /\ Prime(ty, obj))
Spec == Init /\ [][Next]_vars

\* ------------------------------------------------------------------------------------------
\* the property (C11), on everything the non-deviating handlers did; with Fixes = AllFixes
\* nothing is masked
Checked     == {x \in log : ~Deviating(x.ty)}
CheckedOuts == {y \in outs : ~Deviating(y.ty)}
Need(ty)    == Policy[ty].need

TypeOK == /\ cn.auth \in Clients \cup {None} /\ cn.typ \in {None, "control", "tunnel"}
          /\ (cn.auth # None => cn.reg) /\ (cn.pend # None => cn.reg)
          /\ st.m2 \in Clients \cup {None} /\ st.d2 \in Clients \cup {None} /\ st.gen \subseteq Clients
          /\ \A X \in Clients : ctl[X] = "c1" => cn.auth = X /\ cn.typ = "control"
\* every effect was produced for the identity authenticated on the connection
EffIdIsAuth == \A x \in Checked : Need(x.ty) => x.e.id = x.auth
\* an unauthenticated connection causes no effect and is not told "success"
UnauthNoEffect == \A x \in Checked : Need(x.ty) => x.auth # None
UnauthRefused  == \A y \in CheckedOuts : (Need(y.ty) /\ y.auth = None) => y.out # "ok"
\* a client reads / lists / deletes / reports / uses only objects it is a party to
\* (for the tunnel request the party set is the listen client alone; "reach" rows have no object)
\* "bearer": whoever presents a connection code may consume it - marking it used is not a party question
PartyOnly == \A x \in Checked : (Need(x.ty) /\ Policy[x.ty].cls # "reach" /\ ~(Policy[x.ty].cls = "bearer" /\ x.e.k = "mod"))
                                   => x.auth \in x.e.ps
\* what is created belongs to the caller
CreatedForCaller == \A x \in Checked : (Need(x.ty) /\ x.e.k = "add") => x.auth \in x.e.ps /\ x.e.id = x.auth
\* a delivery caused through an object goes to a party of that object
DeliveredToParty == \A x \in Checked : (Need(x.ty) /\ x.e.k = "deliv" /\ Policy[x.ty].cls = "obj") =>
                        x.e.to \in Parties(st, x.e.o) \/ x.e.o \notin Present(st)
=============================================================================
