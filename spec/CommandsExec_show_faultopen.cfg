\* Documentation only (not run by the check): an unreadable main record sends the handler on to the effect
\* without the party check - the class of seeded change C11-r3m3.  TLC reports PartyOnly:
\* the stranger C: MappingDelete m1, ReadFault, EffectOk (transient fault: the repository's own read succeeds,
\* record and index entries are deleted) or EffectFault (persistent: orphan clean-up strips the index lists).
CONSTANTS
  ReplayKey = "none"
  OnReadFault = "open"
  Actors = {"none", "C", "A"}
  MaxFaults = 2
  Emit = FALSE
INIT Init
NEXT Next
INVARIANTS TypeOK UnauthRefused UnauthNoChange OwnExecution PartyOnly
CHECK_DEADLOCK FALSE
