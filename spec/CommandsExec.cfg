\* C11, one duplex command step by step (replay lookup / identity / record read / party check / effect / response).
\* Substituted by the driver: REPLAY ("none" = the code as it is; "conn+type+id" = a per-connection cache, harmless),
\* EMIT.  The rejected deviations: CommandsExec_show_*.cfg.
CONSTANTS
  ReplayKey = @@REPLAY@@
  OnReadFault = "refuse"
  Actors = {"none", "C", "A"}
  MaxFaults = 2
  Emit = @@EMIT@@
INIT Init
NEXT Next
INVARIANTS TypeOK UnauthRefused UnauthNoChange OwnExecution PartyOnly EmitBeh
CHECK_DEADLOCK FALSE
