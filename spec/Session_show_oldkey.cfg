\* Documentation only (not run by the check): named deviation "oldKeyAccepted" of Session.tla -
\* the secret that ResetSecretKey replaced still verifies: the holder of a revoked key is authenticated.
\* TLC reports StepsOK / OnlyProven violated; the same configuration with Faults = {} (Session_c03key.cfg) passes.
CONSTANTS
  Conn <- Conn2
  Client <- Client2
  MaxNonce = 2
  MaxFail = 3
  MaxCtl = 0
  Faults = {"oldKeyAccepted"}
  Ops = {"Msg", "Corrupt", "Rekey"}
  Types = {"control"}
  PreAccept = TRUE
  Fixes = {"oneIdentity", "atomicEvict"}
  Split = FALSE
  MaxLevel = 6
  Emit = "no"
INIT Init
NEXT Next
VIEW view
INVARIANTS TypeOK OnlyProven StepsOK ProvenIssued C07InvMasked C07OneMasked
CHECK_DEADLOCK FALSE
