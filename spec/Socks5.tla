------------------------------- MODULE Socks5 -------------------------------
(* C20 design model and behaviour generator.                                                    *)
(*                                                                                              *)
(* 1. The structured input space of the property as ABSTRACT CASES: every path of the RFC 1928   *)
(*    grammar (greeting / RFC 1929 sub-negotiation / request, and the UDP request header) over   *)
(*    the value classes  VER {5, other}, NMETHODS {0,1,2,255}, METHODS {none, no-auth, user/pass, *)
(*    both}, credentials {good, bad, bad version}, CMD {1,2,3,other}, RSV {0, other},            *)
(*    ATYP {1,3,4,other}, domain length DLens, trailing payload {0,3 bytes}, FRAG {0, other},    *)
(*    ADDRESS VALUE CLASSES (acl: IPv4 zero/bcast/vdns/loop, IPv6 unspec/loop/mapped/compat/...,   *)
(*    dch: names that are numeric, IP literals in several spellings, trailing dot, upper case),   *)
(*    crossed with a truncation point (before every field, inside every multi-byte field) and a  *)
(*    chunking class (all at once, one message per chunk, byte by byte, split inside fields).    *)
(* 2. An implementation-shaped parser: one ConnRead action per Read call on the connection (it   *)
(*    returns what the current chunk still holds, at most what was asked for), full reads of      *)
(*    each fixed/variable field, one decision per completed field.  The deviation "greedy first   *)
(*    read" (read up to 257 bytes, keep 2+NMETHODS, drop the rest) is a named alternative that     *)
(*    sets the ghost flag `dev`; so is the UDP parser's "refuse everything shorter than           *)
(*    UdpMinLen bytes" (RFC: the shortest header is 4+1+0+2 = 7 bytes).                           *)
(*    The parsers hand an address on as TEXT (Socks5Ref: RenderIP / RenderNetip) and the UDP      *)
(*    encoder classifies that text again (EncodeText): the deviation NetipText ("IP addresses are  *)
(*    printed with net/netip") is harmless where the text is only dialled and breaks the UDP round  *)
(*    trip for IPv4-mapped IPv6 addresses, where parser and encoder disagree about the text.        *)
(* 3. Invariants: the model parser, under every chunking and truncation, produces exactly what     *)
(*    the byte-level reference (Socks5Ref) assigns and what the judge demands (HsViol = {}),       *)
(*    never consumes past the message, always terminates; UDP Build/Parse round trips.             *)
(* 4. Generation: one "BEH" line per (case, chunking) when its run reaches "done".                 *)
EXTENDS Socks5Ref, Json

CONSTANTS Emit,        \* print behaviours
          Profiles,    \* server profiles to generate negotiation cases for
          Greedy,      \* profiles whose greeting read is greedy (deviation; {} on a conforming tree)
          UdpMinLen,   \* datagrams shorter than this are refused outright (7 conforming; 10 = deviation)
          Full,        \* TRUE: full product of greeting x request classes; FALSE: stage-wise
          DLens,       \* domain length representatives, e.g. {0,1,2,7,255} (7 stands for "mid")
          Chunkings,   \* subset of {"all","msg","bytes","split"} for complete messages
          CutChunkings,\* ... and for truncated ones
          PlainJoin,   \* profiles that build "host:port" by plain concatenation (deviation; {} on a conforming tree)
          NetipText,   \* code paths ("listener", "adapter", "adapterauth", "udp") whose parser renders IP addresses with
                       \* net/netip instead of net.IP (deviation where an encoder reads the text back; {} on a conforming tree)
          ValClasses,  \* TRUE: the address value classes of Socks5Ref (V4Classes, V6Classes, name classes) are enumerated
          WithUdp

VARIABLES c, ch, stream, bounds, ref, pc, pos, got, want, fs, wrote, out, dev
\* (ref = what the byte-level reference assigns to `stream`; computed once per case, never changed)
vars == <<c, ch, stream, bounds, ref, pc, pos, got, want, fs, wrote, out, dev>>

Min(a, b) == IF a < b THEN a ELSE b
Flat(ss) == LET F[i \in 0..Len(ss)] == IF i = 0 THEN <<>> ELSE F[i - 1] \o ss[i] IN F[Len(ss)]
SumTo(ls, k) == LET S[i \in 0..k] == IF i = 0 THEN 0 ELSE S[i - 1] + ls[i] IN S[k]

\* ---- abstract cases ------------------------------------------------------------------------
NoCut == [f |-> "none", w |-> ""]
\* dch: content class of a domain name: "name" (no ':'), "colon" (contains ':', e.g. an IPv6 literal sent as a name), and the
\* value classes of Socks5Ref!NameVal; acl: value class of an IPv4 / IPv6 address (Socks5Ref!V4Val, V6Val)
DefReq == [ver2 |-> 5, cmd |-> 1, rsv |-> 0, atyp |-> 1, dlen |-> 0, dch |-> "name", acl |-> "gen"]
NameClasses == {"num", "dot", "upper"} \cup FixedNames
\* (atyp, dlen, dch, acl) of the value classes beyond the generic representatives
ValAddrs == IF ~ValClasses THEN {} ELSE
        {<<1, 0, "name", a>> : a \in V4Classes \ {"gen"}}
   \cup {<<4, 0, "name", a>> : a \in V6Classes \ {"gen"}}
   \cup {<<3, NameLen(k, dl), k, "gen">> : k \in NameClasses, dl \in {1, 7, 255}}
Reqs == {[DefReq EXCEPT !.ver2 = 4]}
   \cup {[ver2 |-> 5, cmd |-> cm, rsv |-> rs, atyp |-> at, dlen |-> 0, dch |-> "name", acl |-> "gen"] : cm \in {1, 2, 3, 9}, rs \in {0, 1}, at \in {1, 4, 5}}
   \cup {[ver2 |-> 5, cmd |-> cm, rsv |-> rs, atyp |-> 3, dlen |-> dl, dch |-> "name", acl |-> "gen"] : cm \in {1, 2, 3, 9}, rs \in {0, 1}, dl \in DLens}
   \cup {[ver2 |-> 5, cmd |-> cm, rsv |-> 0, atyp |-> 3, dlen |-> dl, dch |-> "colon", acl |-> "gen"] : cm \in {1, 2}, dl \in DLens \ {0}}
   \cup {[ver2 |-> 5, cmd |-> cm, rsv |-> 0, atyp |-> v[1], dlen |-> v[2], dch |-> v[3], acl |-> v[4]] : cm \in {1, 3}, v \in ValAddrs}
\* truncation points are enumerated for the generic representatives only (a value class changes no length)
IsVal(q) == q.acl # "gen" \/ q.dch \notin {"name", "colon"}
Greets == {[ver1 |-> 4, nm |-> 1, mset |-> "noauth"], [ver1 |-> 5, nm |-> 0, mset |-> "-"]}
     \cup {[ver1 |-> 5, nm |-> 1, mset |-> x] : x \in {"none", "noauth", "userpass"}}
     \cup {[ver1 |-> 5, nm |-> n, mset |-> x] : n \in {2, 255}, x \in {"none", "noauth", "userpass", "both"}}

Offers(mset, m) == IF m = 0 THEN mset \in {"noauth", "both"} ELSE mset \in {"userpass", "both"}
GPass(g, m) == g.ver1 = 5 /\ g.nm > 0 /\ Offers(g.mset, m)
Auths(g, m) == IF GPass(g, m) /\ m = 2 THEN {"good", "bad", "badver"} ELSE {"-"}
DefGreet(m) == [ver1 |-> 5, nm |-> 1, mset |-> IF m = 0 THEN "noauth" ELSE "userpass"]
DefAuth(m) == IF m = 2 THEN "good" ELSE "-"

Base(p, g, a, q, trail, cut) ==
  [kind |-> "hs", prof |-> p, ver1 |-> g.ver1, nm |-> g.nm, mset |-> g.mset, auth |-> a,
   ver2 |-> q.ver2, cmd |-> q.cmd, rsv |-> q.rsv, atyp |-> q.atyp, dlen |-> q.dlen, dch |-> q.dch, acl |-> q.acl,
   frag |-> 0, pay |-> 0, trail |-> trail, cut |-> cut]

\* concrete representative bytes of a case, field by field
Methods(n, mset) ==
  CASE n = 0 -> <<>>
    [] mset = "none"     -> Rep(n, 1)
    [] mset = "noauth"   -> Rep(n - 1, 1) \o <<0>>          \* the acceptable method comes last
    [] mset = "userpass" -> Rep(n - 1, 1) \o <<2>>
    [] mset = "both"     -> <<2>> \o Rep(n - 2, 1) \o <<0>>
AddrBytes(atyp, dlen, dch, acl) ==
  CASE atyp = 1 -> V4Val(acl)
    [] atyp = 4 -> V6Val(acl)
    [] atyp = 3 -> NameVal(dch, dlen)
    [] OTHER -> <<9, 9, 9, 9>>                              \* something follows an unknown ATYP
F(f, b) == [f |-> f, b |-> b]
HsFields(x) ==
  LET m == Profile(x.prof).method
      hasAuth == x.auth # "-"
  IN SelectSeq(
       <<F("ver1", <<x.ver1>>), F("nm", <<x.nm>>), F("methods", Methods(x.nm, x.mset))>>
    \o (IF hasAuth THEN <<F("aver", <<IF x.auth = "badver" THEN 5 ELSE 1>>), F("ulen", <<Len(User)>>), F("uname", User),
                          F("plen", <<Len(Pass)>>), F("passwd", IF x.auth = "bad" THEN <<112, 120>> ELSE Pass)>>
        ELSE <<>>)
    \o <<F("ver2", <<x.ver2>>), F("cmd", <<x.cmd>>), F("rsv", <<x.rsv>>), F("atyp", <<x.atyp>>)>>
    \o (IF x.atyp = 3 THEN <<F("dlen", <<x.dlen>>)>> ELSE <<>>)
    \o <<F("addr", AddrBytes(x.atyp, x.dlen, x.dch, x.acl)), F("port", <<31, 144>>), F("trail", Rep(x.trail, 238))>>,
    LAMBDA fl : Len(fl.b) > 0)
UdpFields(x) ==
  SelectSeq(
       <<F("rsv", <<x.rsv, x.rsv>>), F("frag", <<x.frag>>), F("atyp", <<x.atyp>>)>>
    \o (IF x.atyp = 3 THEN <<F("dlen", <<x.dlen>>)>> ELSE <<>>)
    \o <<F("addr", AddrBytes(x.atyp, x.dlen, x.dch, x.acl)), F("port", <<0, 53>>), F("data", Rep(x.pay, 238))>>,
    LAMBDA fl : Len(fl.b) > 0)
Fields(x) == IF x.kind = "hs" THEN HsFields(x) ELSE UdpFields(x)

\* fields the grammar still looks at on this path (a prefix of Fields); truncation is enumerated there
RelNames(x) ==
  IF x.kind = "udp" THEN
     IF x.frag # 0 THEN {"rsv", "frag"}
     ELSE IF x.atyp \notin {1, 3, 4} THEN {"rsv", "frag", "atyp"}
     ELSE {"rsv", "frag", "atyp", "dlen", "addr", "port"}
  ELSE
  LET m == Profile(x.prof).method
      G == {"ver1", "nm"}  GM == G \cup {"methods"}
      A == GM \cup {"aver", "ulen", "uname", "plen", "passwd"}
  IN IF x.ver1 # 5 \/ x.nm = 0 THEN G
     ELSE IF ~Offers(x.mset, m) THEN GM
     ELSE IF x.auth = "badver" THEN GM \cup {"aver", "ulen"}
     ELSE IF x.auth = "bad" THEN A
     ELSE IF x.ver2 # 5 THEN A \cup {"ver2", "cmd"}
     ELSE IF x.atyp \notin {1, 3, 4} THEN A \cup {"ver2", "cmd", "rsv", "atyp"}
     ELSE A \cup {"ver2", "cmd", "rsv", "atyp", "dlen", "addr", "port"}
Cuts(x) ==
  LET fl == Fields(x)
      last == IF x.kind = "hs" THEN "trail" ELSE "data"
      rel == {i \in DOMAIN fl : fl[i].f \in RelNames(x)}
      nrel == Cardinality(rel)
  IN  {[f |-> fl[i].f, w |-> "before"] : i \in {j \in DOMAIN fl : j <= nrel + 1 /\ fl[j].f # last}}
 \cup {[f |-> fl[i].f, w |-> "in1"] : i \in {j \in rel : Len(fl[j].b) >= 2}}
 \cup {[f |-> fl[i].f, w |-> "inlast"] : i \in {j \in rel : Len(fl[j].b) >= 3}}

\* the byte stream the application sends (cut applied); also the offsets where fields start
CutLen(x) ==
  LET fl == Fields(x)
      lens == [i \in DOMAIN fl |-> Len(fl[i].b)]
      tot == SumTo(lens, Len(fl))
  IN IF x.cut.f = "none" THEN tot
     ELSE LET i == CHOOSE j \in DOMAIN fl : fl[j].f = x.cut.f
              st == SumTo(lens, i - 1)
          IN CASE x.cut.w = "before" -> st
               [] x.cut.w = "in1"    -> st + 1
               [] x.cut.w = "inlast" -> st + lens[i] - 1
Stream(x) == LET fl == Fields(x) IN Cut(Flat([i \in DOMAIN fl |-> fl[i].b]), 1, CutLen(x))

HsCases(p) ==
  LET m == Profile(p).method
      bases == IF Full
               THEN {<<g, a, q>> : g \in Greets, a \in {"-", "good", "bad", "badver"}, q \in Reqs}
               ELSE {<<g, a, DefReq>> : g \in Greets, a \in {"-", "good", "bad", "badver"}}
                    \cup {<<DefGreet(m), DefAuth(m), q>> : q \in Reqs}
      ok(b) == /\ b[2] \in Auths(b[1], m)
               /\ (b[3] # DefReq => (GPass(b[1], m) /\ b[2] \in {"-", "good"}))
      B == {b \in bases : ok(b)}
  IN  {Base(p, b[1], b[2], b[3], tr, NoCut) : b \in B, tr \in {0, 3}}
 \cup UNION {{Base(p, b[1], b[2], b[3], 0, k) : k \in Cuts(Base(p, b[1], b[2], b[3], 0, NoCut))} : b \in {x \in B : ~IsVal(x[3])}}

UdpBase(rsv, frag, atyp, dlen, pay, cut) ==
  [kind |-> "udp", prof |-> "udp", ver1 |-> 0, nm |-> 0, mset |-> "-", auth |-> "-", ver2 |-> 0, cmd |-> 0,
   rsv |-> rsv, atyp |-> atyp, dlen |-> dlen, dch |-> "name", acl |-> "gen", frag |-> frag, pay |-> pay, trail |-> 0, cut |-> cut]
UdpCases ==
  LET B == {UdpBase(rs, fr, at, 0, py, NoCut) : rs \in {0, 1}, fr \in {0, 1}, at \in {1, 4, 5}, py \in {0, 1, 2, 5}}
      \cup {UdpBase(rs, fr, 3, dl, py, NoCut) : rs \in {0, 1}, fr \in {0, 1}, dl \in DLens, py \in {0, 1, 2, 5}}
      \* every address value class, with and without payload (and colon names, which the encoder may read as IPv6 text)
      VB == {[UdpBase(0, 0, v[1], v[2], py, NoCut) EXCEPT !.dch = v[3], !.acl = v[4]] : v \in ValAddrs, py \in {0, 2}}
         \cup (IF ValClasses THEN {[UdpBase(0, 0, 3, dl, py, NoCut) EXCEPT !.dch = "colon"] : dl \in DLens \ {0}, py \in {0, 2}} ELSE {})
  IN B \cup VB \cup UNION {{[b EXCEPT !.cut = k] : k \in Cuts(b)} : b \in {x \in B : x.pay = 0}}

Cases == (UNION {HsCases(p) : p \in Profiles}) \cup (IF WithUdp THEN UdpCases ELSE {})

\* chunk boundaries (offsets strictly inside the stream after which a Read call returns)
Bounds(x, cls) ==
  LET fl == Fields(x)
      lens == [i \in DOMAIN fl |-> Len(fl[i].b)]
      n == CutLen(x)
      startOf(name) == IF \E j \in DOMAIN fl : fl[j].f = name
                       THEN {SumTo(lens, (CHOOSE j \in DOMAIN fl : fl[j].f = name) - 1)} ELSE {}
      raw == CASE cls = "all"   -> {}
               [] cls = "bytes" -> 1..n
               [] cls = "msg"   -> startOf("aver") \cup startOf("ver2") \cup startOf("trail")
               [] cls = "split" -> {SumTo(lens, i - 1) + 1 : i \in {j \in DOMAIN fl : lens[j] >= 2}}
               [] OTHER -> {}
  IN {b \in raw : b > 0 /\ b < n}

\* ---- the parser (implementation-shaped) ------------------------------------------------------
NoOut == [ok |-> FALSE, cmd |-> 0, atyp |-> 0, addr |-> <<>>, host |-> <<>>, port |-> 0]
\* the text a code path hands an address on as
Render(path, atyp, a) == IF path \in NetipText THEN RenderNetip(atyp, a) ELSE RenderIP(atyp, a)
ErrReply(rep) == <<5, rep, 0, 1, 0, 0, 0, 0, 0, 0>>

Init == /\ c \in Cases
        /\ ch \in (IF c.kind # "hs" THEN {"dgram"} ELSE IF c.cut.f = "none" THEN Chunkings ELSE CutChunkings)
        /\ stream = Stream(c)
        /\ bounds = Bounds(c, ch)
        /\ ref = IF c.kind = "hs" THEN RefHs(stream, Profile(c.prof)) ELSE RefUdp(stream)
        /\ pc = IF c.kind = "hs" THEN "g_hdr" ELSE "u_parse"
        /\ pos = 0 /\ got = 0 /\ fs = 0
        /\ want = 2
        /\ wrote = <<>> /\ out = NoOut /\ dev = FALSE

P == Profile(c.prof)
BehOf == [kind |-> c.kind, prof |-> c.prof, ver1 |-> c.ver1, nm |-> c.nm, mset |-> c.mset, auth |-> c.auth,
          ver2 |-> c.ver2, cmd |-> c.cmd, rsv |-> c.rsv, atyp |-> c.atyp, dlen |-> c.dlen, dch |-> c.dch, acl |-> c.acl, frag |-> c.frag,
          pay |-> c.pay, trail |-> c.trail, cut |-> c.cut, chunk |-> ch,
          want |-> IF c.kind = "hs" THEN HsClass(ref) ELSE UdpClass(ref, stream)]
EmitBeh == IF Emit THEN PrintT("BEH " \o ToJson(BehOf)) ELSE TRUE

Stop(w, o) == /\ pc' = "done" /\ wrote' = w /\ out' = o /\ want' = 0 /\ fs' = pos' /\ EmitBeh
Go(p, n, w, o) == /\ pc' = p /\ want' = n /\ wrote' = w /\ out' = o /\ fs' = pos'

\* decision taken when the field stream[fs+1 .. fs+want] is complete (pos' is the new read position)
Decide(b) ==
  CASE pc = "g_hdr" ->
         IF b[1] # 5 \/ b[2] = 0 THEN Stop(wrote, out) ELSE Go("g_meth", b[2], wrote, out)
    [] pc = "g_meth" ->
         LET sel == IF Contains(b, P.method) THEN P.method ELSE 255
             w == wrote \o <<5, sel>>
         IN IF sel = 255 THEN Stop(w, out)
            ELSE IF sel = 2 THEN Go("a_hdr", 2, w, out) ELSE Go("r_hdr", 4, w, out)
    [] pc = "a_hdr" -> IF b[1] # 1 THEN Stop(wrote, out) ELSE Go("a_user", b[2], wrote, [out EXCEPT !.addr = <<>>])
    [] pc = "a_user" -> Go("a_plen", 1, wrote, [out EXCEPT !.addr = b])          \* addr doubles as scratch: user name
    [] pc = "a_plen" -> Go("a_pass", b[1], wrote, out)
    [] pc = "a_pass" ->
         IF out.addr = User /\ b = Pass THEN Go("r_hdr", 4, wrote \o <<1, 0>>, [out EXCEPT !.addr = <<>>])
         ELSE Stop(wrote \o <<1, 1>>, [out EXCEPT !.addr = <<>>])
    [] pc = "r_hdr" ->
         IF b[1] # 5 THEN Stop(wrote \o ErrReply(1), out)
         ELSE IF b[2] \notin P.cmds THEN Stop(wrote \o ErrReply(7), out)
         ELSE LET o == [out EXCEPT !.cmd = b[2], !.atyp = b[4]] IN
              CASE b[4] = 1 -> Go("r_addr", 4, wrote, o)
                [] b[4] = 4 -> Go("r_addr", 16, wrote, o)
                [] b[4] = 3 -> Go("r_dlen", 1, wrote, o)
                [] OTHER -> Stop(wrote \o ErrReply(8), out)
    [] pc = "r_dlen" -> IF b[1] = 0 THEN Go("r_port", 2, wrote, out) ELSE Go("r_addr", b[1], wrote, out)
    [] pc = "r_addr" -> Go("r_port", 2, wrote, [out EXCEPT !.addr = b])
    [] pc = "r_port" -> Stop(wrote, [out EXCEPT !.ok = TRUE, !.port = b[1] * 256 + b[2],
                                                !.host = Render(c.prof, out.atyp, out.addr)])

NextBound == LET bs == {x \in bounds : x > pos} IN IF bs = {} THEN Len(stream)
             ELSE CHOOSE x \in bs : \A y \in bs : x <= y

\* one Read call on the connection: the current chunk's remaining bytes, at most `want - got`
ConnRead ==
  /\ pc \notin {"done", "u_parse"} /\ ~(pc = "g_hdr" /\ c.prof \in Greedy)
  /\ pos < Len(stream)
  /\ LET k == Min(want - got, NextBound - pos) IN
     /\ pos' = pos + k
     /\ IF got + k = want
        THEN got' = 0 /\ Decide(SubSeq(stream, fs + 1, fs + want))
        ELSE got' = got + k /\ UNCHANGED <<pc, want, fs, wrote, out>>
  /\ UNCHANGED <<c, ch, stream, bounds, ref, dev>>

\* DEVIATION greedy greeting: io.ReadAtLeast(conn, buf[257], 2); METHODS are taken from the buffer,
\* whatever else the chunk held is consumed and dropped
ConnReadGreedy ==
  /\ pc = "g_hdr" /\ c.prof \in Greedy
  /\ pos < Len(stream)
  /\ LET k == Min(257 - got, NextBound - pos)
         g == got + k
     IN /\ pos' = pos + k
        /\ IF g < 2 THEN got' = g /\ UNCHANGED <<pc, want, fs, wrote, out, dev>>
           ELSE LET nm == stream[2] IN
                IF stream[1] # 5 THEN got' = 0 /\ dev' = dev /\ Stop(wrote, out)
                ELSE IF g < 2 + nm
                THEN got' = g - 2 /\ pc' = "g_meth" /\ want' = nm /\ fs' = 2 /\ UNCHANGED <<wrote, out, dev>>
                ELSE /\ got' = 0 /\ dev' = (g > 2 + nm)
                     /\ LET b == Cut(stream, 3, 2 + nm)
                            sel == IF Contains(b, P.method) THEN P.method ELSE 255
                            w == wrote \o <<5, sel>>
                        IN IF sel = 255 THEN Stop(w, out)
                           ELSE IF sel = 2 THEN Go("a_hdr", 2, w, out) ELSE Go("r_hdr", 4, w, out)
  /\ UNCHANGED <<c, ch, stream, bounds, ref>>

\* the application has closed its side: a field cannot be completed
ConnEOF ==
  /\ pc \notin {"done", "u_parse"} /\ pos = Len(stream)
  /\ pos' = pos /\ got' = 0 /\ Stop(wrote, NoOut)
  /\ UNCHANGED <<c, ch, stream, bounds, ref, dev>>

\* UDP request header: length checks per address type on the whole datagram
ImplUdp(d) ==
  LET n == Len(d) bad == NoOut IN
  IF n < UdpMinLen \/ n < 4 THEN bad
  ELSE IF d[3] # 0 THEN bad
  ELSE LET at == d[4] IN
       IF at \notin {1, 3, 4} \/ (at = 3 /\ n < 5) THEN bad
       ELSE LET al == CASE at = 1 -> 4 [] at = 4 -> 16 [] at = 3 -> 1 + d[5]
                h == 4 + al + 2
            IN IF n < h THEN bad
               ELSE LET a == IF at = 3 THEN Cut(d, 6, 5 + d[5]) ELSE Cut(d, 5, 4 + al) IN
                    [ok |-> TRUE, cmd |-> h, atyp |-> at, port |-> d[h - 1] * 256 + d[h],     \* cmd doubles as header length
                     addr |-> a, host |-> Render("udp", at, a)]
\* buildUDPHeader: the host TEXT is classified again (EncodeText), the header written for that class
BuildImpl(host, port, payload) == LET e == EncodeText(host) IN BuildUdp(e.atyp, e.addr, port, payload)
\* DEVIATION NetipText on the UDP path fires for the addresses parser and encoder disagree about
NetipDev(u) == "udp" \in NetipText /\ u.st = "result" /\ u.atyp = 4 /\ IsMapped(u.addr)
UdpParse ==
  /\ pc = "u_parse"
  /\ pos' = Len(stream) /\ got' = 0
  /\ dev' = ((Len(stream) < UdpMinLen /\ ref.st = "result") \/ NetipDev(ref))
  /\ Stop(wrote, ImplUdp(stream))
  /\ UNCHANGED <<c, ch, stream, bounds, ref>>

Done == pc = "done" /\ UNCHANGED vars          \* terminal states stutter, so TLC's deadlock check means "stuck"
Next == ConnRead \/ ConnReadGreedy \/ ConnEOF \/ UdpParse \/ Done
Spec == Init /\ [][Next]_vars

\* ---- design-level properties (checked exhaustively) -------------------------------------------
\* what an observer sees: the host text and the IP it spells (the driver: net.ParseIP of the returned string)
HsObs == [ok |-> out.ok, cmd |-> out.cmd, host |-> out.host, ip |-> TextIp(out.host), port |-> out.port,
          wrote |-> wrote, consumed |-> pos, panic |-> FALSE]
UdpObs == LET pl == IF out.ok THEN Rest(stream, out.cmd) ELSE <<>>
              rebuilt == IF out.ok THEN BuildImpl(out.host, out.port, pl) ELSE <<>>
              again == IF out.ok THEN ImplUdp(rebuilt) ELSE out
              one(o, p) == [ok |-> o.ok, host |-> o.host, ip |-> TextIp(o.host), port |-> o.port, payload |-> p]
          IN one(out, pl) @@ [panic |-> FALSE, rebuilt |-> rebuilt,
                              nip |-> IF ref.st = "result" /\ ref.atyp = 3 THEN TextIp(ref.addr) ELSE <<>>,
                              rt |-> one(again, IF again.ok THEN Rest(rebuilt, again.cmd) ELSE <<>>)]

\* a profile that hands its result on as one "host:port" string must produce one that splits back into exactly
\* the parsed host and port (HostText: the text form of the address; IPv6 text contains ':')
HostText(o) == CASE o.atyp = 3 -> o.addr [] o.atyp = 4 -> <<50, 58, 58, 49>> [] OTHER -> <<49, 46, 50>>
PortText == <<56, 48>>
Enc == IF c.prof \in PlainJoin       \* DEVIATION: brackets for ATYP=4 only, then host ":" port
       THEN (IF out.atyp = 4 THEN <<91>> \o HostText(out) \o <<93>> ELSE HostText(out)) \o <<58>> \o PortText
       ELSE JoinHP(HostText(out), PortText)
EncDev == c.prof \in PlainJoin /\ out.atyp = 3 /\ Contains(out.addr, 58)
HostPort == (pc = "done" /\ out.ok /\ c.kind = "hs" /\ P.joined) =>
               \/ EncDev
               \/ LET sp == SplitHP(Enc) IN sp.ok /\ sp.host = HostText(out) /\ sp.port = PortText

\* the parser's outcome is the reference's, for every path, truncation and chunking (or a named deviation fired)
Conforms == pc = "done" =>
              \/ dev
              \/ IF c.kind = "hs" THEN HsViol(ref, HsObs) = {}
                 ELSE UdpViol(ref, stream, UdpObs) = {}
\* the judge's clauses alone, no deviation excused (violated under every named deviation: see the *_show_* configurations)
JudgeQuiet == pc = "done" => IF c.kind = "hs" THEN HsViol(ref, HsObs) = {} ELSE UdpViol(ref, stream, UdpObs) = {}
\* never reads past the message, at any step
NoReadPast == c.kind = "hs" => (dev \/ pos <= (IF ref.result THEN ref.used ELSE ref.extent))
\* every input terminates in a result or a rejection
\* (no deadlock before "done": CHECK_DEADLOCK; every step consumes input or finishes:)
StepsAdvance == [][pc' = "done" \/ pos' > pos]_vars
DoneIsFinal == pc = "done" => (out.ok \/ out = NoOut)
\* chunking cannot matter: the terminal outcome is a function of the stream alone (see Conforms), and
\* the expected outcome class of a case is fixed by its classes alone:
ExpectWhy(x) ==
  LET m == Profile(x.prof).method
      cutAt(names) == x.cut.f \in names
      G == {"ver1", "nm", "methods"}  A == {"aver", "ulen", "uname", "plen", "passwd"}
      Q == {"ver2", "cmd", "rsv", "atyp", "dlen", "addr", "port"}
  IN IF x.cut.f = "ver1" THEN "greeting-trunc"
     ELSE IF x.ver1 # 5 THEN "greeting-ver"
     ELSE IF x.cut.f = "nm" THEN "greeting-trunc"
     ELSE IF x.nm = 0 THEN "greeting-nm0"
     ELSE IF x.cut.f = "methods" THEN "greeting-trunc"
     ELSE IF ~Offers(x.mset, m) THEN "greeting-nomethod"
     ELSE IF x.cut.f = "aver" /\ x.cut.w = "before" THEN "auth-trunc"
     ELSE IF x.auth = "badver" THEN "auth-ver"
     ELSE IF cutAt(A) THEN "auth-trunc"
     ELSE IF x.auth = "bad" THEN "auth-bad"
     ELSE IF x.cut.f = "ver2" THEN "request-trunc"
     ELSE IF x.ver2 # 5 THEN "request-ver"
     ELSE IF x.cut.f \in {"cmd", "rsv", "atyp"} THEN "request-trunc"
     ELSE IF x.atyp \notin {1, 3, 4} THEN "request-rej"
     ELSE IF cutAt(Q) THEN "request-trunc"
     ELSE IF x.cmd \notin Profile(x.prof).cmds THEN "request-rej"
     ELSE "result"
ExpectFixed == c.kind = "hs" => ExpectWhy(c) = Why(ref)

\* UDP: Build(Parse(h)) = h for canonical headers, Parse(Build(r)) = r for every result
UdpRoundTrip ==
  c.kind = "udp" =>
    LET u == ref IN
    (pc = "u_parse" /\ u.st = "result") =>
      LET b == BuildUdp(u.atyp, u.addr, u.port, Rest(stream, u.pay))
          v == RefUdp(b)
      IN /\ (stream[1] = 0 /\ stream[2] = 0) => b = stream
         /\ v.st = "result" /\ v.atyp = u.atyp /\ v.addr = u.addr /\ v.port = u.port
         /\ Rest(b, v.pay) = Rest(stream, u.pay)

\* the implementation's own round trip, stated directly: parse . build . parse = parse on (host text, port, payload) for
\* every ATYP 1 / 4 datagram, and the re-encoded header is a fixed point of build . parse
ImplRoundTrip ==
  (c.kind = "udp" /\ pc = "done" /\ out.ok /\ ~(Len(stream) < UdpMinLen)) =>
    LET pl == Rest(stream, out.cmd)
        b1 == BuildImpl(out.host, out.port, pl)
        r2 == ImplUdp(b1)
        b2 == BuildImpl(r2.host, r2.port, Rest(b1, r2.cmd))
    IN /\ r2.ok /\ r2.port = out.port /\ Rest(b1, r2.cmd) = pl
       /\ (out.atyp \in {1, 4} => r2.host = out.host)
       /\ b2 = b1
\* on a conforming tree (Greedy = {}, UdpMinLen = 7, NetipText = {}) no named deviation can fire
NoDev == ~dev /\ ~(pc = "done" /\ out.ok /\ c.kind = "hs" /\ EncDev)

TypeOK == /\ pos \in 0..Len(stream) /\ got \in 0..257 /\ pc \in {"g_hdr", "g_meth", "a_hdr", "a_user", "a_plen",
             "a_pass", "r_hdr", "r_dlen", "r_addr", "r_port", "u_parse", "done"}
=============================================================================
