\* Documentation only (not run by the check): the copy loop's retry test looking at Timeout() only, against
\* NoBusyLoop.  TLC reports: Attach, ErrorEnd(e, "plain", "tmo") with the other end idle - the Read that learns of
\* the failure is retried, and so is the next one: the copier spins on the dead connection.
CONSTANTS
  BUF = 3
  MaxSends = 1
  MaxSlow = 5
  Lims = {"none"}
  Classes = {"one"}
  Faults = TRUE
  Replace = FALSE
  ExtCloseOn = FALSE
  DevLimiter = TRUE
  DevNilFwd = FALSE
  DevStaleSrc = TRUE
  DevSleepLimiter = FALSE
  DevWriteLock = FALSE
  DevRouteFirst = FALSE
  DevCleanupFirst = FALSE
  RegLegs = {}
  DevIdleSweep = FALSE
  DevFwdNoEof = FALSE
  SrcKinds = {"direct"}
  ErrClasses = {"plain", "tmo", "tmp"}
  PollOn = FALSE
  RetryOn = {"tmo"}
  RetryWriteOn = {}
  DevBufio = FALSE
  AttachKinds = {"local"}
  HoldOn = FALSE
  Gen = FALSE
  Emit = FALSE
INIT Init
NEXT Next
VIEW view
INVARIANTS TypeOK NoBusyLoop
CHECK_DEADLOCK FALSE
