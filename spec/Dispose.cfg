\* C16: exhaustive check / behaviour generation of Dispose.tla.  @@SUITE@@ and @@EMIT@@ are substituted
\* by the driver (harness/drivers/c16): Suite = mc | mcbig (exhaustive) | gen | genbig (generation,
\* Emit = TRUE: hist' is printed at every transition = one behaviour per (state, action) pair).
\* The configurations of each suite (scene latch / tunnel / bridge / resmgr, closers, completion paths, design
\* as-is / repaired / hypothetical) are listed in Dispose.tla (Cfgs).  hist is excluded from the fingerprint (VIEW).
\* Every Inv* is  property \/ (a configuration of the code as it was or of a hypothetical design /\ its named deviation);
\* the strict property against one hypothetical design alone: Dispose_show_<design>.cfg.
\* State counts (round 3): mc about 1.6e5 distinct states (depth 33), gen about 4.4e4 (1.2e5 behaviours), mcbig / genbig: see evidence.
CONSTANTS
  Suite = "@@SUITE@@"
  Emit = @@EMIT@@
INIT Init
NEXT Next
VIEW view
INVARIANTS TypeOK InvAtMostOnce InvExactlyOnce InvNoOver InvTraffic InvNoPanic ClosedError InvLeakFree InvConnOnce InvStored
CHECK_DEADLOCK FALSE
