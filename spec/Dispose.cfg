\* C16: exhaustive check / behaviour generation of Dispose.tla.  @@SUITE@@ and @@EMIT@@ are substituted
\* by the driver (harness/drivers/c16): Suite = mc | mcbig (exhaustive) | gen | genbig (generation,
\* Emit = TRUE: hist' is printed at every transition = one behaviour per (state, action) pair).
\* The configurations of each suite (scene latch / tunnel / bridge / resmgr, closers, completion paths, design
\* as-is / repaired / hypothetical) are listed in Dispose.tla (Cfgs).  hist is excluded from the fingerprint (VIEW).
CONSTANTS
  Suite = "@@SUITE@@"
  Emit = @@EMIT@@
INIT Init
NEXT Next
VIEW view
INVARIANTS TypeOK InvAtMostOnce InvExactlyOnce InvNoOver InvTraffic InvNoPanic ClosedError InvLeakFree InvConnOnce
CHECK_DEADLOCK FALSE
