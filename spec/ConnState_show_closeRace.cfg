\* C08 documentation cfg (not run by the check): tlc -config ConnState_show_closeRace.cfg ConnState.tla
\* The tree as it is (C08-1..4) plus compare-and-renew: the old node's cleanup parked between 'index names me' and 'Delete index' is overtaken by the client's handshake on another node and erases the new registration (deviation staleIdxDelete). Open finding.
\* Expected: Invariant FindLive is violated.
CONSTANTS
  Nodes = {"A", "B"}
  NConns = 2
  Clients = {"X"}
  TTL = 2
  MaxClock = 1000
  MaxHist = 99
  Shapes = {"str"}
  CasSet = {FALSE}
  FixSets = {{"ptrShape", "condIdxDelete", "hbRefresh", "successOnly", "atomicRenew"}}
  Causes = {"peer"}
  KeepCreatedAt = FALSE
  UseRequestId = FALSE
  IdxRenew = "checkSet"
  RecRenew = "set"
  Lookups = FALSE
  WritingLookup = FALSE
  InFlight = TRUE
  ClientState = FALSE
  Emit = FALSE
  Only = "all"
INIT Init
NEXT Next
VIEW view
INVARIANTS TypeOK FindClosed FindLive
CHECK_DEADLOCK FALSE
