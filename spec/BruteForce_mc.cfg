\* C18 exhaustive check of the implementation-shaped model (template: @@..@@ filled by drivers/c18).
\* Quick tier: threshold 2, permanent threshold 3, window 2, ban 2 ticks, clock <= 4..5;
\* thorough tier also threshold 3 / permanent 4 / window 3 and ban 3.
\*   ACTS / PROCS / ATOMIC select the sub-system: ban machinery with two racing handshakes,
\*   sequential full ban alphabet (clean-ups, successes, operator unban), blacklist + whitelist +
\*   token bucket.
\*   FIXED = {}  (code before the C18 repairs): INVS = ...OrKnown - a violation is excused only by a
\*                listed deviation (unbanLive, unblLive, tempOverPerm, expiredShadows); all else strict.
\*   FIXED = {"unban","unbl","order"} (code with patches C18-1..3): BanHolds strict, BlacklistHoldsOrKnown.
\*   FIXED = {"unban","unbl","order","shadow"} (repaired design): INVS strict, plus NoDeviation.
CONSTANTS
  IPs = @@IPS@@
  Procs = @@PROCS@@
  Threshold = @@THR@@
  PermAt = @@PERMAT@@
  Win = @@WIN@@
  Ban = @@BAN@@
  BlDur = 2
  Burst = 2
  Refill = 500
  MaxClock = @@MAXCLOCK@@
  MaxTotal = @@MAXTOTAL@@
  MaxPend = 2
  MaxAdm = @@MAXADM@@
  Acts = @@ACTS@@
  Atomic = @@ATOMIC@@
  BlForms = @@BLFORMS@@
  Fixed = @@FIXED@@
  EmitActs = {}
  MaxHist = 999
INIT Init
NEXT Next
VIEW view
CONSTRAINT Bounded
INVARIANTS TypeOK NeverSpurious RateBound CountsAgree PermKept @@INVS@@
CHECK_DEADLOCK FALSE
