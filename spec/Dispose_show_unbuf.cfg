\* C16, documentation run (not part of ./check): hypothetical design "unbuf" alone against the STRICT property.
\* TLC reports "Invariant LeakFree is violated":
\* ResourceManager.DisposeWithTimeout with an unbuffered result channel (seeded change C16-r2m1): after the
\* timeout the helper goroutine blocks on its send for ever (dev_stuck)
\* The check itself (Dispose.cfg) verifies the same configuration against  property \/ named deviation  and passes.
CONSTANTS
  Suite = "show_unbuf"
  Emit = FALSE
INIT Init
NEXT Next
VIEW view
INVARIANTS TypeOK LeakFree
CHECK_DEADLOCK FALSE
