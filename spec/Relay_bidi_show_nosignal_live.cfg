\* (i) Bidirectional - SEEDED FAULT (C02/r4m2), liveness view.  THIS RUN MUST FAIL with a temporal property violation
\* (BTold / BReturnsWhenOneSideEnds): the lasso is "A fails; A->B ends with a read error and tells nobody; the passive peer B
\* waits for ever, the copier B->A sits in B.Read for ever, Bidirectional never returns".
CONSTANTS
  MaxSend = 1
  EofWithData = TRUE
  ShapesA <- CwLocal
  ShapesB <- CwLocal
  DevDeadlineAt = "none"
  DevDeadlineHits = {"read"}
  Monitor = FALSE
  IdleMax = 2
  DevMonNoFeed = FALSE
  Reactive = TRUE
  DevNoSignalOnError = TRUE
  DevCloseWriterFallback = FALSE
  Emit = FALSE
  Classes = {1}
  BatchSize = 32
  BatchBuf = 22
  High = 100
  MaxT = 0
  MaxU = 0
  TSeqs <- TSmall
  USeqs <- USmall
  Cuts = "all"
  Chunks = {0}
  Paces = {"burst"}
  DevSpin = FALSE
  DevNoUnblock = FALSE
  DevAliasFlush = FALSE
  SockBatch = FALSE
  DevNoInnerFlush = FALSE
  SockQueue = FALSE
  DevQueueRefs = FALSE
  DevSockDeadline = FALSE
  DevDropOnClose = FALSE
SPECIFICATION BSpec
INVARIANTS BTypeOK BPipe BComplete
PROPERTIES BTold BReturnsWhenOneSideEnds
CHECK_DEADLOCK FALSE
