\* Deviation HbGiveUp = "consec" with GiveUpAfter <= MaxConsecFails: the heartbeat loop gives up at the first failed
\* renewal (a single transient store error), the claim of the live node runs out and n2 gets the same node id.
\* Not run by the check (it must fail); kept to show the counterexample:
\*   tlc -config IdGen_show_hbgiveup2.cfg IdGen.tla
CONSTANTS
  Mode = "node"
  Procs = {"n1", "n2"}
  HasNX = "yes"
  NCands = 1
  MaxAttempts = 1
  MaxCalls = 1
  Layouts = {"distinct"}
  NSlots = 1
  RenewTier = "claim"
  Wiring = "split"
  TTLTicks = 3
  MaxTicks = 5
  Faults = {}
  MaxRenewFails = 1
  MaxConsecFails = 1
  HbGiveUp = "consec"
  GiveUpAfter = 1
  RenewTTLTicks = 3
  Realloc = FALSE
  StopChan = "once"
  MaxU = 1
  ExhaustionReturnsLast = FALSE
  ReturnedIdReleased = FALSE
  WithLapse = FALSE
  Emit = FALSE
INIT Init
NEXT Next
VIEW view
INVARIANTS TypeOK NoForeign NodeUnique
CHECK_DEADLOCK FALSE
