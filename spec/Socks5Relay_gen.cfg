\* C20 relay level: conforming tree (the datagram is copied out of the read buffer).  MaxK = 2 quick, 3 thorough.
CONSTANTS
  Emit = @@EMIT@@
  MaxK = @@MAXK@@
  Alias = FALSE
  ReplySubst = FALSE
  NetipText = FALSE
  ValClasses = TRUE
INIT Init
NEXT Next
INVARIANTS TypeOK Intact ReplyIntact Complete NoDev OneSessionPerDest VdnsRecognised
CHECK_DEADLOCK TRUE
