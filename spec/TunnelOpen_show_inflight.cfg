\* The tree WITH patches C04-1..3, order "inflightUsage": the mapping is changed (revoked, ...)
\* while an admitted mapping-id open is between the read and the write of
\* conncode.RecordMappingUsage (read the record, set LastActive, write the whole record back).
\* The stale write-back restores the pre-change record; the next request is validated against it.
\* Must fail (AttachedEntitled).  Not part of the default check: the real code reproduces it
\* (VERIF_C04_INFLIGHT=1 ./check C04 adds the order: Unentitled|Leak|NoFailureAck/inflightUsage:*
\* on the unchanged tree - a lost update between two read-modify-write sequences on the mapping
\* record; proposed known finding "*/inflightUsage:*", round-3 report):
\*   tlc -config TunnelOpen_show_inflight.cfg TunnelOpen.tla
CONSTANTS
  FIXES = {"validateJoin", "secretValidity", "bindMapping", "bindMappingPoll"}
  Idents = {"none", "noneHs", "listen", "target", "stranger"}
  Creds = {"idOnly", "rightSecret", "wrongSecret", "resume", "nothing", "otherId", "otherSecret"}
  MStates = {"active", "revoked", "expired", "expiredJust", "lapsed", "inactive", "error", "suspended", "missing"}
  Shapes = {"std"}
  MUT = {}
  TStates = {"waiting"}
  Orders = {"inflightUsage"}
  Masked = FALSE
  Emit = FALSE
INIT Init
NEXT Next
INVARIANTS TypeOK AttachedEntitled RefusedClean OnlyAttachedRead LegitWorks
CHECK_DEADLOCK FALSE
