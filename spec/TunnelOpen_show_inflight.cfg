\* The tree WITH patches C04-1..3, order "inflightUsage": the mapping is changed (revoked, ...)
\* while an admitted mapping-id open is between the read and the write of
\* conncode.RecordMappingUsage (read the record, set LastActive, write the whole record back).
\* The stale write-back restores the pre-change record; the next request is validated against it.
\* Must fail (AttachedEntitled); not run by the check:
\*   tlc -config TunnelOpen_show_inflight.cfg TunnelOpen.tla
CONSTANTS
  FIXES = {"validateJoin", "secretValidity", "bindMapping", "bindMappingPoll"}
  Idents = {"none", "noneHs", "listen", "target", "stranger"}
  Creds = {"idOnly", "rightSecret", "wrongSecret", "resume", "nothing", "otherId", "otherSecret"}
  MStates = {"active", "revoked", "expired", "expiredJust", "inactive", "error", "suspended", "missing"}
  Shapes = {"std"}
  MUT = {}
  TStates = {"waiting"}
  Orders = {"inflightUsage"}
  Masked = FALSE
  Emit = FALSE
INIT Init
NEXT Next
INVARIANTS TypeOK AttachedEntitled RefusedClean OnlyAttachedRead LegitWorks
CHECK_DEADLOCK FALSE
