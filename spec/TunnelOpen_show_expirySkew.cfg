\* Named deviation "expirySkew" (the behaviour class of seeded change C04-r3m2) on the tree WITH
\* patches C04-1..3: PortMapping.IsExpired tolerates an ExpiresAt that passed a moment ago, so a
\* mapping at the boundary (expiredJust: set by a write; lapsed: reached by the clock) is still
\* IsValid / CanBeAccessedBy on both validation branches.
\* Must FAIL (AttachedEntitled; dev expiryTolerance);
\* the check confirms it through TunnelOpen_show_all.cfg (one run for all named deviations):
\*   tlc -config TunnelOpen_show_expirySkew.cfg TunnelOpen.tla
CONSTANTS
  FIXES = {"validateJoin", "secretValidity", "bindMapping", "bindMappingPoll"}
  Idents = {"none", "noneHs", "listen", "target", "stranger"}
  Creds = {"idOnly", "rightSecret", "wrongSecret", "resume", "nothing", "otherId", "otherSecret"}
  MStates = {"active", "revoked", "expired", "expiredJust", "lapsed", "inactive", "error", "suspended", "missing"}
  Shapes = {"std", "noListen", "noTarget"}
  MUT = {"expirySkew"}
  TStates = {"none", "waiting", "served"}
  Orders = {"legitFirst", "reqFirst"}
  Masked = FALSE
  Emit = FALSE
INIT Init
NEXT Next
INVARIANTS TypeOK AttachedEntitled RefusedClean OnlyAttachedRead LegitWorks
CHECK_DEADLOCK FALSE
