------------------------- MODULE CrossFrameListener -------------------------
(* C10 - listener side of a cross-node connection (cross_node_listener.go):                   *)
(* handleConnection reads the first frame (TargetReady) from the accepted TCP connection with  *)
(* ReadFrame, then handleTargetReady / runBridgeForward copies the SAME connection raw         *)
(* (io.Copy, no framing) to the source side of the bridge.  The sender (forwardToSourceNode)   *)
(* writes the TargetReady frame and starts copying tunnel bytes straight away, so tunnel bytes *)
(* may already be in the socket when the first frame is read.                                   *)
(*                                                                                            *)
(* The byte stream on the connection is  header(H units) payload(P units) data(D units);       *)
(* it reaches the socket in chunks (cut positions chosen nondeterministically = every TCP      *)
(* segmentation).  The frame reader takes bytes from the socket, then the connection is handed  *)
(* over to the raw copier.  Property: no byte taken from the socket is dropped, i.e. the source *)
(* side receives exactly the D data units, in order.                                           *)
(* The code as it is reads exactly H then exactly P bytes (io.ReadFull on the connection).     *)
(* Reading ahead into a private buffer that is not handed over is the named deviation          *)
(* DevReadAhead (enabled by ReadAhead = TRUE; expected to violate NoByteDropped).              *)
EXTENDS Naturals, Sequences, FiniteSets, TLC, Json

CONSTANTS H, P,        \* header / payload length of the first frame (model units)
          DSizes,      \* data lengths explored
          MaxCuts,     \* at most this many chunk boundaries
          ReadAhead,   \* TRUE: the frame reader may buffer more than it needs (deviation)
          Emit

VARIABLES d,           \* number of data units the sender writes behind the frame
          cuts,        \* chunk boundaries: set of positions 1..H+P+d-1
          sent,        \* stream units that have reached the socket so far
          taken,       \* stream units taken from the socket so far (by whoever owns the connection)
          need,        \* units the frame reader still needs for the first frame
          phase,       \* "frame" (frame reader owns the connection) | "copy" (raw copier owns it)
          ahead,       \* units the frame reader holds beyond the first frame
          delivered,   \* data units handed to the source side, as stream positions
          dropped      \* ghost: units taken from the socket and never delivered
vars == <<d, cuts, sent, taken, need, phase, ahead, delivered, dropped>>

F == H + P
Total == F + d
Min(a, b) == IF a < b THEN a ELSE b
CutClass(p) == IF p < H THEN "hdr" ELSE IF p = H THEN "hp" ELSE IF p < F THEN "payload"
               ELSE IF p = F THEN "after" ELSE "data"
SetToSortedSeq(S) == LET RECURSIVE f(_)
                         f(T) == IF T = {} THEN <<>> ELSE LET m == CHOOSE x \in T : \A y \in T : x <= y
                                                        IN <<m>> \o f(T \ {m})
                     IN f(S)
DClass(n) == IF n = 0 THEN "z" ELSE IF n = 1 THEN "one" ELSE "many"
Out(b) == IF Emit THEN PrintT("BEH " \o ToJson(b)) ELSE TRUE

Init == /\ d \in DSizes
        /\ cuts \in {c \in SUBSET (1..(F + d - 1)) : Cardinality(c) <= MaxCuts}
        /\ sent = 0 /\ taken = 0 /\ need = F /\ phase = "frame" /\ ahead = 0
        /\ delivered = <<>> /\ dropped = 0
        /\ Out([kind |-> "listener", dsz |-> DClass(d),
                cuts |-> [i \in 1..Cardinality(cuts) |-> CutClass(SetToSortedSeq(cuts)[i])]])

\* the next chunk arrives in the socket
Arrive == /\ sent < Total
          /\ sent' = (IF \E c \in cuts : c > sent THEN CHOOSE c \in cuts : c > sent /\ \A e \in cuts : e > sent => c <= e ELSE Total)
          /\ UNCHANGED <<d, cuts, taken, need, phase, ahead, delivered, dropped>>

\* ReadFrame: io.ReadFull takes what is there, never more than the frame still needs
ReadExact == /\ phase = "frame" /\ need > 0 /\ sent > taken
             /\ LET n == Min(need, sent - taken)
                IN taken' = taken + n /\ need' = need - n
             /\ UNCHANGED <<d, cuts, sent, phase, ahead, delivered, dropped>>

\* DEVIATION: a buffered frame reader takes everything that is in the socket
DevReadAhead == /\ ReadAhead /\ phase = "frame" /\ need > 0 /\ sent > taken
                /\ LET n == sent - taken
                       k == Min(need, n)
                   IN taken' = taken + n /\ need' = need - k /\ ahead' = ahead + (n - k)
                /\ UNCHANGED <<d, cuts, sent, phase, delivered, dropped>>

\* handleTargetReady -> runBridgeForward: the raw copier takes over the connection; whatever the
\* frame reader holds privately is gone
HandOver == /\ phase = "frame" /\ need = 0
            /\ phase' = "copy" /\ dropped' = dropped + ahead /\ ahead' = 0
            /\ UNCHANGED <<d, cuts, sent, taken, need, delivered>>

\* io.Copy(source, conn): one read of what is in the socket, written to the source side
RawCopy == /\ phase = "copy" /\ sent > taken
           /\ delivered' = delivered \o [i \in 1..(sent - taken) |-> taken + i]
           /\ taken' = sent
           /\ UNCHANGED <<d, cuts, sent, need, phase, ahead, dropped>>

Next == Arrive \/ ReadExact \/ DevReadAhead \/ HandOver \/ RawCopy
Spec == Init /\ [][Next]_vars

TypeOK == taken <= sent /\ sent <= Total /\ need <= F /\ dropped \in Nat
\* no byte read from the socket is dropped at the hand-over
NoByteDropped == dropped = 0 /\ (phase = "copy" => ahead = 0)
\* what the source side got is an in-order prefix of the data behind the frame ...
InOrderPrefix == \A i \in 1..Len(delivered) : delivered[i] = F + i
\* ... and it is complete once nothing can move any more
Quiescent == ~ENABLED Next
Complete == Quiescent => (phase = "copy" /\ Len(delivered) = d)
=============================================================================
