\* C18 / BruteForceLists, deviation cleanupNoRecheck (variant "norecheck"): the clean-up pass collects the expired keys under
\* the read lock and then takes the write lock PER KEY (delete, Delete(record), RemoveFromList inside it) without looking the
\* entry up again.  EXPECTED TO FAIL:
\*   tlc -config BruteForceLists_show_norecheck.cfg BruteForceLists.tla    ->  Invariant MemKeeps is violated (9 steps):
\*   a, b expired ; CStart collects <<a, b>>, locks, deletes a, stands before Delete(a) ; Call(1, BlkP, b) waits for the lock ;
\*   St Delete(a) ; St Remove(a) + Unlock: the waiting call gets the lock before the cleaner does (nx = wait) ; Acq(1): b is
\*   blacklisted permanently ; St Set(b) ; St Append(b): AddToBlacklist returns nil ; Acq(cl): the cleaner locks and deletes b.
\*   With INVARIANTS BlacklistHolds alone the run continues to the Query of b that is answered "allowed".
CONSTANTS
  Addrs = {"a", "b"}
  NetOf = {}
  Ops = {1, 2}
  InitKinds = {"none", "exp", "perm"}
  OpKinds = {"BlkP", "Blk", "MUnbl"}
  Variants = {"norecheck"}
  MaxPass = 1
  MaxCalls = 2
  MaxEpoch = 1
  MaxExp = 2
  MaxWait = 1
  Acts = {"Query", "Reload"}
  Emit = {}
INIT Init
NEXT Next
VIEW view
INVARIANTS TypeOK LockOK MemKeeps BlacklistHolds
CHECK_DEADLOCK FALSE
