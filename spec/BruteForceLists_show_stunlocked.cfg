\* C18 / BruteForceLists, deviation cleanupStorageUnlocked (variant "stunlocked"): per key the pass locks, re-checks that the
\* entry is still expired, deletes it and UNLOCKS - the storage removal (Delete(record), RemoveFromList(index)) follows
\* outside the lock.  EXPECTED TO FAIL:
\*   tlc -config BruteForceLists_show_stunlocked.cfg BruteForceLists.tla   ->  Invariant StoreKeeps is violated (7 steps):
\*   b expired ; CStart deletes b from the map, unlocks, stands before Delete(b) ; Call(1, BlkP, b) + Set(b) + Append(b): b is
\*   blacklisted permanently, in memory and in storage ; St Delete(b), St Remove(b): the pass removes the NEW record and its
\*   index entry.  Memory still refuses b; after a restart (Reload) b is allowed: with INVARIANTS BlacklistHolds alone TLC
\*   continues to Reload ; Query(b) = allowed.
CONSTANTS
  Addrs = {"a", "b"}
  NetOf = {}
  Ops = {1, 2}
  InitKinds = {"none", "exp", "perm"}
  OpKinds = {"BlkP", "Blk", "MUnbl"}
  Variants = {"stunlocked"}
  MaxPass = 1
  MaxCalls = 2
  MaxEpoch = 1
  MaxExp = 2
  MaxWait = 1
  Acts = {"Query", "Reload"}
  Emit = {}
INIT Init
NEXT Next
VIEW view
INVARIANTS TypeOK LockOK StoreKeeps BlacklistHolds
CHECK_DEADLOCK FALSE
