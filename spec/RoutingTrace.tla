---------------------------- MODULE RoutingTrace ----------------------------
(* C09 judge: property-level ground truth for "a waiting tunnel is routable from any node      *)
(* until served or expired".  It follows which tunnel ids have a source end waiting (on which    *)
(* node, registered with which generated field values - the driver compares values in Go and     *)
(* logs the boolean) and how much of the waiting period is left, and checks every lookup the     *)
(* driver made on the real RoutingTable from some node:                                          *)
(*                                                                                              *)
(*   Resolve  while the source end of t waits (registered, not removed, period not lapsed) a     *)
(*            lookup of t from any node is found, names the registering node, returns exactly    *)
(*            the registered field values, and that node's address can be obtained               *)
(*   Gone     otherwise (never registered, bridge ended, or waiting period lapsed) a lookup      *)
(*            does not resolve                                                                   *)
(*                                                                                              *)
(* Timing: the driver discards behaviours whose register..lookup segments overran the safety      *)
(* margin inside the waiting period; a tick is a sleep well beyond the period.                   *)
(* detail:  Resolve/<backend>:<what>:<value class>   what = notfound | expired | error |          *)
(*          wrongnode | fields | addr                                                            *)
(*          Gone/<backend>:<why>                     why  = never | removed | lapsed              *)
EXTENDS VLib

Tunnels == {"t1", "t2", "t3"}
VARIABLES be, br, why
vars == <<l, viol, be, br, why>>

NoBridge == [on |-> FALSE, node |-> "-", left |-> 0, cls |-> "-"]
Init == l = 1 /\ viol = {} /\ be = "?" /\ br = [t \in Tunnels |-> NoBridge] /\ why = [t \in Tunnels |-> "never"]
Step == l' = l + 1

TrCfg == Is("Cfg") /\ be' = Ev.be /\ Step /\ UNCHANGED <<viol, br, why>>

TrAnnounce == Is("Announce") /\ Step /\ UNCHANGED <<viol, be, br, why>>

TrRegister == /\ Is("Register") /\ Ev.t \in Tunnels
              /\ br' = [br EXCEPT ![Ev.t] = [on |-> TRUE, node |-> Ev.n, left |-> Ev.period, cls |-> Ev.cls]]
              /\ Step /\ UNCHANGED <<viol, be, why>>

TrRemove == /\ Is("Remove") /\ Ev.t \in Tunnels
            /\ br' = [br EXCEPT ![Ev.t] = NoBridge]
            /\ why' = [why EXCEPT ![Ev.t] = "removed"]
            /\ Step /\ UNCHANGED <<viol, be>>

TrTick == /\ Is("Tick")
          /\ br' = [t \in Tunnels |-> IF br[t].on /\ br[t].left > 0 THEN [br[t] EXCEPT !.left = @ - 1] ELSE br[t]]
          /\ why' = [t \in Tunnels |-> IF br[t].on /\ br[t].left = 1 THEN "lapsed" ELSE why[t]]
          /\ Step /\ UNCHANGED <<viol, be>>

Waiting(t) == br[t].on /\ br[t].left > 0

Bad(e) ==
  LET t == e.t IN
  IF Waiting(t)
  THEN LET what == IF e.r # "found" THEN e.r
                   ELSE IF e.node # br[t].node THEN "wrongnode"
                   ELSE IF ~e.fieldsEqual THEN "fields"
                   ELSE IF ~e.addrOk THEN "addr" ELSE "ok"
       IN IF what = "ok" THEN {} ELSE {V("Resolve", be \o ":" \o what \o ":" \o br[t].cls)}
  ELSE IF e.r = "found" THEN {V("Gone", be \o ":" \o why[t])} ELSE {}

TrLookup == /\ Is("Lookup") /\ Ev.t \in Tunnels
            /\ viol' = viol \cup Bad(Ev)
            /\ Step /\ UNCHANGED <<be, br, why>>

TrEnd == /\ Is("End") /\ EmitVerdict
         /\ l' = l + 1 /\ viol' = {} /\ be' = "?" /\ br' = [t \in Tunnels |-> NoBridge] /\ why' = [t \in Tunnels |-> "never"]

Next == TrCfg \/ TrAnnounce \/ TrRegister \/ TrRemove \/ TrTick \/ TrLookup \/ TrEnd
Spec == Init /\ [][Next]_vars
=============================================================================
