---------------------------- MODULE RoutingTrace ----------------------------
(* C09 judge: property-level ground truth for "a waiting tunnel is routable from any node      *)
(* until served or expired".  It follows which tunnel ids have a source end waiting (on which    *)
(* node, registered with which generated field values - the driver compares values in Go and     *)
(* logs the boolean) and how much of the waiting period is left, and checks every lookup the     *)
(* driver made on the real RoutingTable from some node:                                          *)
(*                                                                                              *)
(*   Resolve  while the source end of t waits (registered, not removed, period not lapsed) a     *)
(*            lookup of t from any node is found, names the registering node, returns exactly    *)
(*            the registered field values, and that node's address can be obtained               *)
(*   Gone     a lookup does not resolve when the id was never registered, when the tunnel has     *)
(*            ended and its end is fully processed (the bridge lifecycle's removal has run and    *)
(*            no write of the record is still in flight), or when the waiting period of a         *)
(*            written record has lapsed.  While an end is being processed, or a bridge exists     *)
(*            whose record is not written yet, nothing is demanded.                               *)
(*                                                                                              *)
(* Arrive events are target connections driven through the session layer of a node other than   *)
(* the source node: the same two demands on its decision (forwarded to the source node while the   *)
(* tunnel waits - what = refused-arrival | wrongnode-arrival; not forwarded once the id is gone).  *)
(* A Remove / TunnelEnd may carry its cause (why = shutdown: the source node's SessionManager was  *)
(* closed; the lifecycle's removal then runs on a finished context).  A Removed event is the         *)
(* lifecycle having passed its removal step - also when the driver saw that it issued no delete       *)
(* (skipped = TRUE): the end is fully processed either way, and the id must not resolve.              *)
(* In overlap mode (spec/RoutingSet.tla) Create / Set are the encoding and the sending of the         *)
(* record's SET, overlapping with those of other tunnels: value class "...:overlap".                   *)
(*                                                                                              *)
(*   RefusedOpen  a second source-side open (DupOpen) for an id whose bridge exists on that node      *)
(*            that was REFUSED changes nothing: the driver reads the record (fields, CreatedAt,        *)
(*            ExpiresAt, the store's remaining key lifetime where it can be read) before and after     *)
(*            the open and logs recSame / expSame.  An open the code ACCEPTED replaces the source      *)
(*            end - nothing is demanded for the id from then on (two source ends for one id are        *)
(*            outside the statement).  Whether the refusal itself is right is not this property's.     *)
(*                                                                                              *)
(* Registration and removal are logged either as single events (Register / Remove: RoutingTable  *)
(* API level) or as the call-site steps the driver observed: Create (bridge in the map, the       *)
(* record's Set issued), Set (the Set landed), TunnelEnd (bridge closed), Removed (the           *)
(* lifecycle's RemoveWaitingTunnel ran).                                                         *)
(*                                                                                              *)
(* Timing: the driver discards behaviours whose register..lookup segments overran the safety      *)
(* margin inside the waiting period; a tick is a sleep well beyond the period.                   *)
(* The value class carries the circumstances of the registration where they matter:              *)
(*   "...:target=same|other" - where the mapping's target client had its control connection,      *)
(*   "reregister-race"        - the id was re-registered concurrently with lookups that met the    *)
(*                              lapsed, unswept record of its previous registration,               *)
(*   "period=1.5s|2.5s"       - waiting period that is not a whole number of seconds.              *)
(* detail:  Resolve/<backend>:<what>:<value class>   what = notfound | expired | error |          *)
(*          wrongnode | fields | addr                                                            *)
(*          RefusedOpen/<backend>:<what>:<value class>:dup=<same|other>   what = fields | expiry   *)
(*          Gone/<backend>:<why>                     why  = never | removed | lapsed | shutdown | *)
(*                                                          ended:late-set (the record was       *)
(*                                                          written after the removal had run)   *)
EXTENDS VLib

Tunnels == {"t1", "t2", "t3"}
VARIABLES be, br, why,
          fl,   \* tunnel -> the record's Set is in flight
          rp    \* tunnel -> the tunnel ended, the lifecycle's removal has not run yet
vars == <<l, viol, be, br, why, fl, rp>>

NoBridge == [on |-> FALSE, node |-> "-", left |-> 0, cls |-> "-"]
None == [t \in Tunnels |-> FALSE]
Init == /\ l = 1 /\ viol = {} /\ be = "?" /\ br = [t \in Tunnels |-> NoBridge] /\ why = [t \in Tunnels |-> "never"]
        /\ fl = None /\ rp = None
Step == l' = l + 1

TrCfg == Is("Cfg") /\ be' = Ev.be /\ Step /\ UNCHANGED <<viol, br, why, fl, rp>>

TrAnnounce == Is("Announce") /\ Step /\ UNCHANGED <<viol, be, br, why, fl, rp>>

TrRegister == /\ Is("Register") /\ Ev.t \in Tunnels
              /\ br' = [br EXCEPT ![Ev.t] = [on |-> TRUE, node |-> Ev.n, left |-> Ev.period, cls |-> Ev.cls]]
              /\ fl' = [fl EXCEPT ![Ev.t] = FALSE] /\ rp' = [rp EXCEPT ![Ev.t] = FALSE]
              /\ Step /\ UNCHANGED <<viol, be, why>>

\* ---- the call-site steps ----
TrCreate == /\ Is("Create") /\ Ev.t \in Tunnels
            /\ br' = [br EXCEPT ![Ev.t] = [on |-> TRUE, node |-> Ev.n, left |-> Ev.period, cls |-> Ev.cls]]   \* the period runs from the issue of the Set
            /\ fl' = [fl EXCEPT ![Ev.t] = TRUE]
            /\ Step /\ UNCHANGED <<viol, be, why, rp>>

TrSet == /\ Is("Set") /\ Ev.t \in Tunnels
         /\ fl' = [fl EXCEPT ![Ev.t] = FALSE]
         /\ br' = br
         /\ why' = IF ~br[Ev.t].on /\ ~rp[Ev.t] THEN [why EXCEPT ![Ev.t] = "ended:late-set"] ELSE why
         /\ Step /\ UNCHANGED <<viol, be, rp>>

TrTunnelEnd == /\ Is("TunnelEnd") /\ Ev.t \in Tunnels
               /\ br' = [br EXCEPT ![Ev.t] = NoBridge]
               /\ rp' = [rp EXCEPT ![Ev.t] = TRUE]
               /\ why' = [why EXCEPT ![Ev.t] = IF Has("why") THEN Ev.why ELSE "ended"]      \* the cause of the end
               /\ Step /\ UNCHANGED <<viol, be, fl>>

TrRemoved == /\ Is("Removed") /\ Ev.t \in Tunnels
             /\ rp' = [rp EXCEPT ![Ev.t] = FALSE]
             /\ why' = [why EXCEPT ![Ev.t] = IF why[Ev.t] = "shutdown" THEN "shutdown" ELSE "removed"]
             /\ Step /\ UNCHANGED <<viol, be, br, fl>>

TrRemove == /\ Is("Remove") /\ Ev.t \in Tunnels
            /\ br' = [br EXCEPT ![Ev.t] = NoBridge]
            /\ why' = [why EXCEPT ![Ev.t] = IF Has("why") THEN Ev.why ELSE "removed"]
            /\ fl' = [fl EXCEPT ![Ev.t] = FALSE] /\ rp' = [rp EXCEPT ![Ev.t] = FALSE]
            /\ Step /\ UNCHANGED <<viol, be>>

TrTick == /\ Is("Tick")
          /\ br' = [t \in Tunnels |-> IF br[t].on /\ br[t].left > 0 THEN [br[t] EXCEPT !.left = @ - 1] ELSE br[t]]
          /\ why' = [t \in Tunnels |-> IF br[t].on /\ br[t].left = 1 THEN "lapsed" ELSE why[t]]
          /\ Step /\ UNCHANGED <<viol, be, fl, rp>>

Waiting(t) == br[t].on /\ ~fl[t] /\ br[t].left > 0
Settled(t) == ~br[t].on /\ ~rp[t] /\ ~fl[t]
Lapsed(t)  == br[t].on /\ ~fl[t] /\ br[t].left = 0

Bad(e) ==
  LET t == e.t IN
  IF Waiting(t)
  THEN LET what == IF e.r # "found" THEN e.r
                   ELSE IF e.node # br[t].node THEN "wrongnode"
                   ELSE IF ~e.fieldsEqual THEN "fields"
                   ELSE IF ~e.addrOk THEN "addr" ELSE "ok"
       IN IF what = "ok" THEN {} ELSE {V("Resolve", be \o ":" \o what \o ":" \o br[t].cls)}
  ELSE IF (Settled(t) \/ Lapsed(t)) /\ e.r = "found" THEN {V("Gone", be \o ":" \o why[t])} ELSE {}

TrLookup == /\ Is("Lookup") /\ Ev.t \in Tunnels
            /\ viol' = viol \cup Bad(Ev)
            /\ Step /\ UNCHANGED <<be, br, why, fl, rp>>

ArriveBad(e) ==
  LET t == e.t IN
  IF Waiting(t) /\ br[t].node # e.m
  THEN LET what == IF e.r # "forward" THEN "refused-arrival" ELSE IF e.node # br[t].node THEN "wrongnode-arrival" ELSE "ok"
       IN IF what = "ok" THEN {} ELSE {V("Resolve", be \o ":" \o what \o ":" \o br[t].cls)}
  ELSE IF (Settled(t) \/ Lapsed(t)) /\ e.r = "forward" THEN {V("Gone", be \o ":" \o why[t] \o ":forwarded")} ELSE {}

TrArrive == /\ Is("Arrive") /\ Ev.t \in Tunnels
            /\ viol' = viol \cup ArriveBad(Ev)
            /\ Step /\ UNCHANGED <<be, br, why, fl, rp>>

\* ---- a second source-side open for a known id ----
DupBad(e) ==
  LET t == e.t
      cls == br[t].cls \o ":dup=" \o e.k IN
  IF br[t].on /\ br[t].node = e.n /\ e.r = "refused"
  THEN (IF ~e.recSame THEN {V("RefusedOpen", be \o ":fields:" \o cls)} ELSE {})
       \cup (IF ~e.expSame THEN {V("RefusedOpen", be \o ":expiry:" \o cls)} ELSE {})
  ELSE {}
TrDupOpen == /\ Is("DupOpen") /\ Ev.t \in Tunnels
             /\ viol' = viol \cup DupBad(Ev)
             \* an accepted second open: the source end was replaced, its end is "being processed" for good
             /\ br' = IF Ev.r = "accepted" THEN [br EXCEPT ![Ev.t] = NoBridge] ELSE br
             /\ rp' = IF Ev.r = "accepted" THEN [rp EXCEPT ![Ev.t] = TRUE] ELSE rp
             /\ Step /\ UNCHANGED <<be, why, fl>>

TrTargetGone == Is("TargetGone") /\ Step /\ UNCHANGED <<viol, be, br, why, fl, rp>>

TrEnd == /\ Is("End") /\ EmitVerdict
         /\ l' = l + 1 /\ viol' = {} /\ be' = "?" /\ br' = [t \in Tunnels |-> NoBridge] /\ why' = [t \in Tunnels |-> "never"]
         /\ fl' = None /\ rp' = None

Next == TrArrive \/ TrDupOpen \/ TrTargetGone \/ TrCfg \/ TrAnnounce \/ TrRegister \/ TrCreate \/ TrSet \/ TrTunnelEnd \/ TrRemoved \/ TrRemove \/ TrTick \/ TrLookup \/ TrEnd
Spec == Init /\ [][Next]_vars
=============================================================================
