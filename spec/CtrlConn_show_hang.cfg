\* X05 demonstration, EXPECTED TO FAIL: the code as found (Fixed = FALSE) against the strict property - TLC prints the schedule.
\* HandshakeHang: the server accepts and stays silent; Connect never returns, the client never recovers (liveness Recovers)
CONSTANTS
  Users = {"u1", "u2"}
  MaxConn = 3
  Scenes <- HangScenes
  RejKinds = {"other"}
  MaxAttempts = 0
  Fixed = FALSE
  Emit = FALSE
SPECIFICATION FairSpec
VIEW view
INVARIANTS TypeOK 
PROPERTIES Recovers
CHECK_DEADLOCK FALSE
