\* (ii) UDP - SEEDED FAULT (C12/r2m2, not in the code): UDPVirtualConn.Write queues the caller's slice
\* (a reference into the relay's readBuf) instead of a copy.  THIS RUN MUST FAIL with
\* "Invariant UDatagrams is violated": a queued datagram goes out with a later datagram's bytes.
CONSTANTS
  MaxSend = 1
  EofWithData = TRUE
  ShapesA <- LocalShapes
  ShapesB <- AllShapes
  DevDeadlineAt = "none"
  DevDeadlineHits = {"read"}
  Monitor = FALSE
  IdleMax = 2
  DevMonNoFeed = FALSE
  Reactive = FALSE
  DevNoSignalOnError = FALSE
  DevCloseWriterFallback = FALSE
  Emit = FALSE
  Classes = {1, 2, 3, 4}
  BatchSize = 32
  BatchBuf = 22
  High = 100
  MaxT = 2
  MaxU = 1
  TSeqs <- TAll
  USeqs <- UNone
  Cuts = "all"
  Chunks = {0}
  Paces = {"burst"}
  DevSpin = FALSE
  DevNoUnblock = FALSE
  DevAliasFlush = FALSE
  SockBatch = FALSE
  DevNoInnerFlush = FALSE
  SockQueue = TRUE
  DevQueueRefs = TRUE
  DevSockDeadline = FALSE
  DevDropOnClose = FALSE
SPECIFICATION USpec
INVARIANTS UTypeOK UDatagrams UComplete UCompleteAny UEncoded UFlushed UMutex UBuf UBatchFits UNoSpuriousEnd
PROPERTIES UDelivMonotone UEventuallyFlushed UTermination
CHECK_DEADLOCK FALSE
