\* ConnCode.tla - the repaired design, but the failure cleanup (delete the claim key) also runs for a caller that LOST the
\* claim ("release on any failure after the claim step"). Three activators: a1 holds the
\* claim and is in flight, a2 loses the claim and deletes a1's key, a3 (stale reader) wins SetNX: two mappings.
\* EXPECTED RESULT: TLC reports "Invariant AtMostOneSuccess is violated". With RelScope = "fail": no error.
\*   tlc -workers 8 -config ConnCode_show_relloser.cfg ConnCode.tla
CONSTANTS
  Acts = {"a1", "a2", "a3"}
  HasRev = FALSE
  CanExpire = FALSE
  MaxFault = 0
  PreSet = {}
  Quota = 3
  Claim = TRUE
  CreateRb = TRUE
  Node2 = {"a2"}
  ClaimLocal = FALSE
  SameAs = {}
  Reclaim = FALSE
  ResetOnFail = FALSE
  ResetCreate = FALSE
  RelScope = "loser"
  CanTick = FALSE
  ShortClaim = FALSE
  Emit = FALSE
INIT Init
NEXT Next
VIEW view
INVARIANTS TypeOK NoActivationAfterDeath LockOK AtMostOneSuccess AtMostOneMapping SuccessWasValid FailedLeavesNone FieldsOK
CHECK_DEADLOCK FALSE
