\* C19 model configuration template; @@X@@ are substituted by harness/drivers/c19 (cfgJob there).
\* Bounds used by the check (quick tier unless noted):
\*   conc3   ProcsC1 = {p1, p3} ProcsC2 = {p2}  1 name     1 call per process (thorough: 2)  1 lookup process
\*   conc2   ProcsC1 = {p1}     ProcsC2 = {p2}  1-2 names  <=2 calls per process  <=1 failing write
\*           (p2 creates through the command handler: pre-check + expiry update)
\*   seq     sequential histories with Update / expiry, legacy mappings on this / another node
CONSTANTS
  ProcsC1 = @@P1@@
  ProcsC2 = @@P2@@
  LookProcs = @@LP@@
  Names = @@NAMES@@
  MaxOps = @@MAXOPS@@
  MaxLook = @@MAXLOOK@@
  Kinds = @@KINDS@@
  Pre = @@PRE@@
  Faults = @@FAULTS@@
  Guess = @@GUESS@@
  HandlerProcs = @@HANDLER@@
  Serial = @@SEQ@@
  MaxLegacy = @@MAXLEG@@
  Fix = @@FIX@@
  Emit = @@EMIT@@
INIT Init
NEXT Next
VIEW view
INVARIANTS TypeOK @@INVS@@
CHECK_DEADLOCK FALSE
