\* C19 model configuration template; @@X@@ are substituted by harness/drivers/c19 (cfgJob there).
\* Configurations used by the check (p2 = client c2 creates through the command handler in all of them;
\* every job is exhaustive for its bounds, VIEW = all variables but hist, and - with Emit - prints one
\* behaviour per transition of the state graph):
\*   quick    gen:conc3     ProcsC1 = {p1, p3} ProcsC2 = {p2}  n1  1 call/process  1 lookup process  mapping 1 pre-exists
\*            gen:conc2f    ProcsC1 = {p1} ProcsC2 = {p2}      n1  2 calls/process 1 lookup process  1 failing write
\*            gen:seq       Serial, Create/Delete/Update, 2 calls/process, 2 lookups, 1 legacy mapping (here/other node)
\*            gen:del3      ProcsC1 = {p1, p3, p4} delete only, ProcsC2 = {p2} creates only, n1, 1 call/process, 1 lookup
\*            gen:delf      Serial, p1 (owner, repository) deletes twice, p2 claims, 2 lookups; DelFaults: any one storage
\*                          operation of DeleteMapping fails once (then the retry, the re-claim, the lookups)
\*            gen:spell     Serial, Create/Delete, 2 calls/process, 2 lookups, all six Host / subdomain spellings
\*            legacy:conc3, legacy:seq   Fix = FALSE, CaseFold = FALSE (the code before the two repairs), no invariants
\*            legacy:dev:conflict-unlock  the del3 configuration with Deviate = {"conflictUnlock"}
\*            legacy:dev:lazy-clean       two claimants + lookups with Deviate = {"lazyClean"}   (schedules of code
\*                          with these deviations; on the present code they diverge and are judged as far as they go)
\*   thorough + gen:conc3f (1 failing write), gen:conc2:2names (n1, n2), gen:seqleg (2 legacy mappings, 3 lookups),
\*            gen:seqf (Serial + failing write), legacy:conc2f
\*            mc:guess (Guess = TRUE), mc:conc3x2 (2 calls/process, no lookup process), mc:conc2:2names (+ failing
\*            write), mc:seq:3ops, mc:spell:3ops
\* Invariants: OneOwner RouteOK OwnerOnly LockHeld OnlyHolderUnlocks LookupPure ListPure RegisterAtomic Consistent Claimable NoIndexTheft; configurations with legacy mappings
\* use OneOwnerX / RouteOKX (the two legacy deviations are recorded known findings and must not hide other routes).
CONSTANTS
  ProcsC1 = @@P1@@
  ProcsC2 = @@P2@@
  LookProcs = @@LP@@
  Names = @@NAMES@@
  MaxOps = @@MAXOPS@@
  MaxLook = @@MAXLOOK@@
  Kinds = @@KINDS@@
  Pre = @@PRE@@
  Faults = @@FAULTS@@
  Guess = @@GUESS@@
  HandlerProcs = @@HANDLER@@
  Serial = @@SEQ@@
  MaxLegacy = @@MAXLEG@@
  Fix = @@FIX@@
  Spell = @@SPELL@@
  CaseFold = @@FOLD@@
  OnlyDelete = @@ONLYDEL@@
  OnlyCreate = @@ONLYCRE@@
  Deviate = @@DEVIATE@@
  DelFaults = @@DELFAULTS@@
  CreateFaults = @@CREFAULTS@@
  OnlyList = @@ONLYLIST@@
  Emit = @@EMIT@@
INIT Init
NEXT Next
VIEW view
INVARIANTS TypeOK @@INVS@@
CHECK_DEADLOCK FALSE
