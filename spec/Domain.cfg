\* C19 model configuration template; @@X@@ are substituted by harness/drivers/c19 (genTable / job there).
\* Configurations used by the check (p2 = client c2 creates through the command handler unless stated otherwise;
\* every job is exhaustive for its bounds, VIEW = all variables but hist, and - with Emit - prints one
\* behaviour per transition of the state graph):
\*   quick    gen:conc3     ProcsC1 = {p1, p3} ProcsC2 = {p2}  n1  1 call/process  1 lookup process  mapping 1 pre-exists
\*            gen:seq       Serial, Create/Delete/Update, 2 calls/process, 1-2 lookups, 1 legacy mapping (here/other node)
\*            gen:del3      ProcsC1 = {p1, p3, p4} delete only, ProcsC2 = {p2} creates only, n1, 1 call/process
\*            gen:opf       Serial, p1 (c1, command handlers) and p2 (c2, repository), 2 calls each, 1 lookup; CreateFaults +
\*                          DelFaults: any ONE storage operation of a create (pre-check, id counter, index SetNX as an ERROR,
\*                          record, list, expiry update) or of a delete fails; then the retry, the re-claim, the lookups
\*            gen:retry     Serial, p1 (c1, repository) creates / deletes twice, p2 (c2) claims in between, no lookup process;
\*                          any ONE storage operation of a create / delete fails: the RETRY of a failed call after the other
\*                          client's operations (all behaviours are driven)
\*            gen:list      p1 = the owner lists, p3 = the owner deletes, p2 = another client claims, 1 lookup process
\*            gen:upd       p1 = the owner updates (inactive / expired) or deletes, p3 = the owner deletes, p2 claims
\*            gen:updf      Serial, Names = {n1, n2}, p1 (c1) creates / updates / deletes twice, p2 (c2) claims; UpdFields = every field
\*                          of the record as the changed one (status, expiry, target, description, created-at; client, subdomain,
\*                          base domain, full domain - the last two with the other name as value), 1 lookup
\*            gen:rdf       Serial, Create/Delete/List/Update, 2 calls each, 1 lookup; ReadFaults: any ONE storage operation
\*                          of a listing, of a host lookup or of a stand-alone update fails
\*            gen:shadow    Serial, one repository owner (created, made inactive / expired) + one legacy mapping of the
\*                          same name + a lookup: the three lookup sources against each other
\*            gen:shadowf   the same with legacy mappings of every status (LegStatus) and ReadFaults
\*            legacy:dev:conflict-unlock  the del3 configuration with Deviate = {"conflictUnlock"}
\*   thorough + gen:conc2f, gen:conc3f (1 failing write), gen:conc2:2names (n1, n2), gen:seqleg (2 legacy mappings, 3 lookups),
\*            gen:seqf (Serial + failing write), gen:spell (all six Host / subdomain spellings), gen:listf (gen:list + ReadFaults)
\*            legacy:conc3, legacy:seq, legacy:conc2f   Fix = FALSE, CaseFold = FALSE (the code before the two repairs), no invariants
\*            legacy:dev:lazy-clean / nx-release / fall-through / list-heals / update-heals / unguarded-delete   schedules of code that has the
\*                          named deviations (on the present code they diverge and are judged as far as they go)
\*            mc:guess (Guess = TRUE), mc:conc3x2 (2 calls/process, no lookup process), mc:conc2:2names (+ failing
\*            write), mc:seq:3ops, mc:spell:3ops
\* Invariants: OneOwner RouteOK OwnerOnly LockHeld OnlyHolderUnlocks LookupPure ListPure UpdateClaimsNothing UpdateKeepsIdentity RegisterAtomic
\* Consistent Claimable NoIndexTheft NoShadow LegacyInactiveRejects; configurations with legacy mappings use OneOwnerX / RouteOKX
\* (the two legacy deviations are recorded known findings and must not hide other routes; NoShadow and LegacyInactiveRejects are
\* never excused). ExpiryStored is checked when the code under test has the C19-3 repair (TTLRollback = TRUE, probed by the driver).
\* Each named deviation has a Domain_show_<x>.cfg under which TLC reports the violated invariant.
CONSTANTS
  ProcsC1 = @@P1@@
  ProcsC2 = @@P2@@
  LookProcs = @@LP@@
  Names = @@NAMES@@
  MaxOps = @@MAXOPS@@
  MaxLook = @@MAXLOOK@@
  Kinds = @@KINDS@@
  Pre = @@PRE@@
  Faults = @@FAULTS@@
  Guess = @@GUESS@@
  HandlerProcs = @@HANDLER@@
  Serial = @@SEQ@@
  MaxLegacy = @@MAXLEG@@
  Fix = @@FIX@@
  Spell = @@SPELL@@
  CaseFold = @@FOLD@@
  OnlyDelete = @@ONLYDEL@@
  OnlyCreate = @@ONLYCRE@@
  Deviate = @@DEVIATE@@
  DelFaults = @@DELFAULTS@@
  CreateFaults = @@CREFAULTS@@
  ReadFaults = @@READFAULTS@@
  TTLRollback = @@TTLROLLBACK@@
  UpdFields = @@UPDFIELDS@@
  LegStatus = @@LEGSTATUS@@
  OnlyList = @@ONLYLIST@@
  Emit = @@EMIT@@
INIT Init
NEXT Next
VIEW view
INVARIANTS TypeOK @@INVS@@
CHECK_DEADLOCK FALSE
