\* variant: ClientRegistry.Register releases the registry lock between evicting the oldest connection and inserting.
\*   tlc -config Limits_show_ctrlsplit.cfg Limits.tla   (expected: Invariant NoOvershoot is violated, e.g. n = 3,
\*   limit = 1: Reg(1), Reg(2) [evicts 1, inside Close], Reg(3) [below the cap: inserts], RegIns(2))
CONSTANTS
  Kinds = {"ctrlcap"}
  NS = {2, 3, 4}
  Lims = {0, 1, 2}
  NodeCounts = {1}
  Variants = {"ctrlsplit"}
  Shape = "free"
  MaxReRel = 2
  Slacks = {1, 2}
  Listers = 1
  Retries = 1
  FixedKinds = {"conncap", "maplimit", "maplive", "codequota", "mapquota"}
  WithRelease = TRUE
  Emit = FALSE
  EmitMaxN = 4
  EmitAll = FALSE
INIT Init
NEXT Next
VIEW view
INVARIANTS TypeOK NoOvershoot
CHECK_DEADLOCK FALSE
