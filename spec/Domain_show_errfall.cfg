\* C19 - deviation errFallsThrough (neighbour of C19-r3m2): a storage ERROR of the repository lookup (index or record read) is
\* treated like "not found" and the legacy sources are asked. Expected: Invariant NoShadow is violated - the ACTIVE owner's
\* request is served by the other client's legacy mapping whenever the shared cache hiccups.
\*   tlc -config Domain_show_errfall.cfg Domain.tla      (the same constants with Deviate = {} pass: `./check C19`)
CONSTANTS
  ProcsC1 = {"p1"}
  ProcsC2 = {}
  LookProcs = {"lk"}
  Names = {"n1"}
  MaxOps = 2
  MaxLook = 1
  Kinds = {"Create", "Update"}
  Pre = FALSE
  Faults = 1
  Guess = FALSE
  HandlerProcs = {}
  Serial = TRUE
  MaxLegacy = 1
  Fix = TRUE
  Spell = {"plain"}
  CaseFold = TRUE
  OnlyDelete = {}
  OnlyCreate = {}
  Deviate = {"errFallsThrough"}
  DelFaults = FALSE
  CreateFaults = FALSE
  ReadFaults = TRUE
  TTLRollback = TRUE
  UpdFields = {"inactive", "expired"}
  LegStatus = {"active"}
  OnlyList = {}
  Emit = FALSE
INIT Init
NEXT Next
VIEW view
INVARIANTS TypeOK NoShadow
CHECK_DEADLOCK FALSE
