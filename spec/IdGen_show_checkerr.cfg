\* The code as it is, with a failing check function (fk = "Check"): the id is assumed free and returned although it exists in
\* the caller's repository (NoTaken violated, ghost chkAssumed).  Deliberate in the code ("if the check fails, assume it does
\* not exist"); no caller in tunnox-core; such behaviours are not driven.
\* Not run by the check (it must fail); kept to show the counterexample:
\*   tlc -config IdGen_show_checkerr.cfg IdGen.tla
CONSTANTS
  Mode = "uniq"
  Procs = {"p1"}
  HasNX = "yes"
  NCands = 2
  MaxAttempts = 2
  MaxCalls = 1
  Layouts = {"distinct"}
  NSlots = 1
  RenewTier = "claim"
  Wiring = "split"
  TTLTicks = 3
  MaxTicks = 0
  Faults = {"Check"}
  MaxRenewFails = 0
  MaxConsecFails = 1
  HbGiveUp = "never"
  GiveUpAfter = 0
  RenewTTLTicks = 3
  Realloc = FALSE
  StopChan = "once"
  MaxU = 2
  ExhaustionReturnsLast = FALSE
  WithLapse = FALSE
  Emit = FALSE
INIT Init
NEXT Next
VIEW view
INVARIANTS TypeOK NoTaken
CHECK_DEADLOCK FALSE
