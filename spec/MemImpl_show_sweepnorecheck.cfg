\* C13 - named deviation of spec/MemImpl.tla: seeded C13-r4m1 - CleanupExpired scans under the read lock and deletes the recorded keys by name under the write lock. Expected: StoresAgree / NeverExpiringStays violated - Set(S); Tick; SweepScan; Set(ttl 0); SweepDel: the acknowledged never-expiring value is gone.
\*   tlc -config MemImpl_show_sweepnorecheck.cfg MemImpl.tla      (the same constants with Sweep = "locked", Evict = "recheck",
\*   LazyReads / OldCAS / OldSetExp = FALSE pass: ./check C13)
CONSTANTS
  Keys = {"s1"}
  Vals = {"a", "b"}
  MaxClock = 2
  OldCAS = FALSE
  OldSetExp = FALSE
  Procs = {"p1"}
  Sweepers = {"ex"}
  Sweep = "scan_norecheck"
  Evict = "recheck"
  LazyReads = FALSE
  Emit = FALSE
INIT Init
NEXT Next
INVARIANTS TypeOK StoresAgree AnswersAgree NeverExpiringStays
PROPERTY SilentInvisible
CHECK_DEADLOCK FALSE
