\* X04 demonstration, EXPECTED TO FAIL: ReqResp_show_unwired.cfg8
CONSTANTS
  Variant = "server"
  NW = 1
  NR = 1
  MaxReq = 1
  MaxMsg = 1
  MaxExp = 1
  MaxStop = 0
  MaxDrop = 0
  Kinds = {"ok"}
  Unknown = FALSE
  Cross = FALSE
  Fixed = TRUE
  Wired = FALSE
  Eager = FALSE
  Emit = FALSE
SPECIFICATION Spec
INVARIANTS TypeOK NoLoss

CHECK_DEADLOCK FALSE
