\* X07 exhaustive check of the notification model (template: the @@..@@ fields are filled by harness/drivers/x07).
\*   mc:send:fixed     Part "send",   Devs {}                    INVS OnlyTarget AtMostOnce CleanFail Counted LockOwned NoDeviation
\*   mc:send:asis      Part "send",   Devs {"TunnelInBroadcast"} INVS OnlyTargetOrDev AtMostOnce CleanFail Counted LockOwned
\*   mc:client:fixed   Part "client", Devs {}                    INVS NoCallAfterRemove OncePerHandler AckExact NoExpired EndsNamed OnlyNamed CloseOnce Registered NoDeviation
\*   mc:client:asis    Part "client", Devs {"SnapshotCall","StaleUnregister"}  INVS OncePerHandler AckExact NoExpired EndsNamedOrDev OnlyNamed CloseOnce Registered
\*   mc:push:fixed     Part "push",   Devs {}                    INVS PushOnce PushOrder PushTarget PushDelivered NoDeviation
\*   mc:push:asis      Part "push",   Devs {"PushReorder"}       INVS PushOnce PushOrderOrDev PushTarget PushDelivered
\*   live:*            SPEC LiveSpec, PROPS SendReturns | ReaderFree | PushDrains PushersReturn
\* Emit = FALSE: hist stays empty.  Bounds: NS senders, MaxConn connections, MaxSend unicasts, MaxBcast broadcasts;
\* NH user handlers, MaxNotif notifications, MaxAdd AddHandler calls, NG tunnel generations over two tunnel ids,
\* Flags = notification variety (ack exp bad unknown error listen); NP pushers, MaxPush pushes, MaxMove moves of the
\* client between {offline, node 1 (origin), node 2}, MaxChange configuration changes.
CONSTANTS
  Part = @@PART@@
  Devs = @@DEVS@@
  Emit = FALSE
  MinLen = 0
  Eager = FALSE
  NS = @@NS@@
  MaxConn = @@MAXCONN@@
  MaxSend = @@MAXSEND@@
  MaxBcast = @@MAXBCAST@@
  NH = @@NH@@
  MaxNotif = @@MAXNOTIF@@
  MaxAdd = @@MAXADD@@
  NG = @@NG@@
  Flags = @@FLAGS@@
  NP = @@NP@@
  MaxPush = @@MAXPUSH@@
  MaxMove = @@MAXMOVE@@
  MaxChange = @@MAXCHANGE@@
SPECIFICATION @@SPEC@@
INVARIANTS TypeOK @@INVS@@
@@PROPS@@
CHECK_DEADLOCK FALSE
