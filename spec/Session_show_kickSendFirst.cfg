\* C07 named deviation "kickSendFirst" (the behaviour class of seeded change C07-r3m3): KickOldConnection looks
\* the old connection up, delivers the kick command outside the lock and only then deletes the index entry of
\* the client (unconditionally) and the old connection.  A login of the same client on another connection
\* inside that window loses its index entry; the next login then leaves two current control connections.
\* TLC must report C07One violated:  FirstLogin(c1) ; KickBegin(A) ; Login(c2,A) ; KickEnd ; Login(c3,A).
\* The as-is model (Faults = {}) passes: Session_kick.cfg.
CONSTANTS
  Conn <- Conn3
  Client <- Client1
  MaxNonce = 2
  MaxFail = 3
  MaxCtl = 0
  Faults = {"kickSendFirst"}
  Ops = {"FirstLogin", "Login", "KickBegin", "Close"}
  Types = {"control"}
  PreAccept = TRUE
  Fixes = {"oneIdentity", "atomicEvict"}
  Split = FALSE
  MaxLevel = 8
  Emit = "no"
INIT Init
NEXT Next
VIEW view
INVARIANTS TypeOK OnlyProven C07Inv C07One
CHECK_DEADLOCK FALSE
