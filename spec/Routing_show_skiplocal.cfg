\* Documentation only (not run by the check; verified by hand): the design that publishes no record when the target client is connected to the source node (SkipLocalTarget).
\* TLC reports LookupExact violated: Register(A,t1,loc=same) - the tunnel waits, no node resolves it (deviation "notPublished").
CONSTANTS
  Nodes = {"A", "B"}
  Tunnels = {"t1", "t2"}
  TTL = 1
  MaxReg = 2
  MaxClock = 1000
  MaxHist = 99
  Shapes = {"jsonString"}
  Mode = "atomic"
  LifecycleFirst = FALSE
  SkipLocalTarget = TRUE
  EvictingLookup = FALSE
  HonourContext = FALSE
  RejectSeenIds = FALSE
  RegisterBeforeExistsCheck = FALSE
  MaxDup = 0
  Emit = FALSE
  Only = "all"
INIT Init
NEXT Next
VIEW view
INVARIANTS TypeOK LookupExact
CHECK_DEADLOCK FALSE
