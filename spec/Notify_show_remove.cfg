\* X07 demonstration, EXPECTED TO FAIL (a handler is called after RemoveHandler returned): the code as found (SnapshotCall) violates NoCallAfterRemove
CONSTANTS
  Part = "client"
  Devs = {"SnapshotCall"}
  Emit = FALSE
  MinLen = 0
  Eager = FALSE
  NS = 1
  MaxConn = 2
  MaxSend = 0
  MaxBcast = 1
  NH = 2
  MaxNotif = 1
  MaxAdd = 2
  NG = 2
  Flags = {}
  NP = 1
  MaxPush = 2
  MaxMove = 1
  MaxChange = 1
SPECIFICATION Spec
INVARIANTS TypeOK NoCallAfterRemove
CHECK_DEADLOCK FALSE
