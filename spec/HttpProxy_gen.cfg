\* X06 behaviour generation (template filled by harness/drivers/x06): Emit = TRUE prints one behaviour per
\* transition of the state graph (VIEW hides hist), Eager = TRUE keeps to schedules a driver can force
\* (a blocked caller takes a delivered response at once; no expiry / cancel while a response sits in the channel).
\*   gen:req / gen:tun        the repaired orderings      legacy:req / legacy:tun   the code as found
CONSTANTS
  Variant = @@VARIANT@@
  NW = @@NW@@
  NR = @@NR@@
  MaxReq = @@MAXREQ@@
  MaxMsg = @@MAXMSG@@
  MaxExp = @@MAXEXP@@
  MaxCancel = @@MAXCANCEL@@
  MaxOff = @@MAXOFF@@
  Kinds = @@KINDS@@
  Unknown = @@UNKNOWN@@
  RegFirst = @@REGFIRST@@
  Atomic = @@ATOMIC@@
  Told = @@TOLD@@
  Wired = TRUE
  Eager = TRUE
  Emit = TRUE
INIT Init
NEXT Next
VIEW view
INVARIANTS TypeOK
CHECK_DEADLOCK FALSE
