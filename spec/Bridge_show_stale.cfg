\* Documentation only (not run by the check): the bridge AS FOUND against the strict liveness clauses.
\* TLC reports a lasso for Forgotten / ClosureSeen: ReplaceSource, then an end closes; the s2t copier
\* stays parked in Read on the replaced connection (stuttering), the tunnel is never unregistered.
CONSTANTS
  BUF = 3
  MaxSends = 0
  MaxSlow = 5
  Lims = {"none"}
  Classes = {"one"}
  Faults = FALSE
  Replace = TRUE
  ExtCloseOn = FALSE
  DevLimiter = TRUE
  DevNilFwd = TRUE
  DevStaleSrc = TRUE
  DevSleepLimiter = FALSE
  DevWriteLock = FALSE
  DevRouteFirst = FALSE
  DevCleanupFirst = FALSE
  RegLegs = {}
  DevIdleSweep = FALSE
  DevFwdNoEof = FALSE
  SrcKinds = {"direct"}
  DevBufio = FALSE
  AttachKinds = {"local"}
  HoldOn = FALSE
  Gen = FALSE
  Emit = FALSE
SPECIFICATION LiveSpec
VIEW view
INVARIANTS TypeOK
PROPERTIES ClosureSeen Forgotten
CHECK_DEADLOCK FALSE
