\* Deviation ReturnedIdReleased (seeded change C15-r6m2): the retry loop keeps its rejected candidates in a list that is released
\* on the way out - and the id RETURNED on the check-error path ("assume it does not exist, use it") is still in that list: a
\* live, never released id has no marker; the next generator that draws it is handed the same id (Unique / HeldMarked violated).
\* Not run by the check (it must fail); kept to show the counterexample:
\*   tlc -config IdGen_show_returnedreleased.cfg IdGen.tla
CONSTANTS
  Mode = "uniq"
  Procs = {"p1", "p2"}
  HasNX = "yes"
  NCands = 2
  MaxAttempts = 2
  MaxCalls = 1
  Layouts = {"distinct"}
  NSlots = 1
  RenewTier = "claim"
  Wiring = "split"
  TTLTicks = 3
  MaxTicks = 0
  Faults = {"Check"}
  MaxRenewFails = 0
  MaxConsecFails = 1
  HbGiveUp = "never"
  GiveUpAfter = 0
  RenewTTLTicks = 3
  Realloc = FALSE
  StopChan = "once"
  MaxU = 2
  ExhaustionReturnsLast = FALSE
  ReturnedIdReleased = TRUE
  WithLapse = FALSE
  Emit = FALSE
INIT Init
NEXT Next
VIEW view
INVARIANTS TypeOK Unique
CHECK_DEADLOCK FALSE
