CONSTANTS
  Procs = {"p1", "p2"}
  MaxOps = @@MAXOPS@@
  HasBack = @@HASBACK@@
  Mode = "@@MODE@@"
  SyncFill = @@SYNC@@
  FaultProc = "@@FAULTPROC@@"
  Invalidate = @@INVAL@@
  Emit = @@EMIT@@
INIT Init
NEXT Next
VIEW view
INVARIANTS TypeOK @@INVS@@
CHECK_DEADLOCK FALSE
