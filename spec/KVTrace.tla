------------------------------ MODULE KVTrace ------------------------------
(* C13 judge for sequential histories: replays the recorded operations of a real backend    *)
(* through the reference (KVRef!Apply) and compares every recorded result.  After the first   *)
(* divergence of a trace the real store may legitimately differ from the reference, so only    *)
(* the first divergence is reported (its detail names operation, state class of the key and    *)
(* ttl class - the "specific input" a known finding is keyed by).                              *)
(* Sweep-race traces (round 4): one trace = many short per-key histories separated by `Reset`;  *)
(* after `Racing` the recorded operations of the key ran while CleanupExpired (explicit and / or  *)
(* the StartCleanup ticker) was sweeping the same map.  The sweep is not an operation of the      *)
(* reference (KVRef!Apply "Sweep" is the identity), so every linearization of such a history is    *)
(* the key's own sequential history: a divergence there is reported under clause NotAtomic.       *)
EXTENDS KVRef, VLib

AllKeys == {"s1", "s2", "l1", "l2", "h1", "c1"}
VARIABLES store, clock, div, last,  \* last = description of the latest mutating operation
          racing                    \* "" or what ran concurrently with the operations that follow ("sweep")
vars == <<l, viol, store, clock, div, last, racing>>

Fresh == [k \in AllKeys |-> NoneOf(k)]

Init == l = 1 /\ viol = {} /\ store = Fresh /\ clock = 0 /\ div = FALSE /\ last = "init" /\ racing = ""

EntryClass(e) == IF ~e.p THEN "absent" ELSE IF ~Live(e, clock) THEN "ghost" ELSE TtlClass(e, clock)
Detail(o) == IF o.op = "Sweep" THEN "Sweep" ELSE
             o.op \o ":" \o EntryClass(store[o.k])
             \o (IF "ttl" \in DOMAIN o THEN ":ttl=" \o o.ttl ELSE "")
             \o (IF o.op = "CAS" THEN ":old=" \o (IF o.old = "nil" THEN "nil" ELSE IF Live(store[o.k], clock) /\ store[o.k].v = o.old THEN "match" ELSE "other") ELSE "")

IsRead(o) == o.op \in {"Get", "Exists", "GetExp", "GetList", "GetHash", "GetAllHash"} \/ (o.op = "IncrBy" /\ o.n = 0)

TrOp == /\ Is("Op")
        /\ LET o == Ev.o
               a == Apply(store, clock, o)
               good == Same(o, a.res, Ev.res)
           IN /\ store' = a.st
              /\ IF div \/ good THEN viol' = viol /\ div' = div
                 ELSE viol' = viol \cup {V(IF racing = "" THEN "Result" ELSE "NotAtomic",
                                            Ev.be \o ":" \o (IF racing = "" THEN "" ELSE racing \o "-race:") \o Detail(o) \o (IF IsRead(o) THEN "<-" \o last ELSE ""))} /\ div' = TRUE
              /\ last' = IF IsRead(o) THEN last ELSE IF o.op = "Sweep" THEN "Sweep<-" \o last ELSE Detail(o)
        /\ clock' = clock /\ l' = l + 1 /\ UNCHANGED racing

TrTick == Is("Tick") /\ clock' = clock + 1 /\ l' = l + 1 /\ UNCHANGED <<viol, store, div, last, racing>>

\* Racing [with]: from here on the operations of this history ran concurrently with `with` (the expiry sweep)
TrRacing == Is("Racing") /\ racing' = Ev.with /\ l' = l + 1 /\ UNCHANGED <<viol, store, clock, div, last>>
\* Reset: the next per-key history of the same trace starts from the empty store (violations are kept)
TrReset == /\ Is("Reset") /\ l' = l + 1 /\ store' = Fresh /\ clock' = 0 /\ div' = FALSE /\ last' = "init" /\ racing' = ""
           /\ UNCHANGED viol

\* Held [be, what, same]: an answer already given is a value, not a view - the driver keeps every list / hash answer
\* it received and compares it again after all later operations; an answer that changed afterwards shares memory
\* with the store (a sequential map with value semantics cannot do that)
TrHeld == /\ Is("Held")
          /\ viol' = viol \cup (IF Ev.same THEN {} ELSE {V("Aliased", Ev.be \o ":" \o Ev.what)})
          /\ l' = l + 1 /\ UNCHANGED <<store, clock, div, last, racing>>

TrEnd == /\ Is("End") /\ EmitVerdict
         /\ l' = l + 1 /\ viol' = {} /\ store' = Fresh /\ clock' = 0 /\ div' = FALSE /\ last' = "init" /\ racing' = ""

Next == TrOp \/ TrTick \/ TrHeld \/ TrRacing \/ TrReset \/ TrEnd
Spec == Init /\ [][Next]_vars
=============================================================================
