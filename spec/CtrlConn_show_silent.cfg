\* X05 demonstration, EXPECTED TO FAIL: the code as found (Fixed = FALSE) against the strict property - TLC prints the schedule.
\* SkippedHeartbeat: Connect finds heartbeatLoopRunning still set while the old loop is returning (NoSkippedHeartbeat)
CONSTANTS
  Users = {"u1", "u2"}
  MaxConn = 3
  Scenes <- McQuick
  RejKinds = {"other"}
  MaxAttempts = 0
  Fixed = FALSE
  Emit = FALSE
SPECIFICATION Spec
VIEW view
INVARIANTS TypeOK NoSkippedHeartbeat

CHECK_DEADLOCK FALSE
