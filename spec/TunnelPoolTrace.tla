--------------------------- MODULE TunnelPoolTrace ---------------------------
(* X03 judge (property level) for the client's tunnel connection pool.  It knows nothing about   *)
(* locks, counters, tokens or pool objects: it sees the public calls of TunnelPool with their     *)
(* results and what the driver reads off the real sockets.  Alphabet, per trace:                  *)
(*   Cfg      [hc, maxIdle, maxAct, tag]   HealthCheckOnGet, MaxIdleConns, MaxConnsPerMapping; tag = input class      *)
(*   Call     [p, op, c]                   caller p is about to call op in Get|Put|Close|Evict|Shutdown (c = argument) *)
(*   Ret      [p, op, r, c, closed, open]  the call returned: r = new|reused|err|ok; Get: c = the connection, closed = *)
(*                                         its socket was already closed when the caller got it; Shutdown: open = the  *)
(*                                         connections whose sockets are open right after the return                    *)
(*   Expire   []                           more than IdleTimeout of real time passed (no Put/Get in progress)          *)
(*   Kill     [c]                          the server closed its end of c (no call in progress)                         *)
(*   Obs      [open, active, idle, q]      no goroutine is running inside the pool: sockets open now, Stats() numbers;  *)
(*                                         q = no call is in flight at all (every call returned)                        *)
(*   Final    [open]                       every call returned; sockets still open                                      *)
(*   Panic    [p, op]                      a call panicked                                                              *)
(* Ordering argument: Call lines are written before the call, Ret lines after it, by the calling  *)
(* goroutine, into one mutex-ordered log.  At the line Ret(Get)=c every q in `held` got its       *)
(* connection earlier and has not started to give it back, so `held` is a set of connections that *)
(* are simultaneously in borrowers' hands in the real execution.                                  *)
(* Clauses:                                                                                      *)
(*   Exclusive           a connection is handed to a second borrower while the first still has it *)
(*   NoDeadConn          Get returned a connection whose socket the pool had closed (:closed);    *)
(*                       with HealthCheckOnGet one that was idle longer than IdleTimeout          *)
(*                       (:expired) or whose peer had closed (:peerclosed)                        *)
(*   MaxConns            more live connections than MaxConnsPerMapping: borrowed simultaneously   *)
(*                       (:held) or sockets open at a standstill (:open); not judged once         *)
(*                       Shutdown was called (contract silent)                                    *)
(*   StatsExact          at a standstill with no call in flight, before Shutdown: Stats().Active  *)
(*                       = open sockets (:active), Stats().Idle = open sockets not borrowed       *)
(*                       (:idle - an open connection nobody holds and the pool does not list is   *)
(*                       lost)                                                                    *)
(*   ShutdownClosesIdle  a connection that was back in the pool when Shutdown was called is open  *)
(*                       when Shutdown returns (and no Get called before that return took it)     *)
(*   NoLeak              Shutdown returned and every call returned, yet a connection that no      *)
(*                       borrower holds is still open (connections dialled by a Get called AFTER  *)
(*                       Shutdown returned are outside the contract and exempt)                   *)
(*   NoPanic                                                                                      *)
EXTENDS VLib

VARIABLES cf,       \* [hc, maxIdle, maxAct]
          det,      \* input class (verdict detail)
          held,     \* connections in borrowers' hands
          back,     \* connections whose Put returned and that were not handed out since
          snap,     \* `back` at the time Shutdown was called, minus what was handed out since
          expd,     \* connections that were in `back` when IdleTimeout passed
          dead,     \* connections whose peer closed
          post,     \* connections dialled by a Get that was called after Shutdown returned
          pgets,    \* callers whose current Get was called after Shutdown returned
          sc, sd,   \* Shutdown called / returned
          input,    \* Put calls in flight: <<p, c>>
          susp      \* connections of `snap` whose sockets were open when Shutdown returned
vars == <<l, viol, cf, det, held, back, snap, expd, dead, post, pgets, sc, sd, input, susp>>

Cf0 == [hc |-> FALSE, maxIdle |-> 0, maxAct |-> 0]
Init == /\ l = 1 /\ viol = {} /\ cf = Cf0 /\ det = "?" /\ held = {} /\ back = {} /\ snap = {} /\ expd = {}
        /\ dead = {} /\ post = {} /\ pgets = {} /\ sc = FALSE /\ sd = FALSE /\ input = {} /\ susp = {}

SeqSet(s) == {s[i] : i \in 1..Len(s)}
Vs(b, c, d) == IF b THEN {V(c, det \o d)} ELSE {}

TrCfg == /\ Is("Cfg")
         /\ cf' = [hc |-> Ev.hc, maxIdle |-> Ev.maxIdle, maxAct |-> Ev.maxAct]
         /\ det' = Ev.tag
         /\ l' = l + 1 /\ UNCHANGED <<viol, held, back, snap, expd, dead, post, pgets, sc, sd, input, susp>>

TrCall == /\ Is("Call")
          /\ IF Ev.op \in {"Put", "Close"}
             THEN /\ held' = held \ {Ev.c}
                  /\ expd' = expd \ {Ev.c}
                  /\ input' = (IF Ev.op = "Put" THEN input \cup {<<Ev.p, Ev.c>>} ELSE input)
                  /\ UNCHANGED <<snap, pgets, sc>>
             ELSE IF Ev.op = "Shutdown"
             THEN /\ sc' = TRUE /\ snap' = (IF sc THEN snap ELSE back)
                  /\ UNCHANGED <<held, expd, pgets, input>>
             ELSE IF Ev.op = "Get"
             THEN /\ pgets' = (IF sd THEN pgets \cup {Ev.p} ELSE pgets \ {Ev.p})
                  /\ UNCHANGED <<held, expd, snap, sc, input>>
             ELSE UNCHANGED <<held, expd, snap, pgets, sc, input>>
          /\ l' = l + 1 /\ UNCHANGED <<viol, cf, det, back, dead, post, sd, susp>>

TrRet ==
  /\ Is("Ret")
  /\ IF Ev.op = "Get" /\ Ev.r \in {"new", "reused"}
     THEN LET c == Ev.c
              h2 == held \cup {c} IN
          /\ held' = h2
          /\ back' = back \ {c} /\ snap' = snap \ {c}
          /\ post' = (IF Ev.r = "new" /\ Ev.p \in pgets THEN post \cup {c} ELSE post)
          /\ viol' = viol \cup Vs(c \in held, "Exclusive", "")
                          \cup Vs(Ev.r = "reused" /\ Ev.closed, "NoDeadConn", ":closed")
                          \cup Vs(Ev.r = "reused" /\ cf.hc /\ c \in expd, "NoDeadConn", ":expired")
                          \cup Vs(Ev.r = "reused" /\ cf.hc /\ c \in dead, "NoDeadConn", ":peerclosed")
                          \cup Vs(~sc /\ Cardinality(h2) > cf.maxAct, "MaxConns", ":held")
          \* a Get that was called before Shutdown returned may legitimately have taken c out of the pool
          /\ susp' = (IF Ev.p \in pgets THEN susp ELSE susp \ {c})
          /\ UNCHANGED <<sd, input>>
     ELSE IF Ev.op = "Put"
     THEN LET in2 == input \ {<<Ev.p, Ev.c>>} IN
          /\ input' = in2
          \* back in the pool unless it was handed on already (to a blocked Get) or is being put again
          /\ back' = (IF Ev.c \notin held /\ ~(\E x \in in2 : x[2] = Ev.c) THEN back \cup {Ev.c} ELSE back)
          /\ UNCHANGED <<viol, held, snap, post, sd, susp>>
     ELSE IF Ev.op = "Shutdown"
     THEN /\ sd' = TRUE
          /\ susp' = (IF sd THEN susp ELSE snap \cap SeqSet(Ev.open))
          /\ UNCHANGED <<viol, held, back, snap, post, input>>
     ELSE UNCHANGED <<viol, held, back, snap, post, sd, input, susp>>
  /\ l' = l + 1 /\ UNCHANGED <<cf, det, expd, dead, pgets, sc>>

TrExpire == /\ Is("Expire")
            /\ expd' = expd \cup back
            /\ l' = l + 1 /\ UNCHANGED <<viol, cf, det, held, back, snap, dead, post, pgets, sc, sd, input, susp>>

TrKill == /\ Is("Kill")
          /\ dead' = dead \cup {Ev.c}
          /\ l' = l + 1 /\ UNCHANGED <<viol, cf, det, held, back, snap, expd, post, pgets, sc, sd, input, susp>>

TrObs == /\ Is("Obs")
         /\ LET open == SeqSet(Ev.open) IN
            viol' = viol \cup Vs(~sc /\ Cardinality(open) > cf.maxAct, "MaxConns", ":open")
                         \cup Vs(~sc /\ Ev.q /\ Ev.active # Cardinality(open), "StatsExact", ":active")
                         \cup Vs(~sc /\ Ev.q /\ Ev.idle # Cardinality(open \ held), "StatsExact", ":idle")
         /\ l' = l + 1 /\ UNCHANGED <<cf, det, held, back, snap, expd, dead, post, pgets, sc, sd, input, susp>>

TrFinal == /\ Is("Final")
           /\ viol' = viol \cup Vs(sd /\ (SeqSet(Ev.open) \ (held \cup post)) # {}, "NoLeak", "")
                           \cup Vs(susp # {}, "ShutdownClosesIdle", "")
           /\ l' = l + 1 /\ UNCHANGED <<cf, det, held, back, snap, expd, dead, post, pgets, sc, sd, input, susp>>

TrPanic == /\ Is("Panic")
           /\ viol' = viol \cup {V("NoPanic", det \o ":" \o Ev.op)}
           /\ l' = l + 1 /\ UNCHANGED <<cf, det, held, back, snap, expd, dead, post, pgets, sc, sd, input, susp>>

TrEnd == /\ Is("End") /\ EmitVerdict
         /\ l' = l + 1 /\ viol' = {} /\ cf' = Cf0 /\ det' = "?" /\ held' = {} /\ back' = {} /\ snap' = {} /\ expd' = {}
         /\ dead' = {} /\ post' = {} /\ pgets' = {} /\ sc' = FALSE /\ sd' = FALSE /\ input' = {} /\ susp' = {}

Next == TrCfg \/ TrCall \/ TrRet \/ TrExpire \/ TrKill \/ TrObs \/ TrFinal \/ TrPanic \/ TrEnd
Spec == Init /\ [][Next]_vars
=============================================================================
