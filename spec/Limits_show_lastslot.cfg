\* variant: the insert step of CreateConnection (and the add-and-compare of the mapping handler) looks at the count
\* again only when the lock-free check saw the last free slot (saw = limit-1); with more head-room it inserts
\* unconditionally: slack+1 requests that all check before anyone inserts are all admitted.
\*   tlc -config Limits_show_lastslot.cfg Limits.tla   (expected: Invariant NoOvershoot is violated, n = 3, limit = 2,
\*   occupancy 0: Check(1), Check(2), Check(3), InsertChk(1), InsertChk(2), InsertChk(3))
\* restrict Kinds to {"maplimit"} for the mapping handler's counterexample (AddCmp instead of InsertChk).
CONSTANTS
  Kinds = {"conncap", "maplimit"}
  NS = {2, 3, 4}
  Lims = {0, 1, 2, 3}
  NodeCounts = {1}
  Variants = {"lastslot"}
  Shape = "free"
  MaxReRel = 2
  Slacks = {1, 2, 3}
  Listers = 1
  Retries = 1
  FixedKinds = {"conncap", "maplimit", "maplive", "codequota", "mapquota"}
  WithRelease = TRUE
  Emit = FALSE
  EmitMaxN = 4
  EmitAll = FALSE
INIT Init
NEXT Next
VIEW view
INVARIANTS TypeOK NoOvershoot
CHECK_DEADLOCK FALSE
