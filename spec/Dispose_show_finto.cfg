\* C16, documentation run (not part of ./check): hypothetical design "finto" alone against the STRICT property.
\* TLC reports "Invariant LeakFree is violated":
\* the same idiom at its other call site: the periodic reporter's final report signalling its end by a send on
\* an unbuffered channel - after per.GiveUp (cloud control kept the report waiting for more than 5 s) fin.FDone
\* blocks for ever (dev_fstuck)
\* The check itself (Dispose.cfg) verifies the same configuration against  property \/ named deviation  and passes.
CONSTANTS
  Suite = "show_finto"
  Emit = FALSE
INIT Init
NEXT Next
VIEW view
INVARIANTS TypeOK LeakFree
CHECK_DEADLOCK FALSE
