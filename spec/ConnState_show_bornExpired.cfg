\* C08 documentation cfg (not run by the check): tlc -config ConnState_show_bornExpired.cfg ConnState.tla
\* Seeded change C08-r3m1: a re-handshake keeps the record's CreatedAt and derives ExpiresAt from it: on a connection older than one lifetime the record is expired on arrival (deviation bornExpired).
\* Expected: Invariant FindLive is violated.
CONSTANTS
  Nodes = {"A", "B"}
  NConns = 2
  Clients = {"X"}
  TTL = 2
  MaxClock = 1000
  MaxHist = 99
  Shapes = {"str"}
  CasSet = {FALSE}
  FixSets = {{"ptrShape", "condIdxDelete", "hbRefresh", "successOnly"}}
  Causes = {"peer"}
  KeepCreatedAt = TRUE
  UseRequestId = FALSE
  IdxRenew = "checkSet"
  RecRenew = "set"
  Lookups = FALSE
  WritingLookup = FALSE
  InFlight = FALSE
  ClientState = FALSE
  Emit = FALSE
  Only = "all"
INIT Init
NEXT Next
VIEW view
INVARIANTS TypeOK FindClosed FindLive
CHECK_DEADLOCK FALSE
