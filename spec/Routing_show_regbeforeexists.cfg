\* Documentation only (not run by the check; verified by hand): the design whose startSourceBridge writes the routing record before
\* the "bridge already exists" check (RegisterBeforeExistsCheck).  TLC reports RefusedOpenInert violated (a refused open changed the
\* record) and, with INVARIANTS LookupExact instead: Announce(A), Register(A,t1), DupOpen(A,t1,"other") - the waiting tunnel resolves
\* to the refused request's data; with INVARIANTS LookupGone (TTL = 2): Register, Tick, DupOpen(...,"same"), Tick - the waiting period
\* was restarted, the id still resolves after it lapsed (deviation "dupOverwrote").
CONSTANTS
  Nodes = {"A", "B"}
  Tunnels = {"t1", "t2"}
  TTL = 2
  MaxReg = 2
  MaxClock = 1000
  MaxHist = 99
  Shapes = {"jsonString"}
  Mode = "atomic"
  LifecycleFirst = FALSE
  SkipLocalTarget = FALSE
  EvictingLookup = FALSE
  HonourContext = FALSE
  RejectSeenIds = FALSE
  RegisterBeforeExistsCheck = TRUE
  MaxDup = 1
  Emit = FALSE
  Only = "all"
INIT Init
NEXT Next
VIEW view
INVARIANTS TypeOK LookupGone
PROPERTIES RefusedOpenInert
CHECK_DEADLOCK FALSE
