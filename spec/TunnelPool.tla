----------------------------- MODULE TunnelPool -----------------------------
(* X03 (extension) - implementation-shaped model of the client's pool of reusable tunnel        *)
(* connections: internal/client/tunnel_pool.go (TunnelPool) and tunnel_pool_conn.go             *)
(* (MappingPool, PooledTunnelConn), Enabled = true, one mapping id.                             *)
(*                                                                                             *)
(* One action = one critical section / atomic operation / blocking point of the code:          *)
(*                                                                                             *)
(*  call            code                                              steps                    *)
(*  Get             TunnelPool.Get                                    GetStart  getOrCreateMappingPool (poolsMu) + getHealthyIdleConn: *)
(*                                                                              pops under idleMu, LIFO; with HealthCheckOnGet every   *)
(*                                                                              popped connection that is idle-expired or whose peer   *)
(*                                                                              closed is discarded (closeConn) and the next one tried *)
(*                                                                    Check     `active.Load() >= maxActive`: full => the select on     *)
(*                                                                              idleCh / ctx.Done (token present: consume it and pop    *)
(*                                                                              again; ctx cancelled: error; else block = state wait)  *)
(*                                                                    Create    createNewConn: its OWN getOrCreateMappingPool, then     *)
(*                                                                              active.Add(1)                                           *)
(*                                                                    Dial      client.dialTunnel returned: the connection exists and   *)
(*                                                                              belongs to the caller (DialFail: active.Add(-1), error) *)
(*  Put(c)          TunnelPool.Put                                    PutStart  inUse=false, lastUsedAt=now, `pool.closed.Load()`       *)
(*                                                                              (closed => closeConn)                                   *)
(*                                                                    PutIns    idleMu section: full => closeConn, else append; then    *)
(*                                                                              the non-blocking send on idleCh (a blocked Get is       *)
(*                                                                              handed the token and runs on to its pop)                *)
(*  Close(c)        TunnelPool.Close -> closeConn                     Close     active.Add(-1), stream.Close, conn.Close                *)
(*  Evict           cleanupIdleConns (body of the 30 s cleanupLoop)   Evict     per pool one idleMu section closing the expired ones    *)
(*  Shutdown        TunnelPool.Shutdown                               Shutdown  cancel ctx (blocked Gets return its error), then under  *)
(*                                                                              poolsMu: every MappingPool closed=true, idle closed,   *)
(*                                                                              map replaced by an empty one                            *)
(*  environment     time passes / the server closes its end           Expire, Kill                                                     *)
(*                                                                                             *)
(* Seams (where the driver can park a call): GetStart|Check = yield point tunnelpool.get.idlemiss, Check|Create =  *)
(* tunnelpool.get.create, Create|Dial = the transport's dial function, PutStart|PutIns = tunnelpool.put.checked.  *)
(* Without the yield points (patch X03-0) only behaviours whose calls run these steps back to back are driven.    *)
(*                                                                                             *)
(* A MappingPool is an object: Shutdown empties the map, so a lookup after it creates a second *)
(* object (`gen` 2) with fresh counters; connections remember the object they were created for.*)
(*                                                                                             *)
(* Fixed = FALSE is the code as found; named deviations (ghost `dev`):                         *)
(*   StaleToken   Put leaves a token in idleCh even when nobody waits; a later Get that is at   *)
(*                the maximum consumes it, finds no idle connection and falls through to        *)
(*                createNewConn: MaxConnsPerMapping exceeded without any concurrency.           *)
(*   RacyReserve  the maximum is checked with Load and reserved with Add later: two Gets pass.  *)
(*   LateInsert   Put checked `closed` before Shutdown and inserts after it: the connection     *)
(*                sits in the idle list of a dead pool for ever (never closed).                 *)
(*   ReLookup     createNewConn looks the pool up again: a Get that overlaps Shutdown gets a    *)
(*                connection bound to a NEW MappingPool; Put after Shutdown pools it again.     *)
(*   PostShutdown a Get called after Shutdown returned builds a new pool (contract silent).     *)
(*   ExpiredHandout getIdle refreshes lastUsedAt before the health check looks at it: with       *)
(*                HealthCheckOnGet a connection idle for longer than IdleTimeout is handed out.  *)
(* Fixed = TRUE is the repaired design (patches X03-1..3): lastUsedAt refreshed after the       *)
(* health check; Get loops { pop; reserve by CAS on the pool it looked up; wait } and fails     *)
(* once the pool's context is cancelled; Put re-checks `closed` inside the idleMu section.      *)
EXTENDS Naturals, Sequences, FiniteSets, TLC, Json

CONSTANTS NP,        \* number of caller goroutines
          MaxConn,   \* connections dialled per behaviour
          MaxOps,    \* API calls per behaviour
          HCs,       \* values of HealthCheckOnGet
          MaxIdles,  \* values of MaxIdleConns
          MaxActs,   \* values of MaxConnsPerMapping
          MaxExp, MaxKill, MaxFail, MaxShut, MaxEvict,
          Fixed,     \* model the repaired code
          Emit       \* print one behaviour per transition

Procs == 1..NP
Conns == 1..MaxConn
Gens  == 1..2

VARIABLES cfg,     \* [hc, maxIdle, maxAct]
          pool,    \* gen -> [idle : Seq(Conns), act : Nat (may go below what is real: Int not needed), tok : 0..1, closed : BOOLEAN]
          cur,     \* generation registered in TunnelPool.pools (0 = none)
          ngen,    \* MappingPool objects created so far
          shut,    \* Shutdown ran (ctx cancelled)
          cs,      \* conn -> [st : none|open|closed, g : gen it belongs to, exp : idle longer than IdleTimeout, dead : peer closed, post : dialled by a Get called after Shutdown]
          holder,  \* conn -> the caller that borrowed it (0 = nobody)
          pc,      \* proc -> [st : idle|mid|mid2|wait|dial|put2, g, c, post]
          waitq,   \* blocked Gets, oldest first
          cnt,     \* [ops, exp, kill, fail, sd, evict]
          nconn,
          dev,     \* ghost: named deviations that happened
          bad,     \* ghost: a closed / (with health check) expired or dead connection was handed out
          hist
vars == <<cfg, pool, cur, ngen, shut, cs, holder, pc, waitq, cnt, nconn, dev, bad, hist>>
view == <<cfg, pool, cur, ngen, shut, cs, holder, pc, waitq, cnt, nconn, dev, bad>>

Idle0 == [st |-> "idle", g |-> 0, c |-> 0, post |-> FALSE]
Pool0 == [idle |-> <<>>, act |-> 0, tok |-> 0, closed |-> FALSE]
Conn0 == [st |-> "none", g |-> 0, exp |-> FALSE, dead |-> FALSE, post |-> FALSE]

Init == \E h \in HCs, mi \in MaxIdles, ma \in MaxActs :
          /\ cfg = [hc |-> h, maxIdle |-> mi, maxAct |-> ma]
          /\ pool = [g \in Gens |-> Pool0] /\ cur = 0 /\ ngen = 0 /\ shut = FALSE
          /\ cs = [c \in Conns |-> Conn0] /\ holder = [c \in Conns |-> 0]
          /\ pc = [p \in Procs |-> Idle0] /\ waitq = <<>>
          /\ cnt = [ops |-> 0, exp |-> 0, kill |-> 0, fail |-> 0, sd |-> 0, evict |-> 0]
          /\ nconn = 0 /\ dev = {} /\ bad = FALSE /\ hist = <<>>

\* ---- helpers ---------------------------------------------------------------------------------
\* as found, getIdle refreshes lastUsedAt when it pops, BEFORE isConnHealthy compares it with IdleTimeout: the expiry test
\* of the health check can never fail (deviation ExpiredHandout); repaired: lastUsedAt is refreshed after the check
Healthy(c) == ~cfg.hc \/ ((Fixed => ~cs[c].exp) /\ ~cs[c].dead)
DevHand(c) == IF c # 0 /\ cfg.hc /\ cs[c].exp THEN {"ExpiredHandout"} ELSE {}
SetOf(s) == {s[i] : i \in 1..Len(s)}
\* getHealthyIdleConn on an idle list: LIFO, unhealthy ones discarded on the way
Pop(idle) == LET ok == {i \in 1..Len(idle) : Healthy(idle[i])}
                 k == IF ok = {} THEN 0 ELSE CHOOSE i \in ok : \A j \in ok : j <= i
             IN [c |-> IF k = 0 THEN 0 ELSE idle[k],
                 rest |-> IF k = 0 THEN <<>> ELSE SubSeq(idle, 1, k - 1),
                 disc |-> {idle[i] : i \in (k + 1)..Len(idle)}]
CloseAll(csx, S) == [c \in Conns |-> IF c \in S THEN [csx[c] EXCEPT !.st = "closed"] ELSE csx[c]]
Minus(a, n) == IF a >= n THEN a - n ELSE 0      \* the counter is signed in the code; it never gets negative here (CounterExact)
BadHand(c) == cs[c].st # "open" \/ (cfg.hc /\ (cs[c].exp \/ cs[c].dead))
OpenOf(g) == {c \in Conns : cs[c].st = "open" /\ cs[c].g = g}
InIdle(c) == \E g \in Gens : c \in SetOf(pool[g].idle)
Waiters(g) == SelectSeq(waitq, LAMBDA w : pc[w].g = g)

Beh(h) == [cfg |-> cfg, fixed |-> Fixed, steps |-> h]
\* conjoined last in every action.  st = state of p afterwards, r/rc = result of the call when it returned,
\* wk = calls of other processes that moved as a consequence (a blocked Get that was handed a token / the ctx error)
Log(p, a, c, r, rc, wk) ==
   /\ hist' = Append(hist, [p |-> p, a |-> a, c |-> c, st |-> IF p = 0 THEN "env" ELSE pc'[p].st, r |-> r, rc |-> rc, wk |-> wk])
   /\ (Emit => PrintT("BEH " \o ToJson(Beh(hist'))))

\* what a Get that holds pool object g does once its pop found nothing and the pool is at its maximum (the select)
\* returns [st, tok, r]: st = next state of the caller
\* (token and cancelled context both ready: the token case is modelled; Go picks at random, the driver tolerates it)

\* ---- Get -------------------------------------------------------------------------------------
GetStart(p) ==
  /\ pc[p].st = "idle" /\ cnt.ops < MaxOps
  /\ cnt' = [cnt EXCEPT !.ops = @ + 1]
  /\ UNCHANGED <<cfg, shut, waitq, nconn>>
  /\ IF Fixed /\ shut
     THEN /\ UNCHANGED <<pool, cur, ngen, cs, holder, pc, dev, bad>>
          /\ Log(p, "Get", 0, "err", 0, <<>>)
     ELSE LET g == IF cur # 0 THEN cur ELSE ngen + 1
              po == Pop(pool[g].idle) IN
          /\ g \in Gens
          /\ cur' = g /\ ngen' = IF cur # 0 THEN ngen ELSE ngen + 1
          /\ dev' = dev \cup (IF shut THEN {"PostShutdown"} ELSE {}) \cup DevHand(po.c)
          /\ pool' = [pool EXCEPT ![g].idle = po.rest, ![g].act = Minus(@, Cardinality(po.disc))]
          /\ cs' = CloseAll(cs, po.disc)
          /\ IF po.c # 0
             THEN /\ holder' = [holder EXCEPT ![po.c] = p]
                  /\ bad' = (bad \/ BadHand(po.c))
                  /\ pc' = pc
                  /\ Log(p, "Get", 0, "reused", po.c, <<>>)
             ELSE /\ pc' = [pc EXCEPT ![p] = [st |-> "mid", g |-> g, c |-> 0, post |-> shut]]
                  /\ UNCHANGED <<holder, bad>>
                  /\ Log(p, "Get", 0, "", 0, <<>>)

\* the caller is past its (failed) pop: compare the counter with the maximum
Check(p) ==
  /\ pc[p].st = "mid"
  /\ LET g == pc[p].g
         full == pool[g].act >= cfg.maxAct
         po == Pop(pool[g].idle) IN
     /\ UNCHANGED <<cfg, cur, ngen, shut, cnt, nconn>>
     /\ IF ~full
        THEN \* as found: go on to createNewConn; repaired: the slot is taken here by compare-and-swap
             /\ IF Fixed THEN /\ pool' = [pool EXCEPT ![g].act = @ + 1]
                              /\ pc' = [pc EXCEPT ![p].st = "dial"]
                         ELSE /\ pool' = pool
                              /\ pc' = [pc EXCEPT ![p].st = "mid2"]
             /\ UNCHANGED <<cs, holder, waitq, dev, bad>>
             /\ Log(p, "Check", 0, "", 0, <<>>)
        ELSE IF pool[g].tok = 1
        THEN \* the select takes the token and pops again
             /\ pool' = [pool EXCEPT ![g].tok = 0, ![g].idle = po.rest, ![g].act = Minus(@, Cardinality(po.disc))]
             /\ cs' = CloseAll(cs, po.disc)
             /\ UNCHANGED waitq
             /\ IF po.c # 0
                THEN /\ holder' = [holder EXCEPT ![po.c] = p]
                     /\ bad' = (bad \/ BadHand(po.c))
                     /\ pc' = [pc EXCEPT ![p] = Idle0]
                     /\ dev' = dev \cup DevHand(po.c)
                     /\ Log(p, "Check", 0, "reused", po.c, <<>>)
                ELSE /\ UNCHANGED <<holder, bad>>
                     \* as found: falls through to createNewConn although the pool is at its maximum; repaired: loops
                     /\ pc' = [pc EXCEPT ![p].st = IF Fixed THEN "mid" ELSE "mid2"]
                     /\ dev' = dev \cup (IF Fixed THEN {} ELSE {"StaleToken"})
                     /\ Log(p, "Check", 0, "", 0, <<>>)
        ELSE IF shut
        THEN /\ pc' = [pc EXCEPT ![p] = Idle0]
             /\ UNCHANGED <<pool, cs, holder, waitq, dev, bad>>
             /\ Log(p, "Check", 0, "err", 0, <<>>)
        ELSE /\ pc' = [pc EXCEPT ![p].st = "wait"]
             /\ waitq' = Append(waitq, p)
             /\ UNCHANGED <<pool, cs, holder, dev, bad>>
             /\ Log(p, "Check", 0, "", 0, <<>>)

\* as found only: createNewConn looks the pool up again and adds one to its counter, whatever it is by now
Create(p) ==
  /\ ~Fixed /\ pc[p].st = "mid2"
  /\ LET g == IF cur # 0 THEN cur ELSE ngen + 1 IN
     /\ g \in Gens
     /\ cur' = g /\ ngen' = IF cur # 0 THEN ngen ELSE ngen + 1
     /\ dev' = dev \cup (IF pool[g].act >= cfg.maxAct THEN {"RacyReserve"} ELSE {})
                   \cup (IF g # pc[p].g THEN {"ReLookup"} ELSE {})
     /\ pool' = [pool EXCEPT ![g].act = @ + 1]
     /\ pc' = [pc EXCEPT ![p].st = "dial", ![p].g = g]
     /\ UNCHANGED <<cfg, shut, cs, holder, waitq, cnt, nconn, bad>>
     /\ Log(p, "Create", 0, "", 0, <<>>)

Dial(p) ==
  /\ pc[p].st = "dial" /\ nconn < MaxConn
  /\ LET c == nconn + 1 IN
     /\ nconn' = c
     /\ cs' = [cs EXCEPT ![c] = [st |-> "open", g |-> pc[p].g, exp |-> FALSE, dead |-> FALSE, post |-> pc[p].post]]
     /\ holder' = [holder EXCEPT ![c] = p]
     /\ pc' = [pc EXCEPT ![p] = Idle0]
     /\ UNCHANGED <<cfg, pool, cur, ngen, shut, waitq, cnt, dev, bad>>
     /\ Log(p, "Dial", 0, "new", c, <<>>)

DialFail(p) ==
  /\ pc[p].st = "dial" /\ cnt.fail < MaxFail
  /\ cnt' = [cnt EXCEPT !.fail = @ + 1]
  /\ pool' = [pool EXCEPT ![pc[p].g].act = Minus(@, 1)]
  /\ pc' = [pc EXCEPT ![p] = Idle0]
  /\ UNCHANGED <<cfg, cur, ngen, shut, cs, holder, waitq, nconn, dev, bad>>
  /\ Log(p, "DialFail", 0, "err", 0, <<>>)

\* ---- Put / Close -----------------------------------------------------------------------------
PutStart(p, c) ==
  /\ pc[p].st = "idle" /\ cnt.ops < MaxOps /\ holder[c] = p /\ cs[c].st = "open"
  /\ cnt' = [cnt EXCEPT !.ops = @ + 1]
  /\ holder' = [holder EXCEPT ![c] = 0]
  /\ LET g == cs[c].g IN
     IF pool[g].closed
     THEN /\ cs' = [cs EXCEPT ![c].st = "closed"]
          /\ pool' = [pool EXCEPT ![g].act = Minus(@, 1)]
          /\ pc' = pc
     ELSE /\ cs' = [cs EXCEPT ![c].exp = FALSE]
          /\ pool' = pool
          /\ pc' = [pc EXCEPT ![p] = [st |-> "put2", g |-> g, c |-> c, post |-> FALSE]]
  /\ UNCHANGED <<cfg, cur, ngen, shut, waitq, nconn, dev, bad>>
  /\ Log(p, "Put", c, IF pool[cs[c].g].closed THEN "ok" ELSE "", 0, <<>>)

PutIns(p) ==
  /\ pc[p].st = "put2"
  /\ LET g == pc[p].g
         c == pc[p].c
         ws == Waiters(g) IN
     /\ pc[p].st = "put2"
     /\ UNCHANGED <<cfg, cur, ngen, shut, cnt, nconn>>
     /\ IF (Fixed /\ pool[g].closed) \/ Len(pool[g].idle) >= cfg.maxIdle
        THEN /\ cs' = [cs EXCEPT ![c].st = "closed"]
             /\ pool' = [pool EXCEPT ![g].act = Minus(@, 1)]
             /\ pc' = [pc EXCEPT ![p] = Idle0]
             /\ UNCHANGED <<holder, waitq, dev, bad>>
             /\ Log(p, "PutIns", c, "ok", 0, <<>>)
        ELSE IF ws = <<>>
        THEN /\ pool' = [pool EXCEPT ![g].idle = Append(@, c), ![g].tok = 1]
             /\ pc' = [pc EXCEPT ![p] = Idle0]
             /\ dev' = dev \cup (IF pool[g].closed THEN {"LateInsert"} ELSE {})
             /\ UNCHANGED <<cs, holder, waitq, bad>>
             /\ Log(p, "PutIns", c, "ok", 0, <<>>)
        ELSE \* the oldest blocked Get receives the token and pops
             LET w == Head(ws)
                 idle2 == Append(pool[g].idle, c)
                 po == Pop(idle2) IN
             /\ waitq' = SelectSeq(waitq, LAMBDA x : x # w)
             /\ pool' = [pool EXCEPT ![g].idle = po.rest, ![g].act = Minus(@, Cardinality(po.disc))]
             /\ cs' = CloseAll(cs, po.disc)
             /\ IF po.c # 0
                THEN /\ holder' = [holder EXCEPT ![po.c] = w]
                     /\ bad' = (bad \/ BadHand(po.c))
                     /\ pc' = [pc EXCEPT ![p] = Idle0, ![w] = Idle0]
                     /\ dev' = dev \cup (IF pool[g].closed THEN {"LateInsert"} ELSE {}) \cup DevHand(po.c)
                     /\ Log(p, "PutIns", c, "ok", 0, <<[p |-> w, st |-> "idle", r |-> "reused", rc |-> po.c]>>)
                ELSE /\ UNCHANGED <<holder, bad>>
                     /\ pc' = [pc EXCEPT ![p] = Idle0, ![w].st = IF Fixed THEN "mid" ELSE "mid2"]
                     /\ dev' = dev \cup (IF Fixed THEN {} ELSE {"StaleToken"})
                     /\ Log(p, "PutIns", c, "ok", 0, <<[p |-> w, st |-> IF Fixed THEN "mid" ELSE "mid2", r |-> "", rc |-> 0]>>)

Close(p, c) ==
  /\ pc[p].st = "idle" /\ cnt.ops < MaxOps /\ holder[c] = p /\ cs[c].st = "open"
  /\ cnt' = [cnt EXCEPT !.ops = @ + 1]
  /\ holder' = [holder EXCEPT ![c] = 0]
  /\ cs' = [cs EXCEPT ![c].st = "closed"]
  /\ pool' = [pool EXCEPT ![cs[c].g].act = Minus(@, 1)]
  /\ UNCHANGED <<cfg, cur, ngen, shut, pc, waitq, nconn, dev, bad>>
  /\ Log(p, "Close", c, "ok", 0, <<>>)

\* ---- Evict / Shutdown ------------------------------------------------------------------------
Evict(p) ==
  /\ pc[p].st = "idle" /\ cnt.ops < MaxOps /\ cnt.evict < MaxEvict
  /\ cnt' = [cnt EXCEPT !.ops = @ + 1, !.evict = @ + 1]
  /\ IF cur = 0 THEN UNCHANGED <<pool, cs>>
     ELSE LET ex == {c \in SetOf(pool[cur].idle) : cs[c].exp} IN
          /\ pool' = [pool EXCEPT ![cur].idle = SelectSeq(@, LAMBDA c : c \notin ex), ![cur].act = Minus(@, Cardinality(ex))]
          /\ cs' = CloseAll(cs, ex)
  /\ UNCHANGED <<cfg, cur, ngen, shut, holder, pc, waitq, nconn, dev, bad>>
  /\ Log(p, "Evict", 0, "ok", 0, <<>>)

Shutdown(p) ==
  /\ pc[p].st = "idle" /\ cnt.ops < MaxOps /\ cnt.sd < MaxShut
  /\ cnt' = [cnt EXCEPT !.ops = @ + 1, !.sd = @ + 1]
  /\ shut' = TRUE
  /\ IF cur = 0 THEN UNCHANGED <<pool, cs>>
     ELSE /\ pool' = [pool EXCEPT ![cur].idle = <<>>, ![cur].closed = TRUE]
          /\ cs' = CloseAll(cs, SetOf(pool[cur].idle))
  /\ cur' = 0
  \* every blocked Get returns the context's error
  /\ pc' = [q \in Procs |-> IF pc[q].st = "wait" THEN Idle0 ELSE pc[q]]
  /\ waitq' = <<>>
  /\ UNCHANGED <<cfg, ngen, holder, nconn, dev, bad>>
  /\ Log(p, "Shutdown", 0, "ok", 0, [i \in 1..Len(waitq) |-> [p |-> waitq[i], st |-> "idle", r |-> "err", rc |-> 0]])

\* ---- environment -----------------------------------------------------------------------------
\* more than IdleTimeout passes: everything that is idle now is expired
Expire ==
  /\ cnt.exp < MaxExp
  /\ \A p \in Procs : pc[p].st \in {"idle", "wait"}
  /\ \E g \in Gens : pool[g].idle # <<>>
  /\ cnt' = [cnt EXCEPT !.exp = @ + 1]
  /\ cs' = [c \in Conns |-> IF InIdle(c) THEN [cs[c] EXCEPT !.exp = TRUE] ELSE cs[c]]
  /\ UNCHANGED <<cfg, pool, cur, ngen, shut, holder, pc, waitq, nconn, dev, bad>>
  /\ Log(0, "Expire", 0, "", 0, <<>>)

\* the server closes its end of connection c (only observable by the pool when HealthCheckOnGet is on)
Kill(c) ==
  /\ cnt.kill < MaxKill /\ cfg.hc
  /\ cs[c].st = "open" /\ ~cs[c].dead
  /\ \A p \in Procs : pc[p].st \in {"idle", "wait"}
  /\ cnt' = [cnt EXCEPT !.kill = @ + 1]
  /\ cs' = [cs EXCEPT ![c].dead = TRUE]
  /\ UNCHANGED <<cfg, pool, cur, ngen, shut, holder, pc, waitq, nconn, dev, bad>>
  /\ Log(0, "Kill", c, "", 0, <<>>)

Next == \/ \E p \in Procs : \/ GetStart(p) \/ Check(p) \/ Create(p) \/ Dial(p) \/ DialFail(p)
                            \/ PutIns(p) \/ Evict(p) \/ Shutdown(p)
                            \/ \E c \in Conns : PutStart(p, c) \/ Close(p, c)
        \/ Expire
        \/ \E c \in Conns : Kill(c)
Spec == Init /\ [][Next]_vars

\* ---- properties ------------------------------------------------------------------------------
TypeOK == /\ \A g \in Gens : /\ pool[g].tok \in 0..1 /\ pool[g].act \in 0..(MaxConn + NP)
                             /\ SetOf(pool[g].idle) \subseteq Conns
          /\ \A p \in Procs : pc[p].st \in {"idle", "mid", "mid2", "wait", "dial", "put2"}
          /\ cur \in 0..2 /\ ngen \in 0..2 /\ nconn \in 0..MaxConn
\* (1) a pooled connection is handed to at most one borrower at a time: what a borrower holds is in no idle list
Exclusive == \A c \in Conns : holder[c] # 0 => ~InIdle(c)
NoDupIdle == \A g \in Gens : \A i, j \in 1..Len(pool[g].idle) : i # j => pool[g].idle[i] # pool[g].idle[j]
\* (2) never a closed connection, nor (HealthCheckOnGet) an expired one or one whose peer has closed
HandoutOK == ~bad
HandoutOKOrDev == ~bad \/ "ExpiredHandout" \in dev
IdleOpen == \A g \in Gens : \A c \in SetOf(pool[g].idle) : cs[c].st = "open" /\ cs[c].g = g
\* (3) the number of live connections of a MappingPool never exceeds MaxConnsPerMapping
MaxLive == \A g \in Gens : Cardinality(OpenOf(g)) <= cfg.maxAct
MaxLiveOrDev == MaxLive \/ dev \cap {"StaleToken", "RacyReserve"} # {}
\* (4) the idle list respects MaxIdleConns
IdleBound == \A g \in Gens : Len(pool[g].idle) <= cfg.maxIdle
\* (5) the counter the code maintains is exact while the pool object is alive
CounterExact == \A g \in Gens : ~pool[g].closed =>
                   pool[g].act = Cardinality(OpenOf(g)) + Cardinality({p \in Procs : pc[p].st = "dial" /\ pc[p].g = g})
\* (6) after Shutdown, once every call has returned, every connection is closed or in the hands of a borrower
\*     (connections dialled by a Get that was CALLED after Shutdown are outside the contract)
Quiet == \A p \in Procs : pc[p].st = "idle"
NoLeak == (shut /\ Quiet) => \A c \in Conns : cs[c].st = "open" => (holder[c] # 0 \/ cs[c].post)
NoLeakOrDev == NoLeak \/ dev \cap {"LateInsert", "ReLookup"} # {}
\* (7) Shutdown closes every idle connection of the registered pool (by construction of the action; kept as a check of the model)
ShutdownClosedIdle == shut => \A c \in Conns : (cs[c].st = "open" /\ InIdle(c)) => (cs[c].post \/ dev \cap {"LateInsert", "ReLookup"} # {})
\* the repaired design has no deviation left except the use after Shutdown
NoDeviation == dev = {}
=============================================================================
