\* Documentation only (not run by the check): the bridge AS FOUND against the strict clauses.
\* TLC reports NoSpontaneousEnd violated: Send(S, Bm1) under lim = "tiny", Attach, Read(s2t),
\* Limit(s2t) = DevLimiterError -> the chunk is dropped and the copier ends with both ends open.
CONSTANTS
  BUF = 3
  MaxSends = 1
  MaxSlow = 5
  Lims = {"tiny"}
  Classes = {"one", "Bm1", "B", "Bp1", "big"}
  Faults = FALSE
  Replace = FALSE
  ExtCloseOn = FALSE
  DevLimiter = TRUE
  DevNilFwd = TRUE
  DevStaleSrc = TRUE
  DevSleepLimiter = FALSE
  DevWriteLock = FALSE
  DevRouteFirst = FALSE
  DevCleanupFirst = FALSE
  RegLegs = {}
  DevIdleSweep = FALSE
  DevFwdNoEof = FALSE
  SrcKinds = {"direct"}
  DevBufio = FALSE
  AttachKinds = {"local"}
  HoldOn = FALSE
  Gen = FALSE
  Emit = FALSE
INIT Init
NEXT Next
VIEW view
INVARIANTS TypeOK Prefix InOrder NoSpontaneousEnd Complete
CHECK_DEADLOCK FALSE
