\* X07 behaviour generation (template filled by harness/drivers/x07): Emit = TRUE prints one behaviour per transition
\* of the state graph (VIEW hides hist).  gen:* use the repaired design (Devs {}), legacy:* the code as found
\* (schedules that end in a named deviation).
CONSTANTS
  Part = @@PART@@
  Devs = @@DEVS@@
  Emit = TRUE
  MinLen = @@MINLEN@@
  Eager = TRUE
  NS = @@NS@@
  MaxConn = @@MAXCONN@@
  MaxSend = @@MAXSEND@@
  MaxBcast = @@MAXBCAST@@
  NH = @@NH@@
  MaxNotif = @@MAXNOTIF@@
  MaxAdd = @@MAXADD@@
  NG = @@NG@@
  Flags = @@FLAGS@@
  NP = @@NP@@
  MaxPush = @@MAXPUSH@@
  MaxMove = @@MAXMOVE@@
  MaxChange = @@MAXCHANGE@@
INIT Init
NEXT Next
VIEW view
INVARIANTS TypeOK
CHECK_DEADLOCK FALSE
