---------------------------- MODULE DomainTrace ----------------------------
(* C19 judge (property level).  It knows nothing about how the repository is built; it reads  *)
(* what callers can observe.  Alphabet, per trace (file order = real-time order observed by    *)
(* the driver: a Call line is written before the API is invoked, a Ret line after it returned, *)
(* so "x returned before y was called" in the file implies the same in reality):               *)
(*   Call [p, op = "Create", c, name, raw, tp]   CreateMapping / create command by client c of *)
(*                        the full domain `raw` (name = its canonical lower-case form); tp is   *)
(*                        the target port chosen by the driver, unique per create call          *)
(*   Ret  [p, op = "Create", ok, id, faulted, exp]   faulted: the driver made a storage        *)
(*                        operation of this very call fail; exp (optional): the expiry time     *)
(*                        (unix seconds) the create response acknowledged, 0 = none             *)
(*   Call [p, op = "Delete", c, id]  /  Ret [p, op = "Delete", ok]                             *)
(*   Call [p, op = "Update", id, st] /  Ret [p, op = "Update", ok]   st = the ONE changed      *)
(*                        field: inactive | expired (status / expiry), target | desc | created, *)
(*                        client | sub | base | full (immutable ones, colliding values).        *)
(*                        Whatever an update answers, it never changes who owns which name:     *)
(*                        judged by routing (WrongOwner), Claimable and the Final clauses       *)
(*   Call [p, op = "List", c]       /  Ret [p, op = "List", ok]     (the client lists its mappings) *)
(*   Call [p, op = "Lookup", host, name, sp, now]  a request with Host header `host`; name =   *)
(*                        the canonical domain that spelling denotes ("" if it is not a domain  *)
(*                        name, e.g. an IPv6 literal); sp = spelling class; now (optional) =    *)
(*                        the clock (unix seconds, the code's own clock) when the call was made *)
(*   Ret  [p, op = "Lookup", routed, c, tp, code]  the proxy forwarded it to client c, target  *)
(*                        port tp, or answered with HTTP status `code`                          *)
(*   LegCreate [lid, c, name, tp, st] / LegDelete [lid]   legacy (management API) HTTP mapping;*)
(*                        st (optional) = active | inactive | expired | revoked                 *)
(*   Final [index, recs, lists]     quiescent store: <<name, id>>, <<id, c, name, tp>>, <<c, id>> *)
(* p identifies one API call.  Concurrent calls may linearize either way: every clause below  *)
(* is violated only if NO placement of the linearization points inside the call intervals      *)
(* explains the observation.  Storage faults injected by the driver make calls fail; a failed  *)
(* or still running owner delete counts as "may have taken effect".                            *)
EXTENDS VLib

VARIABLES cr,    \* tp -> [c, name, raw, call, ret, ok, id]        create calls (ret = 0: running)
          dl,    \* set of [p, c, id, call, ret, ok]                 delete calls
          up,    \* set of [p, id, st, call, ret, ok]                update calls
          lk,    \* p -> [host, name, sp, call, now]                 running lookups
          leg    \* lid -> [c, name, tp, call, del, st]              legacy mappings (del = 0: exists)
vars == <<l, viol, cr, dl, up, lk, leg>>

Empty == [x \in {} |-> 0]
Init == l = 1 /\ viol = {} /\ cr = Empty /\ dl = {} /\ up = {} /\ lk = Empty /\ leg = Empty

Put(f, k, v) == [x \in DOMAIN f \cup {k} |-> IF x = k THEN v ELSE f[x]]
Elems(s) == {s[i] : i \in 1..Len(s)}
Opt(e, f, d) == IF f \in DOMAIN e THEN e[f] ELSE d      \* optional event field

\* owner delete calls of the mapping created by create call t (its id is known once it returned ok)
OwnerDels(t) == {d \in dl : cr[t].ok /\ d.id = cr[t].id /\ d.c = cr[t].c}
\* some owner delete of t may have taken effect before line x
MayBeDeletedBefore(t, x) == \E d \in OwnerDels(t) : d.call < x
\* an owner delete of t ran wholly after the create returned and has returned success before line x
SurelyDeletedBefore(t, x) == \E d \in OwnerDels(t) : d.ok /\ d.ret # 0 /\ d.ret < x /\ d.call > cr[t].ret
SurelyRolledBackBefore(t, x) == cr[t].ret # 0 /\ ~cr[t].ok /\ cr[t].ret < x
\* (an Update changes one field: st names it; only "inactive" / "expired" take the mapping out of service)
DeactivatedBefore(t, x) == {u \in up : cr[t].ok /\ u.id = cr[t].id /\ u.st \in {"inactive", "expired"} /\ u.ok /\ u.ret # 0 /\ u.ret < x}
LiveLegacy(n) == {x \in DOMAIN leg : leg[x].name = n /\ leg[x].del = 0}

TrCall ==
  /\ Is("Call")
  /\ CASE Ev.op = "Create" ->
            /\ cr' = Put(cr, Ev.tp, [c |-> Ev.c, name |-> Ev.name, raw |-> Ev.raw, call |-> l, ret |-> 0, ok |-> FALSE, id |-> "", p |-> Ev.p, exp |-> 0, faulted |-> FALSE])
            /\ UNCHANGED <<dl, up, lk>>
       [] Ev.op = "Delete" ->
            /\ dl' = dl \cup {[p |-> Ev.p, c |-> Ev.c, id |-> Ev.id, call |-> l, ret |-> 0, ok |-> FALSE]}
            /\ UNCHANGED <<cr, up, lk>>
       [] Ev.op = "Update" ->
            /\ up' = up \cup {[p |-> Ev.p, id |-> Ev.id, st |-> Ev.st, call |-> l, ret |-> 0, ok |-> FALSE]}
            /\ UNCHANGED <<cr, dl, lk>>
       [] Ev.op = "List" -> UNCHANGED <<cr, dl, up, lk>>       \* a listing: nothing is demanded of its result
       [] OTHER ->
            /\ lk' = Put(lk, Ev.p, [host |-> Ev.host, name |-> Ev.name, sp |-> Ev.sp, call |-> l, now |-> Opt(Ev, "now", 0)])
            /\ UNCHANGED <<cr, dl, up>>
  /\ l' = l + 1 /\ UNCHANGED <<viol, leg>>

\* ---- clause 1: at most one owner per full domain name -----------------------------------------
\* the create call t returns success now (line l) with id i
CreateViol(t, i) ==
  LET me == [cr[t] EXCEPT !.ok = TRUE, !.id = i, !.ret = l]
      others == {u \in DOMAIN cr \ {t} : cr[u].ok /\ cr[u].name = me.name}
      \* u and t cannot both be explained as never owning the name together
      clash(u) == /\ ~MayBeDeletedBefore(u, l)
                  /\ ~(\E d \in dl : d.id = i /\ d.c = me.c /\ d.call < cr[u].ret)
      shape(u) == IF cr[u].raw # me.raw THEN "case-variant"
                  ELSE IF cr[u].c = me.c THEN "second-claim:same-client" ELSE "second-claim:other-client"
  IN {V("OneOwner", shape(u)) : u \in {x \in others : clash(x)}}
     \cup {V("OneOwner", "cross-source:repo-claims-legacy-name:" \o (IF leg[x].c = me.c THEN "same-client" ELSE "other-client")) : x \in LiveLegacy(me.name)}
     \cup (IF \E u \in DOMAIN cr \ {t} : cr[u].ok /\ cr[u].id = i THEN {V("UniqueId", "dup-id")} ELSE {})

\* ---- clause 1b: a name nobody owns is claimable ------------------------------------------------
\* the create call t is refused now (line l) although the driver injected no storage fault into it: some other
\* claim of that name must have been able to hold it at some instant of t's call - one that was not surely
\* over (rolled back, or deleted by its owner with the delete acknowledged) before t was called
RefusedViol(t) ==
  LET rivals == {u \in DOMAIN cr \ {t} : cr[u].name = cr[t].name /\ cr[u].call < l}
      over(u) == SurelyRolledBackBefore(u, cr[t].call) \/ SurelyDeletedBefore(u, cr[t].call)
  IN IF \A u \in rivals : over(u)
     THEN {V("Claimable", IF rivals = {} THEN "refused:never-claimed" ELSE "refused:after-delete-acknowledged")}
     ELSE {}

\* ---- clause 2: a lookup routes to the owner or rejects ----------------------------------------
LookupViol(q, e) ==
  LET c0 == q.call IN
  IF ~e.routed THEN {}
  ELSE IF q.name = "" THEN {V("WrongOwner", "non-domain-host:" \o q.sp)}
  ELSE IF e.tp \in DOMAIN cr THEN
         LET t == e.tp IN
         IF cr[t].c # e.c THEN {V("WrongOwner", "client-mismatch:" \o q.sp)}
         ELSE IF cr[t].name # q.name THEN {V("WrongOwner", "other-name:" \o q.sp)}
         ELSE (IF SurelyDeletedBefore(t, c0) THEN {V("RouteAfterDelete", "repository:" \o q.sp)} ELSE {})
              \cup (IF SurelyRolledBackBefore(t, c0) THEN {V("RouteAfterRollback", q.sp)} ELSE {})
              \cup {V("InactiveRoutes", u.st) : u \in DeactivatedBefore(t, c0)}
              \* the create response acknowledged an expiry time and the clock had passed it when the request was made
              \* (unstored-expiry: the driver made a storage operation of that create fail - the acknowledged time never reached the store)
              \cup (IF cr[t].exp # 0 /\ q.now > cr[t].exp THEN {V("InactiveRoutes", (IF cr[t].faulted THEN "expired-ttl:unstored-expiry:" ELSE "expired-ttl:") \o q.sp)} ELSE {})
  ELSE IF \E x \in DOMAIN leg : leg[x].tp = e.tp THEN
         LET x == CHOOSE y \in DOMAIN leg : leg[y].tp = e.tp IN
         IF leg[x].c # e.c THEN {V("WrongOwner", "client-mismatch:" \o q.sp)}
         ELSE IF leg[x].name # q.name THEN {V("WrongOwner", "other-name:" \o q.sp)}
         ELSE IF leg[x].del # 0 /\ leg[x].del < c0 THEN {V("RouteAfterDelete", "legacy-registry-cache")}
         ELSE \* a legacy mapping that is inactive / revoked / expired does not route either
              (IF leg[x].st # "active" THEN {V("InactiveRoutes", "legacy:" \o leg[x].st)} ELSE {}) \cup
              \* the name has a repository owner (created before the lookup began, never the target of an owner delete):
              \* the request belongs to that mapping - routed to it, or rejected if it is inactive / expired - never to the
              \* legacy mapping of the same name
              {V("WrongOwner", "legacy-shadows-repository-owner:" \o (IF DeactivatedBefore(t, c0) # {} THEN "inactive-or-expired" ELSE "active")
                                 \o (IF cr[t].c = e.c THEN ":same-client" ELSE ":other-client")) :
                 t \in {u \in DOMAIN cr : cr[u].ok /\ cr[u].name = q.name /\ cr[u].ret < c0 /\ OwnerDels(u) = {}}}
  ELSE {V("WrongOwner", "unknown-target:" \o q.sp)}

\* ---- clause 3: only the owner deletes ----------------------------------------------------------
\* the delete d returns success now; a non-owner's delete may succeed only as a no-op on a mapping that
\* may already have been gone
DeleteViol(d) ==
  LET ts == {t \in DOMAIN cr : cr[t].ok /\ cr[t].id = d.id /\ cr[t].c # d.c /\ cr[t].ret < d.call} IN
  {V("NonOwnerDelete", "succeeded") : t \in {x \in ts : ~MayBeDeletedBefore(x, l)}}

TrRet ==
  /\ Is("Ret")
  /\ CASE Ev.op = "Create" ->
            LET t == CHOOSE x \in DOMAIN cr : cr[x].p = Ev.p /\ cr[x].ret = 0 IN
            /\ viol' = viol \cup (IF Ev.ok THEN CreateViol(t, Ev.id) ELSE IF Ev.faulted THEN {} ELSE RefusedViol(t))
            /\ cr' = [cr EXCEPT ![t].ret = l, ![t].ok = Ev.ok, ![t].id = Ev.id, ![t].exp = Opt(Ev, "exp", 0), ![t].faulted = Ev.faulted]
            /\ UNCHANGED <<dl, up, lk>>
       [] Ev.op = "Delete" ->
            LET d == CHOOSE x \in dl : x.p = Ev.p /\ x.ret = 0 IN
            /\ viol' = viol \cup (IF Ev.ok THEN DeleteViol(d) ELSE {})
            /\ dl' = (dl \ {d}) \cup {[d EXCEPT !.ret = l, !.ok = Ev.ok]}
            /\ UNCHANGED <<cr, up, lk>>
       [] Ev.op = "Update" ->
            LET u == CHOOSE x \in up : x.p = Ev.p /\ x.ret = 0 IN
            /\ up' = (up \ {u}) \cup {[u EXCEPT !.ret = l, !.ok = Ev.ok]}
            /\ UNCHANGED <<viol, cr, dl, lk>>
       [] Ev.op = "List" -> UNCHANGED <<viol, cr, dl, up, lk>>
       [] OTHER ->
            /\ viol' = viol \cup LookupViol(lk[Ev.p], Ev)
            /\ UNCHANGED <<cr, dl, up, lk>>
  /\ l' = l + 1 /\ UNCHANGED leg

TrLegCreate ==
  /\ Is("LegCreate")
  /\ leg' = Put(leg, Ev.lid, [c |-> Ev.c, name |-> Ev.name, tp |-> Ev.tp, call |-> l, del |-> 0, st |-> Opt(Ev, "st", "active")])
  /\ viol' = viol \cup {V("OneOwner", "cross-source:legacy-claims-repo-name:" \o (IF cr[t].c = Ev.c THEN "same-client" ELSE "other-client")) :
                           t \in {x \in DOMAIN cr : cr[x].ok /\ cr[x].name = Ev.name /\ OwnerDels(x) = {}}}
                  \cup {V("OneOwner", "legacy:second-claim:" \o (IF leg[x].c = Ev.c THEN "same-client" ELSE "other-client")) : x \in LiveLegacy(Ev.name)}
  /\ l' = l + 1 /\ UNCHANGED <<cr, dl, up, lk>>

TrLegDelete ==
  /\ Is("LegDelete")
  /\ leg' = [leg EXCEPT ![Ev.lid].del = l]
  /\ l' = l + 1 /\ UNCHANGED <<viol, cr, dl, up, lk>>

\* ---- clause 4: quiescent store (after every call has returned) --------------------------------
FinalViol(e) ==
  LET idx == Elems(e.index)    \* <<name, id>>
      recs == Elems(e.recs)    \* <<id, c, name, tp>>
      lst == Elems(e.lists)    \* <<c, id>>
      okT == {t \in DOMAIN cr : cr[t].ok}
      untouched == {t \in okT : OwnerDels(t) = {}}                 \* created, never the target of an owner delete
      gone == {t \in okT : SurelyDeletedBefore(t, l)}
      failed == {t \in DOMAIN cr : cr[t].ret # 0 /\ ~cr[t].ok}
  IN (IF \E x \in idx : ~\E r \in recs : r[1] = x[2] /\ r[3] = x[1] THEN {V("Final", "index-without-record")} ELSE {})
     \cup (IF \E t \in untouched : ~\E r \in recs : r[1] = cr[t].id /\ r[2] = cr[t].c /\ r[3] = cr[t].name /\ r[4] = t
           THEN {V("Final", "live-mapping:no-record")} ELSE {})
     \* the record of a mapping still carries the client and the name it was created with, whatever was updated
     \cup (IF \E t \in okT : \E r \in recs : r[1] = cr[t].id /\ (r[2] # cr[t].c \/ r[3] # cr[t].name)
           THEN {V("UpdateClaimsNothing", "record-relabelled")} ELSE {})
     \cup (IF \E t \in untouched : <<cr[t].name, cr[t].id>> \notin idx THEN {V("Final", "live-mapping:not-indexed")} ELSE {})
     \cup (IF \E t \in untouched : <<cr[t].c, cr[t].id>> \notin lst THEN {V("Final", "live-mapping:not-listed")} ELSE {})
     \cup (IF \E t \in gone : <<cr[t].name, cr[t].id>> \in idx THEN {V("Final", "deleted:still-indexed")} ELSE {})
     \cup (IF \E t \in failed : \E r \in recs : r[4] = t THEN {V("Final", "rollback:record-remains")} ELSE {})

TrFinal ==
  /\ Is("Final")
  /\ viol' = viol \cup FinalViol(Ev)
  /\ l' = l + 1 /\ UNCHANGED <<cr, dl, up, lk, leg>>

TrEnd == /\ Is("End") /\ EmitVerdict
         /\ l' = l + 1 /\ viol' = {} /\ cr' = Empty /\ dl' = {} /\ up' = {} /\ lk' = Empty /\ leg' = Empty

Next == TrCall \/ TrRet \/ TrLegCreate \/ TrLegDelete \/ TrFinal \/ TrEnd
Spec == Init /\ [][Next]_vars
=============================================================================
