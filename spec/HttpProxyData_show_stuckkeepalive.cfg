\* X06 demonstration, EXPECTED TO FAIL: every deviation repaired except StuckKeepAlive
CONSTANTS
  Fix = {"ChunkedSmall", "Truncated", "MultiReq", "MultiResp", "RedirectFollowed", "RespTruncated", "ChunkedRaw"}
  Emit = FALSE
SPECIFICATION Spec
INVARIANTS TypeOK SameRequest SameResponse
CHECK_DEADLOCK FALSE
