\* C16, documentation run (not part of ./check): hypothetical design "claim" alone against the STRICT property.
\* TLC reports "Invariant StoredExact is violated":
\* reportTrafficStats holding its mutex for the claim only (seeded change C16-r3m2): two reporters read the
\* same mapping statistics and the later UpdatePortMappingStats overwrites the earlier one - every delta was
\* reported once (TrafficExact holds) but the totals kept by cloud control are short (dev_lost)
\* The check itself (Dispose.cfg) verifies the same configuration against  property \/ named deviation  and passes.
CONSTANTS
  Suite = "show_claim"
  Emit = FALSE
INIT Init
NEXT Next
VIEW view
INVARIANTS TypeOK StoredExact
CHECK_DEADLOCK FALSE
