\* (ii) UDP - LASSO: the code as found, deviations NOT excused.  THIS RUN MUST FAIL:
\* TLC reports "Temporal property UTermination was violated" with a lasso - either the de-framer
\* (bounds: sequences of at most 1 datagram - enough for both lassos)
\* going round read -> inner -> after -> read on a finished stream (back-edge), or stuttering with
\* g2 done and g1 parked in udpConn.Read.  harness/drivers/c12 runs it and demands the failure.
CONSTANTS
  MaxSend = 1
  EofWithData = TRUE
  ShapesA <- LocalShapes
  ShapesB <- AllShapes
  DevDeadlineAt = "none"
  DevDeadlineHits = {"read"}
  Monitor = FALSE
  IdleMax = 2
  DevMonNoFeed = FALSE
  Reactive = FALSE
  DevNoSignalOnError = FALSE
  DevCloseWriterFallback = FALSE
  Emit = FALSE
  Classes = {1, 2, 3, 4}
  BatchSize = 32
  BatchBuf = 22
  High = 100
  MaxT = 1
  MaxU = 1
  TSeqs <- TAll
  USeqs <- USmall
  Cuts = "all"
  Chunks = {0}
  Paces = {"burst"}
  DevSpin = TRUE
  DevNoUnblock = TRUE
  DevAliasFlush = FALSE
  SockBatch = FALSE
  DevNoInnerFlush = FALSE
  SockQueue = FALSE
  DevQueueRefs = FALSE
  DevSockDeadline = FALSE
  DevDropOnClose = FALSE
SPECIFICATION USpec
INVARIANTS UTypeOK UDatagrams UComplete UCompleteAny UEncoded UFlushed UMutex UBuf UBatchFits UNoSpuriousEnd
PROPERTIES UDelivMonotone UEventuallyFlushed UTermination
CHECK_DEADLOCK FALSE
