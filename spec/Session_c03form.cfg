\* C03, peer address forms: the transports report the peer as IPv4, IPv6, IPv6 with a zone, IPv4-mapped IPv6 (TCP address
\* type) or as a UDP address (IPv4, IPv6 with a zone); crossed with exact and range entries of the blacklist / whitelist and
\* with bans of every kind; one client, control type.
CONSTANTS
  Conn <- Conn2
  Client <- Client1
  MaxNonce = 2
  MaxFail = 3
  MaxCtl = 0
  Faults = {}
  Ops = {"Msg", "Ban", "BanKinds", "Blacklist", "Whitelist", "AddrForm"}
  Types = {"control"}
  PreAccept = TRUE
  Fixes = @@FIXES@@
  Split = FALSE
  MaxLevel = @@LEVEL@@
  Emit = @@EMIT@@
INIT Init
NEXT Next
VIEW view
INVARIANTS TypeOK OnlyProven StepsOK ProvenIssued C07InvMasked C07OneMasked
CHECK_DEADLOCK FALSE
