------------------------------ MODULE Socks5Ref ------------------------------
(* Reference reading of RFC 1928 (and of the RFC 1929 sub-negotiation the server-side adapter   *)
(* offers) for property C20.  Pure operators over CONCRETE byte sequences (Seq(0..255)); shared *)
(* by the design model / behaviour generator (Socks5.tla) and by the judge (Socks5Trace.tla).   *)
(*                                                                                              *)
(* A server profile says what the implementation offers: the authentication method it selects  *)
(* (0 = no authentication, 2 = username/password) and the commands it supports.  Everything    *)
(* else is the RFC:                                                                             *)
(*   greeting  VER=5 NMETHODS METHODS            -> reply  05 <method>   (05 FF: none acceptable) *)
(*   [RFC1929  VER=1 ULEN UNAME PLEN PASSWD      -> reply  01 <status>   (status /= 0: failure)]  *)
(*   request   VER=5 CMD RSV ATYP DST.ADDR PORT  -> result, or reply 05 <REP> 00 ATYP ADDR PORT   *)
(*             REP 07 command not supported, 08 address type not supported                      *)
(*   UDP       RSV RSV FRAG ATYP DST.ADDR PORT DATA ; FRAG /= 0 MUST be dropped when            *)
(*             fragmentation is not implemented                                                 *)
(* Offsets: `o` is always the number of bytes already consumed; the next byte is s[o+1].        *)
EXTENDS Naturals, Sequences, FiniteSets, TLC

Cut(s, a, b) == IF a > b THEN <<>> ELSE SubSeq(s, a, b)
Rest(s, o)   == Cut(s, o + 1, Len(s))
Contains(s, x) == \E i \in DOMAIN s : s[i] = x
Rep(n, x) == [i \in 1..n |-> x]
V4Mapped(a) == <<0, 0, 0, 0, 0, 0, 0, 0, 0, 0, 255, 255>> \o a     \* 16-octet form of an IPv4 address

\* ---- server profiles -------------------------------------------------------------------
User == <<117, 115, 114>>          \* "usr"
Pass == <<112, 119>>               \* "pw"
Profile(name) ==
  \* joined: the result is handed on as ONE "host:port" string (Go convention: net.JoinHostPort / SplitHostPort)
  CASE name = "listener"    -> [method |-> 0, cmds |-> {1, 3}, joined |-> FALSE]   \* client/socks5.Listener.Handshake
    [] name = "adapter"     -> [method |-> 0, cmds |-> {1}, joined |-> TRUE]       \* protocol/adapter.SocksAdapter, no credentials
    [] name = "adapterauth" -> [method |-> 2, cmds |-> {1}, joined |-> TRUE]       \* protocol/adapter.SocksAdapter with credentials

\* ---- greeting ----------------------------------------------------------------------------
\* st: "ok" | "trunc" | "ver" | "nm0" | "nomethod";  next = bytes consumed by the greeting;
\* extent = how far a parser may justifiably have read when it stops here.
GR(st, sel, next, extent) == [st |-> st, sel |-> sel, next |-> next, extent |-> extent]
Greet(s, m) ==
  LET n == Len(s) IN
  IF n = 0 THEN GR("trunc", 255, 0, n)
  ELSE IF s[1] # 5 THEN GR("ver", 255, 0, n)              \* not SOCKS5 at all: extent left open
  ELSE IF n < 2 THEN GR("trunc", 255, 0, n)
  ELSE IF s[2] = 0 THEN GR("nm0", 255, 2, 2)
  ELSE IF n < 2 + s[2] THEN GR("trunc", 255, 0, n)
  ELSE IF Contains(SubSeq(s, 3, 2 + s[2]), m) THEN GR("ok", m, 2 + s[2], 2 + s[2])
  ELSE GR("nomethod", 255, 2 + s[2], 2 + s[2])

\* ---- RFC 1929 username/password sub-negotiation ------------------------------------------
\* st: "ok" | "bad" | "trunc" | "ver"
AR(st, next, extent) == [st |-> st, next |-> next, extent |-> extent]
Auth(s, o) ==
  LET n == Len(s) - o IN
  IF n < 1 THEN AR("trunc", o, Len(s))
  ELSE IF s[o + 1] # 1 THEN AR("ver", o, Len(s))
  ELSE IF n < 2 THEN AR("trunc", o, Len(s))
  ELSE LET ul == s[o + 2] IN
    IF n < 3 + ul THEN AR("trunc", o, Len(s))
    ELSE LET pl == s[o + 3 + ul] IN
      IF n < 3 + ul + pl THEN AR("trunc", o, Len(s))
      ELSE LET e == o + 3 + ul + pl IN
           IF Cut(s, o + 3, o + 2 + ul) = User /\ Cut(s, o + 4 + ul, e) = Pass
           THEN AR("ok", e, e) ELSE AR("bad", e, e)

\* ---- request -----------------------------------------------------------------------------
\* st: "result" | "rej" | "trunc" | "ver";  reps = reply codes the RFC mandates for a "rej";
\* hdr = TRUE when CMD/ATYP were available (used for the class description only);
\* lenient = the RFC assigns a parse but does not forbid refusing it (RSV /= 0, empty domain).
QNone == [st |-> "na", reps |-> {}, hdr |-> FALSE, cmd |-> 0, atyp |-> 0, dlen |-> 0, addr |-> <<>>,
          port |-> 0, next |-> 0, extent |-> 0, lenient |-> FALSE]
Req(s, o, cmds) ==
  LET n == Len(s) - o
      Q(st) == [QNone EXCEPT !.st = st, !.next = o, !.extent = Len(s)]
  IN
  IF n < 1 THEN Q("trunc")
  ELSE IF s[o + 1] # 5 THEN Q("ver")
  ELSE IF n < 4 THEN Q("trunc")
  ELSE
    LET cmd == s[o + 2]  rsv == s[o + 3]  atyp == s[o + 4]
        badc == cmd \notin cmds
        H == [Q("trunc") EXCEPT !.hdr = TRUE, !.cmd = cmd, !.atyp = atyp]
    IN
    IF atyp \notin {1, 3, 4}
    THEN [H EXCEPT !.st = "rej", !.reps = {8} \cup (IF badc THEN {7} ELSE {}), !.extent = o + 4]
    ELSE IF atyp = 3 /\ n < 5 THEN H
    ELSE
      LET dl   == IF atyp = 3 THEN s[o + 5] ELSE 0
          alen == CASE atyp = 1 -> 4 [] atyp = 4 -> 16 [] atyp = 3 -> 1 + dl
          tot  == 4 + alen + 2
          HD   == [H EXCEPT !.dlen = dl]
      IN
      IF n < tot THEN HD
      ELSE IF badc THEN [HD EXCEPT !.st = "rej", !.reps = {7}, !.extent = o + tot, !.next = o + tot]
      ELSE [HD EXCEPT !.st = "result",
                      !.addr = IF atyp = 3 THEN Cut(s, o + 6, o + 5 + dl) ELSE Cut(s, o + 5, o + 4 + alen),
                      !.port = s[o + tot - 1] * 256 + s[o + tot],
                      !.next = o + tot, !.extent = o + tot,
                      !.lenient = (rsv # 0 \/ (atyp = 3 /\ dl = 0))]

\* ---- the whole negotiation ---------------------------------------------------------------
RefHs(s, prof) ==
  LET g == Greet(s, prof.method)
      a == IF g.st = "ok" /\ g.sel = 2 THEN Auth(s, g.next)
           ELSE AR(IF g.st = "ok" THEN "na" ELSE "no", g.next, g.extent)
      q == IF g.st = "ok" /\ a.st \in {"ok", "na"} THEN Req(s, a.next, prof.cmds) ELSE QNone
  IN [g |-> g, a |-> a, q |-> q,
      result |-> (q.st = "result"),
      used   |-> q.next,
      extent |-> IF g.st # "ok" THEN g.extent ELSE IF a.st \notin {"ok", "na"} THEN a.extent ELSE q.extent]

\* why a message is not a result (first failing stage)
Why(r) == IF r.result THEN "result"
          ELSE IF r.g.st # "ok" THEN "greeting-" \o r.g.st
          ELSE IF r.a.st \notin {"ok", "na"} THEN "auth-" \o r.a.st
          ELSE "request-" \o r.q.st

CmdClass(c)  == IF c \in {1, 2, 3} THEN ToString(c) ELSE "other"
AtypClass(a) == IF a \in {1, 3, 4} THEN ToString(a) ELSE "other"
LenClass(n)  == IF n \in {0, 1, 2, 255} THEN ToString(n) ELSE "mid"
\* input class of a negotiation as the reference sees it (part of every violation detail)
HsClass(r) == Why(r) \o (IF r.q.hdr THEN ":cmd=" \o CmdClass(r.q.cmd) \o ":atyp=" \o AtypClass(r.q.atyp)
                                          \o (IF r.q.atyp = 3 THEN ":dlen=" \o LenClass(r.q.dlen) ELSE "")
                                          \o (IF r.result /\ r.q.atyp = 3 /\ Contains(r.q.addr, 58) THEN ":colon" ELSE "")
                         ELSE "")

\* ---- "host:port" strings (octet sequences; 58 ':' 91 '[' 93 ']' 37 '%') ---------------------------
\* JoinHP brackets a host that contains ':' or '%'; SplitHP is its inverse and fails on anything ambiguous
JoinHP(h, p) == IF Contains(h, 58) \/ Contains(h, 37) THEN <<91>> \o h \o <<93, 58>> \o p ELSE h \o <<58>> \o p
SplitHP(s) ==
  LET bad == [ok |-> FALSE, host |-> <<>>, port |-> <<>>] IN
  IF s # <<>> /\ s[1] = 91 THEN
     LET cl == {i \in DOMAIN s : s[i] = 93} IN
     IF cl = {} THEN bad
     ELSE LET e == CHOOSE i \in cl : \A j \in cl : i <= j IN
          IF e + 1 > Len(s) \/ s[e + 1] # 58 \/ Contains(Rest(s, e + 1), 58) THEN bad
          ELSE [ok |-> TRUE, host |-> Cut(s, 2, e - 1), port |-> Rest(s, e + 1)]
  ELSE LET co == {i \in DOMAIN s : s[i] = 58} IN
       IF Cardinality(co) # 1 \/ Contains(s, 91) \/ Contains(s, 93) THEN bad
       ELSE LET k == CHOOSE i \in co : TRUE IN [ok |-> TRUE, host |-> Cut(s, 1, k - 1), port |-> Rest(s, k)]

\* ---- ADDRESS VALUE CLASSES (round 5) ----------------------------------------------------------
\* RFC 1928 assigns every 4 / 16 / 1+n octets an address; implementations hand addresses on as TEXT, and text
\* has special cases exactly where the octets do.  Representatives (octets) of the value classes:
\*   IPv4  gen 10.1.2.3, zero 0.0.0.0, bcast 255.255.255.255, vdns 10.0.0.1 (the client's virtual DNS address),
\*         loop 127.0.0.1
\*   IPv6  gen 2001:db8::1, unspec ::, loop ::1, mapped ::ffff:8.8.4.4 (IPv4-mapped), mapvdns ::ffff:10.0.0.1,
\*         compat ::8.8.4.4 (IPv4-compatible), linklocal fe80::1 (no zone), zrun 2001:db8:0:0:1:0:0:1 (two zero
\*         runs), lead0 1:2:3:4:5:6:7:8 (leading zeros in every group, nothing to compress), full ffff:...:ffff
\*   name  name "aaa..", colon ":::..", num "111.." (numeric looking), v4lit "1.2.3.4", v6lit "::1" (canonical IP
\*         literals sent as a name), v6alt "0::1" (IP literal, not the canonical spelling), maplit "::ffff:1.2.3.4",
\*         lead0 "01.2.3.4" (looks like an IP literal, is none), dot "aa.." + "." (trailing dot), upper "AAA.."
V4Val(c) == CASE c = "zero" -> <<0, 0, 0, 0>> [] c = "bcast" -> <<255, 255, 255, 255>> [] c = "vdns" -> <<10, 0, 0, 1>>
              [] c = "loop" -> <<127, 0, 0, 1>> [] OTHER -> <<10, 1, 2, 3>>
V6Val(c) == CASE c = "unspec"    -> Rep(16, 0)
              [] c = "loop"      -> Rep(15, 0) \o <<1>>
              [] c = "mapped"    -> Rep(10, 0) \o <<255, 255, 8, 8, 4, 4>>
              [] c = "mapvdns"   -> Rep(10, 0) \o <<255, 255, 10, 0, 0, 1>>
              [] c = "compat"    -> Rep(12, 0) \o <<8, 8, 4, 4>>
              [] c = "linklocal" -> <<254, 128>> \o Rep(13, 0) \o <<1>>
              [] c = "zrun"      -> <<32, 1, 13, 184, 0, 0, 0, 0, 0, 1, 0, 0, 0, 0, 0, 1>>
              [] c = "lead0"     -> <<0, 1, 0, 2, 0, 3, 0, 4, 0, 5, 0, 6, 0, 7, 0, 8>>
              [] c = "full"      -> Rep(16, 255)
              [] OTHER           -> <<32, 1, 13, 184>> \o Rep(11, 0) \o <<1>>
V4Classes == {"gen", "zero", "bcast", "vdns", "loop"}
V6Classes == {"gen", "unspec", "loop", "mapped", "mapvdns", "compat", "linklocal", "zrun", "lead0", "full"}
\* names whose octets are fixed by the class (the length follows); the other name classes take any length
TxtV4   == <<49, 46, 50, 46, 51, 46, 52>>                                   \* "1.2.3.4"
TxtV6   == <<58, 58, 49>>                                                   \* "::1"
TxtV6A  == <<48, 58, 58, 49>>                                               \* "0::1"
TxtMap  == <<58, 58, 102, 102, 102, 102, 58>> \o TxtV4                      \* "::ffff:1.2.3.4"
TxtLd0  == <<48>> \o TxtV4                                                  \* "01.2.3.4"
FixedNames == {"v4lit", "v6lit", "v6alt", "maplit", "lead0"}
NameVal(c, n) == CASE c = "v4lit" -> TxtV4 [] c = "v6lit" -> TxtV6 [] c = "v6alt" -> TxtV6A [] c = "maplit" -> TxtMap
                   [] c = "lead0" -> TxtLd0
                   [] c = "colon" -> Rep(n, 58) [] c = "num" -> Rep(n, 49) [] c = "upper" -> Rep(n, 65)
                   [] c = "dot" -> IF n = 0 THEN <<>> ELSE Rep(n - 1, 97) \o <<46>>
                   [] OTHER -> Rep(n, 97)
NameLen(c, n) == IF c \in FixedNames THEN Len(NameVal(c, n)) ELSE n

\* the value class of concrete octets (part of every violation detail; not of the asserted case class)
IsMapped(a) == Len(a) = 16 /\ SubSeq(a, 1, 12) = Rep(10, 0) \o <<255, 255>>
Digit(x) == x \in 48..57
ValClass(atyp, a) ==
  CASE atyp = 1 /\ Len(a) = 4 ->
         (IF a = <<0, 0, 0, 0>> THEN "zero" ELSE IF a = <<255, 255, 255, 255>> THEN "bcast"
          ELSE IF a = <<10, 0, 0, 1>> THEN "vdns" ELSE IF a[1] = 127 THEN "loop" ELSE "gen")
    [] atyp = 4 /\ Len(a) = 16 ->
         (IF a = Rep(16, 0) THEN "unspec" ELSE IF a = Rep(15, 0) \o <<1>> THEN "loop"
          ELSE IF IsMapped(a) THEN "mapped" ELSE IF SubSeq(a, 1, 12) = Rep(12, 0) THEN "compat"
          ELSE IF a[1] = 254 /\ a[2] \in 128..191 THEN "linklocal" ELSE "gen")
    [] atyp = 3 ->
         (IF a = <<>> THEN "empty"
          ELSE IF Contains(a, 58) THEN "colon"
          ELSE IF \A i \in DOMAIN a : Digit(a[i]) THEN "num"
          ELSE IF \A i \in DOMAIN a : Digit(a[i]) \/ a[i] = 46 THEN "dotted"
          ELSE IF a[Len(a)] = 46 THEN "dot"
          ELSE IF \E i \in DOMAIN a : a[i] \in 65..90 THEN "upper" ELSE "name")
    [] OTHER -> "-"

\* ---- TEXTUAL FORMS (what the parsers hand on, what the encoders read back) -----------------------
\* A host text is a sequence: a name is its octets; the dotted quad of 4 octets b is <<256>> \o b; the IPv6 text
\* of 16 octets b is <<257>> \o b (tags above 255 cannot collide with octets).  Two texts are the same STRING
\* iff they are the same sequence - each renderer below is canonical per (form, octets).
\*   RenderIP    net.IP(b).String(): an IPv4-mapped IPv6 address is printed as the dotted quad of its IPv4 form
\*   RenderNetip netip.AddrFrom4/16(b).String(): an IPv4-mapped address stays IPv6 text ("::ffff:a.b.c.d")
Dotted(b) == <<256>> \o b
Colon(b)  == <<257>> \o b
RenderIP(atyp, a)    == CASE atyp = 1 -> Dotted(a) [] atyp = 4 -> (IF IsMapped(a) THEN Dotted(SubSeq(a, 13, 16)) ELSE Colon(a))
                          [] OTHER -> a
RenderNetip(atyp, a) == CASE atyp = 1 -> Dotted(a) [] atyp = 4 -> Colon(a) [] OTHER -> a
\* reading text back (net.ParseIP): the IP a text spells, in 16-octet form; <<>> = not an IP literal.
\* Names: the table covers the model's representatives (the driver asks net.ParseIP for concrete names).
LitIp(t) == CASE t = TxtV4  -> V4Mapped(<<1, 2, 3, 4>>)
              [] t = TxtV6  -> Rep(15, 0) \o <<1>>
              [] t = TxtV6A -> Rep(15, 0) \o <<1>>
              [] t = TxtMap -> V4Mapped(<<1, 2, 3, 4>>)
              [] OTHER -> <<>>
TextIp(t) == IF t = <<>> THEN <<>>
             ELSE IF t[1] = 256 THEN V4Mapped(Rest(t, 1)) ELSE IF t[1] = 257 THEN Rest(t, 1) ELSE LitIp(t)
\* the encoder's classification of a host text (buildUDPHeader, sendReply): ParseIP(h).To4() /= nil -> ATYP 1,
\* else ParseIP(h) /= nil -> ATYP 4, else a name
EncodeText(t) == LET ip == TextIp(t) IN
                 IF ip = <<>> THEN [atyp |-> 3, addr |-> t]
                 ELSE IF IsMapped(ip) THEN [atyp |-> 1, addr |-> SubSeq(ip, 13, 16)] ELSE [atyp |-> 4, addr |-> ip]

\* ---- what an observer may demand of an implementation -------------------------------------
\* Observation o: [ok, cmd, host, ip, port, wrote, consumed, panic]
\*   host = bytes of the host string handed to the caller, ip = its 16-byte form when that string
\*   is an IP literal (else <<>>), wrote = all bytes written back, consumed = bytes taken from the
\*   connection.
AddrSame(atyp, addr, host, ip) ==
  CASE atyp = 3 -> host = addr
    [] atyp = 1 -> ip = V4Mapped(addr)
    [] atyp = 4 -> ip = addr
    [] OTHER -> FALSE

\* a well-formed reply  05 REP 00 ATYP BND.ADDR BND.PORT
ReplyWF(R) == /\ Len(R) >= 5 /\ R[1] = 5 /\ R[3] = 0 /\ R[4] \in {1, 3, 4}
              /\ Len(R) = 4 + (CASE R[4] = 1 -> 4 [] R[4] = 4 -> 16 [] R[4] = 3 -> 1 + R[5]) + 2
\* where the RFC mandates no particular reaction (wrong version octet, message cut short) the only demand
\* is that nothing was granted: no method selected, no success status, no success reply
SelectsMethod(W) == Len(W) >= 2 /\ W[1] = 5 /\ W[2] # 255
StatusSuccess(A) == Len(A) >= 2 /\ A[1] = 1 /\ A[2] = 0
ReplySuccess(R)  == Len(R) >= 2 /\ R[1] = 5 /\ R[2] = 0

\* the set of violated clauses
HsViol(r, o) ==
  LET W  == o.wrote
      gOK == r.g.st = "ok"
      \* method selection message
      mBad == IF gOK THEN ~(Len(W) >= 2 /\ W[1] = 5 /\ W[2] = r.g.sel)
              ELSE IF r.g.st = "nomethod" THEN W # <<5, 255>>
              ELSE SelectsMethod(W)                        \* nothing selectable (open: silence, 05 FF, ...)
      W2 == IF gOK /\ ~mBad THEN Rest(W, 2) ELSE <<>>
      \* RFC 1929 status message
      aBad == IF ~gOK \/ mBad \/ r.a.st = "na" THEN FALSE
              ELSE IF r.a.st = "ok" THEN ~(Len(W2) >= 2 /\ W2[1] = 1 /\ W2[2] = 0)
              ELSE IF r.a.st = "bad" THEN ~(Len(W2) = 2 /\ W2[1] = 1 /\ W2[2] # 0)
              ELSE StatusSuccess(W2)
      R  == IF r.a.st = "ok" /\ ~aBad THEN Rest(W2, 2) ELSE W2
      \* reply to the request
      rBad == IF ~gOK \/ mBad \/ aBad \/ r.a.st \notin {"ok", "na"} THEN FALSE
              ELSE IF r.q.st = "rej" THEN ~(ReplyWF(R) /\ R[2] \in r.q.reps)
              ELSE IF r.q.st = "result" /\ o.ok THEN ~(R = <<>> \/ (ReplyWF(R) /\ R[2] = 0))
              ELSE ReplySuccess(R)
      outBad == IF r.result THEN ~o.ok /\ ~r.q.lenient ELSE o.ok
      fldBad == r.result /\ o.ok /\
                ~(o.cmd = r.q.cmd /\ o.port = r.q.port /\ AddrSame(r.q.atyp, r.q.addr, o.host, o.ip))
      conBad == r.result /\ o.ok /\ o.consumed # r.used       \* payload after the request left intact
      ovrBad == ~(r.result /\ o.ok) /\ o.consumed > (IF r.result THEN r.used ELSE r.extent)
  IN  (IF o.panic THEN {"Panic"} ELSE {})
 \cup (IF mBad THEN {"MethodReply"} ELSE {})
 \cup (IF aBad THEN {"AuthReply"} ELSE {})
 \cup (IF rBad THEN {"Reply"} ELSE {})
 \cup (IF outBad THEN {"Outcome"} ELSE {})
 \cup (IF fldBad THEN {"Fields"} ELSE {})
 \cup (IF conBad THEN {"Consumed"} ELSE {})
 \cup (IF ovrBad THEN {"OverRead"} ELSE {})

\* ---- UDP request header ------------------------------------------------------------------
UNone == [st |-> "reject", why |-> "", hdr |-> FALSE, atyp |-> 0, dlen |-> 0, addr |-> <<>>, port |-> 0,
          pay |-> 0, lenient |-> FALSE]
RefUdp(d) ==
  LET n == Len(d)
      U(why) == [UNone EXCEPT !.why = why]
  IN
  IF n < 4 THEN U("trunc")
  ELSE LET atyp == d[4]
           H(why) == [U(why) EXCEPT !.hdr = TRUE, !.atyp = atyp]
       IN
    IF d[3] # 0 THEN H("frag")
    ELSE IF atyp \notin {1, 3, 4} THEN H("atyp")
    ELSE IF atyp = 3 /\ n < 5 THEN H("trunc")
    ELSE
      LET dl   == IF atyp = 3 THEN d[5] ELSE 0
          alen == CASE atyp = 1 -> 4 [] atyp = 4 -> 16 [] atyp = 3 -> 1 + dl
          h    == 4 + alen + 2
      IN
      IF n < h THEN [H("trunc") EXCEPT !.dlen = dl]
      ELSE [H("") EXCEPT !.st = "result", !.dlen = dl,
                         !.addr = IF atyp = 3 THEN Cut(d, 6, 5 + dl) ELSE Cut(d, 5, 4 + alen),
                         !.port = d[h - 1] * 256 + d[h],
                         !.pay = h,                                    \* payload = Rest(d, h)
                         !.lenient = (d[1] # 0 \/ d[2] # 0 \/ (atyp = 3 /\ dl = 0))]

BuildUdp(atyp, addr, port, payload) ==
  <<0, 0, 0, atyp>> \o (IF atyp = 3 THEN <<Len(addr)>> ELSE <<>>) \o addr
  \o <<port \div 256, port % 256>> \o payload

UdpClass(u, d) == (IF u.st = "result" THEN "result" ELSE "reject-" \o u.why)
                  \o (IF u.hdr THEN ":atyp=" \o AtypClass(u.atyp)
                                    \o (IF u.atyp = 3 /\ Len(d) >= 5 THEN ":dlen=" \o LenClass(d[5]) ELSE "")
                      ELSE "")

\* the same destination in two parsed headers: the same triple; an IPv4-mapped IPv6 address and its IPv4 form are
\* the same address; a NAME that spells an IP literal (nip = that address in 16-octet form, <<>> when the name is
\* no IP literal) and that address are the same destination (RFC 1928 is silent about such names)
NormIp(u) == CASE u.atyp = 1 -> V4Mapped(u.addr) [] u.atyp = 4 -> u.addr [] OTHER -> <<>>
NormIpN(u, nip) == IF u.atyp = 3 THEN nip ELSE NormIp(u)
SameDestN(v, u, nip) == /\ v.st = "result" /\ u.st = "result" /\ v.port = u.port
                        /\ ((v.atyp = u.atyp /\ v.addr = u.addr) \/ (NormIpN(u, nip) # <<>> /\ NormIp(v) = NormIpN(u, nip)))
SameDestU(v, u) == SameDestN(v, u, <<>>)

\* Observation o: [ok, host, ip, port, payload, panic, nip, rebuilt, rt |-> [ok, host, ip, port, payload]]
\*   rebuilt = build(parse(d)) and rt = parse(build(parse(d))) as performed by the implementation;
\*   nip = the IP the datagram's NAME spells (see SameDestN).
\* RoundTrip: "re-encoding a parsed header and parsing it again yields the same destination and payload".  The
\*   destination a parser hands on is a host STRING, and the string is what the implementation identifies a
\*   destination by (session key, virtual-DNS test): for an address the parser itself rendered from ATYP 1 / 4
\*   octets, its own encoder and parser must reproduce exactly that string - whichever spelling it chose.  For a
\*   name the spelling is the application's; if the encoder reads it as an IP literal the second parse may spell
\*   that address differently (same address = same destination).
\* ReEncode: the re-encoded header, read by the reference, names the destination and payload of the datagram.
UdpViol(u, d, o) ==
  LET res == u.st = "result"
      outBad == IF res THEN ~o.ok /\ ~u.lenient ELSE o.ok
      fldBad == res /\ o.ok /\ ~(o.port = u.port /\ AddrSame(u.atyp, u.addr, o.host, o.ip))
      payBad == res /\ o.ok /\ o.payload # Rest(d, u.pay)
      hostRT == o.rt.host = o.host \/ (u.atyp = 3 /\ o.ip # <<>> /\ o.rt.ip = o.ip)
      rtBad  == o.ok /\ ~(o.rt.ok /\ hostRT /\ o.rt.port = o.port /\ o.rt.payload = o.payload)
      v      == RefUdp(o.rebuilt)
      encBad == res /\ o.ok /\ ~(/\ SameDestN(v, u, o.nip)
                                 /\ o.rebuilt[1] = 0 /\ o.rebuilt[2] = 0
                                 /\ Rest(o.rebuilt, v.pay) = Rest(d, u.pay))
  IN  (IF o.panic THEN {"Panic"} ELSE {})
 \cup (IF outBad THEN {"UdpOutcome"} ELSE {})
 \cup (IF fldBad THEN {"UdpFields"} ELSE {})
 \cup (IF payBad THEN {"UdpPayload"} ELSE {})
 \cup (IF rtBad THEN {"RoundTrip"} ELSE {})
 \cup (IF encBad THEN {"ReEncode"} ELSE {})

\* ---- UDP relay level: what is forwarded for a datagram / sent back for a response ---------------
\* f: [host, ip, port, payload] as handed to the tunnel for one destination
DestIs(u, f)        == u.st = "result" /\ f.port = u.port /\ AddrSame(u.atyp, u.addr, f.host, f.ip)
ForwardIs(u, d, f)  == DestIs(u, f) /\ f.payload = Rest(d, u.pay)
\* a datagram sent back to the application for a response e = [host, ip, port, payload] of destination e
\* a datagram sent back for the response `resp` to the datagram d (parsed u): d's header re-encoded + resp
ReplyTo(g, u, nip, resp) == LET v == RefUdp(g) IN SameDestN(v, u, nip) /\ Rest(g, v.pay) = resp /\ g[1] = 0 /\ g[2] = 0
\* q = [spok, shost, sip, sport, payload, resp]: a query handed to the control-channel DNS handler; its server
\* string must split (SplitHostPort) into the parsed destination - unless that is the virtual DNS address
\* `vd`, for which the relay substitutes a resolver of its choice
IsVirtual(u, vd) == NormIp(u) = V4Mapped(vd)           \* in either encoding (ATYP 1, or ATYP 4 IPv4-mapped)
QueryOf(u, d, q) == u.st = "result" /\ u.port = 53 /\ q.payload = Rest(d, u.pay)
ServerOK(u, vd, q) == q.spok /\ (IsVirtual(u, vd) \/ (q.sport = u.port /\ AddrSame(u.atyp, u.addr, q.shost, q.sip)))
ReplyIs(g, e) == LET v == RefUdp(g) IN DestIs(v, e) /\ Rest(g, v.pay) = e.payload /\ g[1] = 0 /\ g[2] = 0
=============================================================================
