\* C08 exhaustive design check (template: @@..@@ substituted by harness/drivers/c08).
\* Every behaviour starts by fixing the backend shape and the set of repairs the code has:
\*   fixes = {} (as-is)  : FindLiveOrDev - every violation of FindLive is explained by a named deviation
\*   fixes = all four    : Repaired      - FindLive holds and no deviation is reachable
\*   always              : FindClosed, IndexSound
\*   INVS = Repaired LookupPure (as-is lookups are read-only)   |   with WLOOKUP = TRUE (the writing-lookup
\*   design) INVS is empty: FindLive then fails only through the deviation "lookupErased"
\* Lifetimes are remaining ticks (TTL = 2, heartbeat period 1 tick): sessions of any length are covered.
CONSTANTS
  Nodes = @@NODES@@
  NConns = @@NCONNS@@
  Clients = @@CLIENTS@@
  TTL = 2
  MaxClock = 1000
  MaxHist = 99
  Shapes = @@SHAPES@@
  FixSets = @@FIXSETS@@
  Causes = {"peer", "sweep"}
  KeepCreatedAt = @@KEEPCA@@
  UseRequestId = @@USEREQ@@
  Lookups = @@LOOKUPS@@
  WritingLookup = @@WLOOKUP@@
  Emit = FALSE
  Only = "all"
INIT Init
NEXT Next
VIEW view
INVARIANTS TypeOK IndexSound FindLiveOrDev FindClosed @@INVS@@
CHECK_DEADLOCK FALSE
