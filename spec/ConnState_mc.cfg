\* C08 exhaustive design check (template: @@..@@ substituted by harness/drivers/c08).
\* Every behaviour starts by fixing the backend (shape, CAS support) and the set of repairs the code has:
\*   fixes = {} (as-is)  : FindLiveOrDev - every violation of FindLive is explained by a named deviation
\*   fixes = TreeFixes   : RepairedTree  - atomic events: FindLive and no deviation; store operations in flight
\*                                         (INFLIGHT = TRUE): only staleIdxWrite / staleIdxDelete
\*   fixes = all five    : Repaired      - FindLive holds and no deviation is reachable
\*   always              : FindClosed, IndexSound; StateLiveOrDev, StateClosedOrDev (the cloud-control client
\*                         runtime state: violated only through stateMovedByLost / stateKeptByKick / stateRebuiltStale),
\*                         StateRepaired (none reachable with stateAfterDelivery + kickDisconnects)
\*   INVS = Repaired RepairedTree LookupPure (as-is lookups are read-only)   |   with WLOOKUP = TRUE (the
\*   writing-lookup design) or another alternative design INVS is empty: FindLive then fails only through
\*   the design's named deviation
\* Lifetimes are remaining ticks (TTL = 2, heartbeat period 1 tick): sessions of any length are covered.
CONSTANTS
  Nodes = @@NODES@@
  NConns = @@NCONNS@@
  Clients = @@CLIENTS@@
  TTL = 2
  MaxClock = 1000
  MaxHist = 99
  Shapes = @@SHAPES@@
  CasSet = {FALSE}
  FixSets = @@FIXSETS@@
  Causes = @@CAUSES@@
  KeepCreatedAt = @@KEEPCA@@
  UseRequestId = @@USEREQ@@
  IdxRenew = "@@IDXRENEW@@"
  RecRenew = "@@RECRENEW@@"
  Lookups = @@LOOKUPS@@
  WritingLookup = @@WLOOKUP@@
  InFlight = @@INFLIGHT@@
  ClientState = @@CSTATE@@
  Emit = FALSE
  Only = "all"
INIT Init
NEXT Next
VIEW view
INVARIANTS TypeOK IndexSound FindLiveOrDev FindClosed StateLiveOrDev StateClosedOrDev StateRepaired @@INVS@@
CHECK_DEADLOCK FALSE
