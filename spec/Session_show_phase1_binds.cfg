\* Documentation only (not run by the check): named deviation "phase1BindsIdentity" of Session.tla - phase 1 stores the id
\* it names on the connection, phase 2 keeps it.  TLC: FC(c1) = A, FC(c2) = B, P1(c3, A), P2(c3, B, B's own key) = ok and c3 is
\* authenticated as A (OnlyProven violated); Session_c03msg3.cfg (Faults = {}) passes.
CONSTANTS
  Conn <- Conn3
  Client <- Client2
  MaxNonce = 2
  MaxFail = 3
  MaxCtl = 0
  Faults = {"phase1BindsIdentity"}
  Ops = {"Msg"}
  Types = {"control"}
  PreAccept = TRUE
  Fixes = {"oneIdentity", "atomicEvict"}
  Split = FALSE
  MaxLevel = 5
  Emit = "no"
INIT Init
NEXT Next
VIEW view
INVARIANTS TypeOK OnlyProven StepsOK ProvenIssued C07InvMasked C07OneMasked
CHECK_DEADLOCK FALSE
