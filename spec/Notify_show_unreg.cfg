\* X07 demonstration, EXPECTED TO FAIL (a tunnel-closed notification does not end the re-registered tunnel): the code as found (StaleUnregister) violates EndsNamed
CONSTANTS
  Part = "client"
  Devs = {"StaleUnregister"}
  Emit = FALSE
  MinLen = 0
  Eager = FALSE
  NS = 1
  MaxConn = 2
  MaxSend = 0
  MaxBcast = 1
  NH = 1
  MaxNotif = 1
  MaxAdd = 1
  NG = 2
  Flags = {}
  NP = 1
  MaxPush = 2
  MaxMove = 1
  MaxChange = 1
SPECIFICATION Spec
INVARIANTS TypeOK EndsNamed
CHECK_DEADLOCK FALSE
