\* variant claimbeforequota (see Limits_show_claimbeforequota.cfg), the consequence: after everything ended and room
\* was made (a mapping revoked), the refused activation is issued again - by the same client (Retry) or by another
\* client (RetryOther) - and is turned away with "already been used" although nobody ever used the code.
\*   tlc -config Limits_show_claimbeforequota_retry.cfg Limits.tla   (expected: Invariant RetryClean is violated:
\*   ..., Count(2) [refused], RetryOther(2) [conflict]; with MakeRoom, Retry(2), Call(2) [conflict] one step later)
CONSTANTS
  Kinds = {"mapquota"}
  NS = {2, 3, 4}
  Lims = {0, 1, 2}
  NodeCounts = {1}
  Variants = {"claimbeforequota"}
  Shape = "free"
  MaxReRel = 2
  Slacks = {1, 2}
  Listers = 1
  Retries = 1
  FixedKinds = {"conncap", "maplimit", "maplive", "codequota", "mapquota"}
  WithRelease = TRUE
  Emit = FALSE
  EmitMaxN = 4
  EmitAll = FALSE
INIT Init
NEXT Next
VIEW view
INVARIANTS TypeOK RetryClean
CHECK_DEADLOCK FALSE
