------------------------------- MODULE Notify -------------------------------
(* X07 (extension) - implementation-shaped model of server-to-client notifications in tunnox-core:  *)
(* sending (unicast, broadcast), dispatch on the client, acknowledgements, tunnel-closed            *)
(* notifications that end client tunnels, configuration push (local and through the broker).        *)
(*                                                                                                  *)
(* (a) CODE MAPPED.  Three parts, selected by the constant Part (they share no state; one module,   *)
(* one vocabulary, one judge):                                                                      *)
(*                                                                                                  *)
(* Part = "send"   internal/protocol/session/notification_service.go and its copy                   *)
(*                 session/notification/service.go (NotificationService.SendToClient,                *)
(*                 BroadcastToAll, SendTunnelClosedNotification ...), over session.ClientRegistry    *)
(*   Login(x,k)    a new connection finishes its handshake as client x; k = "ctl": handleHandshake   *)
(*                 removes x's previous control connection (ClientRegistry.Remove closes its stream) *)
(*                 and UpdateAuth indexes the new one; k = "tun" (ConnectionType "tunnel"): the       *)
(*                 connection is registered and authenticated but NOT indexed                         *)
(*   Drop(c)       the peer closes c (CloseConnection: entry removed, stream + transport closed)     *)
(*   ToTunnel(c)   handleTunnelOpen: ClientRegistry.Unregister(c) - entry removed, stream kept open  *)
(*   SLookup(s,x)  IsClosed / nil / IsExpired checks, registry.GetByClientID(x) (RLock section);     *)
(*                 nil => CodeClientOffline                                                           *)
(*   SBegin(s)     json.Marshal, conn.Stream.WritePacket: acquireWriteLock (the stream's write lock; *)
(*                 a closed stream fails here)                                                       *)
(*   SEnd(s)       the Write calls on the transport under that lock (a transport closed meanwhile    *)
(*                 fails them: CodeNetworkError), unlock, return                                     *)
(*   BSnap(s)      BroadcastToAll: registry.ListAuthenticated() (RLock section) - every registered    *)
(*                 entry with Authenticated = true, i.e. tunnel-type connections too (deviation)      *)
(*   BBegin/BEnd   one iteration of its loop: WritePacket on the next connection of the snapshot      *)
(*                 (map order: the model picks any) - lock, then write; success / fail counted        *)
(*   BDone(s)      return (successCount, failCount)                                                   *)
(*                                                                                                  *)
(* Part = "client" internal/client/command_handler.go (handleNotification, sendNotificationAck),      *)
(*                 internal/client/notify/handler.go (Dispatcher), target_notification_handler.go,    *)
(*                 target_tunnel_manager.go, tunnel/manager.go (DefaultTunnelManager.OnTunnelClosed,  *)
(*                 OnTunnelError -> Tunnel.Close)                                                     *)
(*   Arrive(k)     the read loop got a NotifyClient command: json.Unmarshal, IsExpired (expired:      *)
(*                 dropped, nothing else), Dispatch: getHandlers() = copy of the list under RLock,    *)
(*                 payload parse by type (malformed: no callback); the two built-in handlers sit at   *)
(*                 the head of the list (registered at construction / mapping start) and run here:    *)
(*                 TargetNotificationHandler.OnTunnelClosed -> TargetTunnelManager.CloseTunnel        *)
(*                 (one locked section: delete + cancel) and DefaultTunnelManager.OnTunnelClosed ->   *)
(*                 GetTunnel + Tunnel.Close(peer_closed) (CAS: once)                                  *)
(*   Call          the next handler OF THE COPY is called (user handlers: one step per callback);     *)
(*                 after the last one sendNotificationAck when RequireAck (one WritePacket)           *)
(*   Add(h)/Rem(h) Dispatcher.AddHandler / RemoveHandler (Lock sections) from user goroutines         *)
(*   TReg(g,t)     a target-side tunnel goroutine (handleTCPTargetTunnel ...) starts:                 *)
(*                 TargetTunnelManager.RegisterTunnel(t): cancels an entry already there, installs    *)
(*                 its own cancel function                                                            *)
(*   TExit(g)      the goroutine returns (its context was cancelled or the copy ended): its deferred  *)
(*                 `tunnelCancel(); UnregisterTunnel(t)` - as found delete(m.tunnels, t) whatever     *)
(*                 the entry is (deviation StaleUnregister)                                          *)
(*   LOpen(t)      a listen-side Tunnel is registered with DefaultTunnelManager and started           *)
(*   LSelf(t)      it ends by itself (copy finished / local close)                                    *)
(*                                                                                                  *)
(* Part = "push"   internal/protocol/session/manager_notify.go (NotifyClientUpdate,                  *)
(*                 sendConfigToLocalClient), config_push_broadcast.go (BroadcastConfigPush,           *)
(*                 processConfigPushBroadcasts, handleConfigPushBroadcast)                            *)
(*   Change        a mapping of the client is created (the stored configuration gets a new version)   *)
(*   PLookup(p)    NotifyClientUpdate on the origin node: clientRegistry.GetByClientID                *)
(*   PRead(p)      cloudControl.GetClientPortMappings + payload (the version it read)                 *)
(*   PSend(p)      local: sendConfigToLocalClient -> WritePacket on the connection looked up (fails   *)
(*                 if that one is gone); not local: BroadcastConfigPush -> PublishMessage: the        *)
(*                 message is queued for EVERY node's subscription (the origin's too)                 *)
(*   Recv(n)       node n's processConfigPushBroadcasts loop takes the next message:                  *)
(*                 GetControlConnectionByClientID; nil: dropped; else `go func(){... WritePacket}`    *)
(*   XWrite(n,i)   one of those goroutines writes; as found ANY of the pending ones (no order between *)
(*                 goroutines: deviation PushReorder); repaired: in arrival order                     *)
(*   Move(n)       the client's control connection moves (reconnect to node n / 0 = offline)          *)
(*                                                                                                  *)
(* Seams used by the driver (harness/drivers/x07): the first Write of a packet on the fake transport *)
(* (SBegin|SEnd, BBegin|BEnd, PSend local), the cloud-control double's GetClientPortMappings               *)
(* (PLookup|PRead), the bridge-manager double's channel (Recv), the callbacks of the driver's own    *)
(* notify.Handler values (Call), the yield point `configpush.write` of patch X07-0 (XWrite; without  *)
(* it XWrite order cannot be forced and only free-running scenes exercise it).                       *)
(*                                                                                                  *)
(* (b) WHAT A USER RELIES ON.                                                                        *)
(*  OnlyTarget   a notification for x is written only to a control connection of x - never to        *)
(*               another client's connection, never to a tunnel connection (broadcast: only control  *)
(*               connections)                                                                        *)
(*  AtMostOnce   one send puts at most one copy on the wire (broadcast: one per connection)          *)
(*  CleanFail    SendToClient returns nil iff its packet is on the wire; a client without control    *)
(*               connection gives CodeClientOffline; no panic                                        *)
(*  Counted      BroadcastToAll's successCount = copies on the wire                                  *)
(*  SendReturns  (liveness, WF) every send / broadcast returns                                       *)
(*  NoCallAfterRemove  a handler is not called after RemoveHandler(h) returned                       *)
(*  OncePerHandler     a notification reaches a registered handler at most once                      *)
(*  AckExact     exactly the notifications with RequireAck that were dispatched (not expired) are    *)
(*               acknowledged, once, with their own id, after the handlers ran                        *)
(*  EndsNamed    a tunnel-closed notification for t ends the tunnel currently running under t         *)
(*  OnlyNamed    ... and nothing else; CloseOnce: a listen tunnel's close sequence runs once          *)
(*  ReaderFree   (liveness, WF) the read loop always gets back to its read                           *)
(*  PushTarget/PushOnce  a ConfigSet for x reaches x's control connection only, once per push        *)
(*  PushOrder    pushes issued one after the other reach a connection in that order (the last         *)
(*               ConfigSet a client sees is the newest configuration)                                *)
(*  PushDrains   (liveness, WF) queues and writer goroutines drain; a dead connection costs an error  *)
(*  Silent (accepted, the judge does not demand it): a notification lost because the connection      *)
(*  looked up was replaced before the write (error returned); delivery to a client that is online    *)
(*  on ANOTHER node (SendToClient only knows the local registry: clean CodeClientOffline); what two  *)
(*  CONCURRENT NotifyClientUpdate calls leave as last configuration (read-then-send, no version);    *)
(*  the order between a push made on the node that holds the client (written at once) and one made    *)
(*  on another node (it travels through the broker) - the model has ONE origin node;                   *)
(*  the local config push blocking its caller on a stuck connection; the acknowledgement of a        *)
(*  notification whose payload was malformed (sent, processed=true); a handler panic (propagates to  *)
(*  readLoop's recover); notify ids are `notify-<ms>-<6 digits>`: unique only with high probability; *)
(*  nobody waits for an acknowledgement on the server (NotifyClientAckHandler logs and answers), so  *)
(*  there is no waiter that could leak; the production server constructs neither NotificationService *)
(*  nor the SendNotifyToClient / NotifyClientAck handlers (noted by C11) - they are driven as the    *)
(*  library they are.                                                                                *)
(*                                                                                                  *)
(* (c) NAMED DEVIATIONS of the code as found (constant Devs; ghost `dev` records which happened):    *)
(*  TunnelInBroadcast  ListAuthenticated returns authenticated tunnel-type connections: a broadcast   *)
(*                     between a tunnel connection's handshake and its TunnelOpen - or one that took  *)
(*                     its snapshot before - writes a NotifyClient command into the tunnel, where the *)
(*                     client waits for TunnelOpenAck and gives up on "unexpected packet type"        *)
(*                     (Notify_show_bcast.cfg).  Repaired by patch X07-1: the loop skips entries that *)
(*                     are not the indexed control connection of their client.                        *)
(*  SnapshotCall       Dispatch calls the handlers of its copy: a handler removed meanwhile is still   *)
(*                     called after RemoveHandler returned (Notify_show_remove.cfg).  Not repaired:   *)
(*                     a removal that waits for callbacks in flight dead-locks a handler that removes *)
(*                     itself from its own callback; recorded as open finding                         *)
(*                     NoCallAfterRemove/client:inflight.  (A dispatch that STARTS after the removal  *)
(*                     returned never calls the handler: the judge's :later class stays a violation.) *)
(*  StaleUnregister    RegisterTunnel(t) on an id already registered cancels the old tunnel, whose    *)
(*                     deferred UnregisterTunnel(t) then deletes the NEW entry: the tunnel-closed     *)
(*                     notification for t finds nothing and the new tunnel keeps running              *)
(*                     (Notify_show_unreg.cfg).  Repaired by patch X07-2: a registration is an entry  *)
(*                     of its own and the function RegisterTunnel returns removes only that entry.    *)
(*  PushReorder        every broadcast config push is written by its own goroutine: two pushes for    *)
(*                     one client can reach it newest-first, the client ends with the older           *)
(*                     configuration (Notify_show_reorder.cfg; seen on the real code in free-running   *)
(*                     scenes over the real memory broker).  Repaired by patch X07-3: the goroutines  *)
(*                     of one client take turns in arrival order.                                     *)
(* Observations outside the contract (not judged): the handshake's own push (pushConfigToClient) runs  *)
(* in a goroutine that may still be reading when the next NotifyClientUpdate writes - its ConfigSet    *)
(* can arrive after a newer one; it lists the mappings the client is the TARGET of as well, which      *)
(* NotifyClientUpdate omits.                                                                           *)
EXTENDS Naturals, Sequences, FiniteSets, TLC, Json

CONSTANTS Part,       \* "send" | "client" | "push"
          Devs,       \* subset of {"TunnelInBroadcast","SnapshotCall","StaleUnregister","PushReorder"}
          Emit,       \* print one behaviour per transition ...
          MinLen,     \* ... that is at least this long (shorter ones are prefixes of those)
          Eager,      \* generation: a sender whose lock is free takes it in the step of its look-up
          NS, MaxConn, MaxSend, MaxBcast,            \* send: senders, connections, unicasts, broadcasts
          NH, MaxNotif, MaxAdd, NG, Flags,           \* client: user handlers, notifications, Add calls, tunnel generations, notification flags
          NP, MaxPush, MaxMove, MaxChange            \* push: pushers, pushes, moves, changes

Clients == {"A", "B"}
Conns   == 1..MaxConn
Senders == 1..NS
Hs      == 1..NH
Gens    == 1..NG
TIDs    == {"t1", "t2"}
Nodes   == {1, 2}
Pushers == 1..NP
Origin  == 1

VARIABLES
  \* ---- send
  cown, ckind, creg, copen, idx, wlock, wire, nconn,
  spc, shold, sid, stgt, bset, bcnt, nsend, nbc, calls, srets,
  \* ---- client
  hs, remret, rpc, rsnap, ri, rn, nn, nrec, cbs, acks, nadd,
  tent, gtid, gst, gcan, lst, lcl, missed,
  \* ---- push
  at, ep, stored, ppc, ploc, pver, pid, q, pend, pwire, npush, nmove, nchg, pfail, pmoved,
  \* ---- ghost
  dev, hist

sendVars   == <<cown, ckind, creg, copen, idx, wlock, wire, nconn, spc, shold, sid, stgt, bset, bcnt, nsend, nbc, calls, srets>>
clientVars == <<hs, remret, rpc, rsnap, ri, rn, nn, nrec, cbs, acks, nadd, tent, gtid, gst, gcan, lst, lcl, missed>>
pushVars   == <<at, ep, stored, ppc, ploc, pver, pid, q, pend, pwire, npush, nmove, nchg, pfail, pmoved>>
vars == <<sendVars, clientVars, pushVars, dev, hist>>
view == <<sendVars, clientVars, pushVars, dev>>

Init ==
  /\ cown = [c \in Conns |-> "-"] /\ ckind = [c \in Conns |-> "none"] /\ creg = [c \in Conns |-> FALSE]
  /\ copen = [c \in Conns |-> FALSE] /\ idx = [x \in Clients |-> 0] /\ wlock = [c \in Conns |-> 0]
  /\ wire = [c \in Conns |-> <<>>] /\ nconn = 0
  /\ spc = [s \in Senders |-> "idle"] /\ shold = [s \in Senders |-> 0] /\ sid = [s \in Senders |-> 0]
  /\ stgt = [s \in Senders |-> "-"] /\ bset = [s \in Senders |-> {}] /\ bcnt = [s \in Senders |-> [ok |-> 0, fail |-> 0]]
  /\ nsend = 0 /\ nbc = 0 /\ calls = <<>> /\ srets = {}
  /\ hs = <<>> /\ remret = {} /\ rpc = "idle" /\ rsnap = <<>> /\ ri = 0 /\ rn = 0 /\ nn = 0 /\ nrec = <<>>
  /\ cbs = <<>> /\ acks = <<>> /\ nadd = 0
  /\ tent = [t \in TIDs |-> 0] /\ gtid = [g \in Gens |-> "-"] /\ gst = [g \in Gens |-> "none"] /\ gcan = [g \in Gens |-> FALSE]
  /\ lst = [t \in TIDs |-> "none"] /\ lcl = [t \in TIDs |-> 0] /\ missed = {}
  /\ at = 0 /\ ep = 0 /\ stored = 0 /\ ppc = [p \in Pushers |-> "idle"] /\ ploc = [p \in Pushers |-> 0]
  /\ pver = [p \in Pushers |-> 0] /\ pid = [p \in Pushers |-> 0]
  /\ q = [n \in Nodes |-> <<>>] /\ pend = [n \in Nodes |-> <<>>] /\ pwire = <<>> /\ npush = 0 /\ nmove = 0 /\ nchg = 0 /\ pfail = {} /\ pmoved = {}
  /\ dev = {} /\ hist = <<>>

\* ---- behaviour output ----------------------------------------------------------------------------
Log(rec) ==
  /\ hist' = (IF Emit THEN Append(hist, rec) ELSE hist)
  /\ ((Emit /\ Len(hist') >= MinLen) => PrintT("BEH " \o ToJson([part |-> Part, steps |-> hist'])))

RemoveAt(s, i) == [j \in 1..(Len(s) - 1) |-> IF j < i THEN s[j] ELSE s[j + 1]]
Rng(s) == {s[i] : i \in DOMAIN s}

\* ==================================================================================================
\* Part "send"
\* ==================================================================================================
Login(x, k) ==
  /\ nconn < MaxConn
  /\ LET c == nconn + 1
         old == idx[x] IN
     /\ nconn' = c
     /\ cown' = [cown EXCEPT ![c] = x] /\ ckind' = [ckind EXCEPT ![c] = k]
     /\ IF k = "ctl"
        THEN /\ creg' = [d \in Conns |-> IF d = c THEN TRUE ELSE IF d = old THEN FALSE ELSE creg[d]]
             /\ copen' = [d \in Conns |-> IF d = c THEN TRUE ELSE IF d = old THEN FALSE ELSE copen[d]]
             /\ idx' = [idx EXCEPT ![x] = c]
        ELSE /\ creg' = [creg EXCEPT ![c] = TRUE] /\ copen' = [copen EXCEPT ![c] = TRUE] /\ UNCHANGED idx
     /\ UNCHANGED <<wlock, wire, spc, shold, sid, stgt, bset, bcnt, nsend, nbc, calls, srets, dev>>
     /\ Log([a |-> "Login", x |-> x, c |-> c, k |-> k])

Drop(c) ==
  /\ c <= nconn /\ copen[c]
  /\ creg' = [creg EXCEPT ![c] = FALSE] /\ copen' = [copen EXCEPT ![c] = FALSE]
  /\ idx' = [x \in Clients |-> IF idx[x] = c THEN 0 ELSE idx[x]]
  /\ UNCHANGED <<cown, ckind, wlock, wire, nconn, spc, shold, sid, stgt, bset, bcnt, nsend, nbc, calls, srets, dev>>
  /\ Log([a |-> "Drop", c |-> c])

ToTunnel(c) ==
  /\ c <= nconn /\ ckind[c] = "tun" /\ creg[c]
  /\ creg' = [creg EXCEPT ![c] = FALSE]
  /\ UNCHANGED <<cown, ckind, copen, idx, wlock, wire, nconn, spc, shold, sid, stgt, bset, bcnt, nsend, nbc, calls, srets, dev>>
  /\ Log([a |-> "ToTunnel", c |-> c])

NewId == nsend + nbc + 1
SRet(id, r, ok, fail) == srets' = srets \cup {[id |-> id, r |-> r, ok |-> ok, fail |-> fail]}

SLookup(s, x) ==
  /\ spc[s] = "idle" /\ nsend < MaxSend
  /\ nsend' = nsend + 1
  /\ calls' = Append(calls, [tgt |-> x, s |-> s])
  /\ sid' = [sid EXCEPT ![s] = NewId] /\ stgt' = [stgt EXCEPT ![s] = x]
  /\ IF idx[x] = 0
     THEN /\ SRet(NewId, "offline", 0, 0) /\ UNCHANGED <<spc, shold>>
          /\ Log([a |-> "SLookup", p |-> s, x |-> x, n |-> NewId, r |-> "offline"])
     ELSE \* Eager (generation): nothing separates the look-up from the lock when the lock is free - the driver cannot either
          /\ IF Eager /\ wlock[idx[x]] = 0 /\ copen[idx[x]]
             THEN spc' = [spc EXCEPT ![s] = "writing"] /\ wlock' = [wlock EXCEPT ![idx[x]] = s]
             ELSE spc' = [spc EXCEPT ![s] = "looked"] /\ UNCHANGED wlock
          /\ shold' = [shold EXCEPT ![s] = idx[x]] /\ UNCHANGED srets
          /\ Log([a |-> "SLookup", p |-> s, x |-> x, n |-> NewId, c |-> idx[x]])
  /\ (idx[x] = 0 => UNCHANGED wlock)
  /\ UNCHANGED <<cown, ckind, creg, copen, idx, wire, nconn, bset, bcnt, nbc, dev>>

SBegin(s) ==
  /\ spc[s] = "looked"
  /\ LET c == shold[s] IN
     /\ wlock[c] = 0        \* acquireWriteLock takes the lock first and looks at the stream's state under it
     /\ IF ~copen[c]
        THEN /\ spc' = [spc EXCEPT ![s] = "idle"] /\ SRet(sid[s], "neterr", 0, 0) /\ UNCHANGED wlock
             /\ Log([a |-> "SBegin", p |-> s, c |-> c, n |-> sid[s], r |-> "neterr"])
        ELSE /\ wlock' = [wlock EXCEPT ![c] = s] /\ spc' = [spc EXCEPT ![s] = "writing"] /\ UNCHANGED srets
             /\ Log([a |-> "SBegin", p |-> s, c |-> c, n |-> sid[s]])
  /\ UNCHANGED <<cown, ckind, creg, copen, idx, wire, nconn, shold, sid, stgt, bset, bcnt, nsend, nbc, calls, dev>>

SEnd(s) ==
  /\ spc[s] = "writing"
  /\ LET c == shold[s] IN
     /\ wlock' = [wlock EXCEPT ![c] = 0] /\ spc' = [spc EXCEPT ![s] = "idle"]
     /\ IF copen[c]
        THEN /\ wire' = [wire EXCEPT ![c] = Append(@, sid[s])] /\ SRet(sid[s], "ok", 0, 0)
             /\ Log([a |-> "SEnd", p |-> s, c |-> c, n |-> sid[s], r |-> "ok"])
        ELSE /\ UNCHANGED wire /\ SRet(sid[s], "neterr", 0, 0)
             /\ Log([a |-> "SEnd", p |-> s, c |-> c, n |-> sid[s], r |-> "neterr"])
  /\ UNCHANGED <<cown, ckind, creg, copen, idx, nconn, shold, sid, stgt, bset, bcnt, nsend, nbc, calls, dev>>

Listed(c) == /\ c <= nconn /\ creg[c] /\ cown[c] # "-"
             /\ ("TunnelInBroadcast" \in Devs \/ idx[cown[c]] = c)

BSnap(s) ==
  /\ spc[s] = "idle" /\ nbc < MaxBcast
  /\ nbc' = nbc + 1
  /\ calls' = Append(calls, [tgt |-> "*", s |-> s])
  /\ sid' = [sid EXCEPT ![s] = NewId] /\ stgt' = [stgt EXCEPT ![s] = "*"]
  /\ bset' = [bset EXCEPT ![s] = {c \in Conns : Listed(c)}] /\ bcnt' = [bcnt EXCEPT ![s] = [ok |-> 0, fail |-> 0]]
  /\ spc' = [spc EXCEPT ![s] = "bcast"]
  /\ UNCHANGED <<cown, ckind, creg, copen, idx, wlock, wire, nconn, shold, nsend, srets, dev>>
  /\ Log([a |-> "BSnap", p |-> s, n |-> NewId])

\* one iteration of the loop: WritePacket on some connection of the snapshot.  A closed one fails at once (counted);
\* an open one is locked first (BBegin) and written under the lock (BEnd), exactly like a unicast
BBegin(s) ==
  /\ spc[s] = "bcast"
  /\ \E c \in bset[s] :
       /\ wlock[c] = 0
       /\ IF ~copen[c]
          THEN /\ bset' = [bset EXCEPT ![s] = @ \ {c}] /\ bcnt' = [bcnt EXCEPT ![s].fail = @ + 1]
               /\ UNCHANGED <<wlock, spc, shold>>
               /\ Log([a |-> "BBegin", p |-> s, n |-> sid[s], c |-> c, r |-> "neterr"])
          ELSE /\ wlock' = [wlock EXCEPT ![c] = s] /\ spc' = [spc EXCEPT ![s] = "bwriting"] /\ shold' = [shold EXCEPT ![s] = c]
               /\ UNCHANGED <<bset, bcnt>>
               /\ Log([a |-> "BBegin", p |-> s, n |-> sid[s], c |-> c])
  /\ UNCHANGED <<cown, ckind, creg, copen, idx, wire, nconn, sid, stgt, nsend, nbc, calls, srets, dev>>

BEnd(s) ==
  /\ spc[s] = "bwriting"
  /\ LET c == shold[s] IN
     /\ wlock' = [wlock EXCEPT ![c] = 0] /\ spc' = [spc EXCEPT ![s] = "bcast"] /\ bset' = [bset EXCEPT ![s] = @ \ {c}]
     /\ IF copen[c]
        THEN /\ wire' = [wire EXCEPT ![c] = Append(@, sid[s])] /\ bcnt' = [bcnt EXCEPT ![s].ok = @ + 1]
             /\ dev' = (IF ckind[c] = "tun" THEN dev \cup {"TunnelInBroadcast"} ELSE dev)
             /\ Log([a |-> "BEnd", p |-> s, n |-> sid[s], c |-> c, r |-> "ok"])
        ELSE /\ UNCHANGED <<wire, dev>> /\ bcnt' = [bcnt EXCEPT ![s].fail = @ + 1]
             /\ Log([a |-> "BEnd", p |-> s, n |-> sid[s], c |-> c, r |-> "neterr"])
  /\ UNCHANGED <<cown, ckind, creg, copen, idx, nconn, shold, sid, stgt, nsend, nbc, calls, srets>>

BDone(s) ==
  /\ spc[s] = "bcast" /\ bset[s] = {}
  /\ spc' = [spc EXCEPT ![s] = "idle"] /\ SRet(sid[s], "bcast", bcnt[s].ok, bcnt[s].fail)
  /\ UNCHANGED <<cown, ckind, creg, copen, idx, wlock, wire, nconn, shold, sid, stgt, bset, bcnt, nsend, nbc, calls, dev>>
  /\ Log([a |-> "BDone", p |-> s, n |-> sid[s]])

SenderStep(s) == SBegin(s) \/ SEnd(s) \/ BBegin(s) \/ BEnd(s) \/ BDone(s)
SendNext ==
  /\ \/ \E x \in Clients, k \in {"ctl", "tun"} : Login(x, k)
     \/ \E c \in Conns : Drop(c) \/ ToTunnel(c)
     \/ \E s \in Senders : SenderStep(s) \/ BSnap(s) \/ \E x \in Clients : SLookup(s, x)
  /\ UNCHANGED <<clientVars, pushVars>>

\* ---- properties (send)
Copies(id) == {<<c, i>> \in Conns \X (1..(MaxSend + MaxBcast)) : i \in DOMAIN wire[c] /\ wire[c][i] = id}
OnlyTarget == \A c \in Conns : \A i \in DOMAIN wire[c] :
                 /\ ckind[c] = "ctl"
                 /\ calls[wire[c][i]].tgt \in {"*", cown[c]}
OnlyTargetOrDev == OnlyTarget \/ "TunnelInBroadcast" \in dev
AtMostOnce == \A id \in DOMAIN calls :
                 /\ \A c \in Conns : Cardinality({i \in DOMAIN wire[c] : wire[c][i] = id}) <= 1
                 /\ calls[id].tgt # "*" => Cardinality(Copies(id)) <= 1
CleanFail == \A r \in srets : r.r # "bcast" => ((r.r = "ok") <=> Copies(r.id) # {})
Counted == \A r \in srets : r.r = "bcast" => r.ok = Cardinality(Copies(r.id))
LockOwned == \A c \in Conns : wlock[c] # 0 => (spc[wlock[c]] \in {"writing", "bwriting"} /\ shold[wlock[c]] = c)
SendReturns == \A s \in Senders : (spc[s] # "idle") ~> (spc[s] = "idle")

\* ==================================================================================================
\* Part "client"
\* ==================================================================================================
\* notification kinds: ty = sys | closed | error (fatal tunnel error), tid = tunnel named, ack, exp(ired), bad (payload)
NKinds == {[ty |-> ty, tid |-> t, ack |-> a, exp |-> e, bad |-> b] :
             ty \in {"sys", "closed", "error"}, t \in TIDs \cup {"tx"}, a \in BOOLEAN, e \in BOOLEAN, b \in BOOLEAN}
Allowed(k) == /\ (k.ty = "sys" => k.tid = "tx")
              /\ (k.exp => "exp" \in Flags) /\ (k.bad => "bad" \in Flags) /\ (k.ack => "ack" \in Flags)
              /\ (k.ty = "error" => "error" \in Flags) /\ (k.tid = "tx" /\ k.ty # "sys" => "unknown" \in Flags)
              /\ ~(k.exp /\ k.bad)

\* the latest generation registered under t that still runs (the tunnel a notification for t is about)
Latest(t) == {g \in Gens : gtid[g] = t /\ gst[g] = "run" /\ \A g2 \in Gens : (gtid[g2] = t /\ gst[g2] # "none") => g2 <= g}

\* effect of the two built-in handlers for a well-formed, unexpired notification k
TargetEffect(k) ==
  IF k.ty = "closed" /\ k.tid \in TIDs /\ tent[k.tid] # 0
  THEN /\ tent' = [tent EXCEPT ![k.tid] = 0] /\ gcan' = [gcan EXCEPT ![tent[k.tid]] = TRUE]
  ELSE UNCHANGED <<tent, gcan>>
ListenEffect(k) ==
  IF k.ty \in {"closed", "error"} /\ k.tid \in TIDs /\ lst[k.tid] = "open"
  THEN /\ lst' = [lst EXCEPT ![k.tid] = "closed"] /\ lcl' = [lcl EXCEPT ![k.tid] = @ + 1]
  ELSE UNCHANGED <<lst, lcl>>

\* position of the next handler of the copy to be called after position i (0 = none).  As found every entry of the
\* copy is called; repaired: an entry is called only while its handler is still registered (check and call atomic
\* with respect to RemoveHandler)
NextIdx(snap, i, cur) ==
  LET C == {j \in (i + 1)..Len(snap) : "SnapshotCall" \in Devs \/ snap[j] \in Rng(cur)} IN
  IF C = {} THEN 0 ELSE CHOOSE j \in C : \A j2 \in C : j <= j2

\* The reader is `calling` while it is INSIDE the callback of rsnap[ri] (user handlers: the driver parks it there);
\* entering a callback is what appends to cbs.
Arrive(k) ==
  /\ rpc = "idle" /\ nn < MaxNotif /\ Allowed(k)
  /\ nn' = nn + 1 /\ nrec' = Append(nrec, k)
  /\ IF k.exp \/ k.bad
     THEN \* expired: dropped before Dispatch; malformed payload: Dispatch calls nobody (the ack still goes out)
          /\ UNCHANGED <<rpc, rsnap, ri, rn, tent, gcan, lst, lcl, missed, cbs>>
          /\ acks' = (IF k.bad /\ k.ack THEN Append(acks, nn + 1) ELSE acks)
     ELSE /\ TargetEffect(k) /\ ListenEffect(k)
          /\ missed' = (IF k.ty = "closed" /\ k.tid \in TIDs
                        THEN missed \cup {g \in Latest(k.tid) : ~gcan'[g]} ELSE missed)
          /\ IF hs = <<>>
             THEN /\ UNCHANGED <<rpc, rsnap, ri, rn, cbs>> /\ acks' = (IF k.ack THEN Append(acks, nn + 1) ELSE acks)
             ELSE /\ rpc' = "calling" /\ rsnap' = hs /\ ri' = 1 /\ rn' = nn + 1 /\ UNCHANGED acks
                  /\ cbs' = Append(cbs, [n |-> nn + 1, h |-> hs[1]])
  /\ UNCHANGED <<hs, remret, nadd, gtid, gst, dev>>
  /\ Log([a |-> "Arrive", n |-> nn + 1, k |-> k.ty, t |-> k.tid, h |-> (IF k.exp \/ k.bad \/ hs = <<>> THEN 0 ELSE hs[1]),
          f |-> (IF k.ack THEN "a" ELSE "") \o (IF k.exp THEN "e" ELSE "") \o (IF k.bad THEN "b" ELSE "")])

\* the current callback returns; the next one is entered, or the dispatch ends (acknowledgement, back to the read)
Call ==
  /\ rpc = "calling"
  /\ LET j == NextIdx(rsnap, ri, hs) IN
     IF j = 0
     THEN /\ rpc' = "idle" /\ ri' = 0 /\ rsnap' = <<>> /\ rn' = 0
          /\ acks' = (IF nrec[rn].ack THEN Append(acks, rn) ELSE acks)
          /\ UNCHANGED <<cbs, dev>>
          /\ Log([a |-> "Call", n |-> rn, h |-> 0])
     ELSE /\ ri' = j /\ cbs' = Append(cbs, [n |-> rn, h |-> rsnap[j]])
          /\ dev' = (IF rsnap[j] \notin Rng(hs) THEN dev \cup {"SnapshotCall"} ELSE dev)
          /\ UNCHANGED <<rpc, rsnap, rn, acks>>
          /\ Log([a |-> "Call", n |-> rn, h |-> rsnap[j]])
  /\ UNCHANGED <<hs, remret, nn, nrec, nadd, tent, gtid, gst, gcan, lst, lcl, missed>>

Add(h) ==
  /\ h \notin Rng(hs) /\ nadd < MaxAdd
  /\ hs' = Append(hs, h) /\ nadd' = nadd + 1 /\ remret' = remret \ {h}
  /\ UNCHANGED <<rpc, rsnap, ri, rn, nn, nrec, cbs, acks, tent, gtid, gst, gcan, lst, lcl, missed, dev>>
  /\ Log([a |-> "Add", h |-> h])

Rem(h) ==
  /\ h \in Rng(hs)
  /\ hs' = SelectSeq(hs, LAMBDA y : y # h) /\ remret' = remret \cup {h}
  /\ UNCHANGED <<rpc, rsnap, ri, rn, nn, nrec, cbs, acks, nadd, tent, gtid, gst, gcan, lst, lcl, missed, dev>>
  /\ Log([a |-> "Rem", h |-> h])

TReg(g, t) ==
  /\ gst[g] = "none" /\ \A g2 \in Gens : g2 < g => gst[g2] # "none"
  /\ gst' = [gst EXCEPT ![g] = "run"] /\ gtid' = [gtid EXCEPT ![g] = t]
  /\ gcan' = (IF tent[t] # 0 THEN [gcan EXCEPT ![tent[t]] = TRUE] ELSE gcan)
  /\ tent' = [tent EXCEPT ![t] = g]
  /\ UNCHANGED <<hs, remret, rpc, rsnap, ri, rn, nn, nrec, cbs, acks, nadd, lst, lcl, missed, dev>>
  /\ Log([a |-> "TReg", g |-> g, t |-> t])

TExit(g) ==
  /\ gst[g] = "run"
  /\ LET t == gtid[g] IN
     /\ gst' = [gst EXCEPT ![g] = "done"] /\ gcan' = [gcan EXCEPT ![g] = TRUE]
     /\ IF "StaleUnregister" \in Devs
        THEN /\ tent' = [tent EXCEPT ![t] = 0]
             /\ dev' = (IF tent[t] \notin {0, g} THEN dev \cup {"StaleUnregister"} ELSE dev)
        ELSE /\ tent' = (IF tent[t] = g THEN [tent EXCEPT ![t] = 0] ELSE tent) /\ UNCHANGED dev
  /\ UNCHANGED <<hs, remret, rpc, rsnap, ri, rn, nn, nrec, cbs, acks, nadd, gtid, lst, lcl, missed>>
  /\ Log([a |-> "TExit", g |-> g, t |-> gtid[g]])

LOpen(t) ==
  /\ lst[t] = "none"
  /\ lst' = [lst EXCEPT ![t] = "open"]
  /\ UNCHANGED <<hs, remret, rpc, rsnap, ri, rn, nn, nrec, cbs, acks, nadd, tent, gtid, gst, gcan, lcl, missed, dev>>
  /\ Log([a |-> "LOpen", t |-> t])

LSelf(t) ==
  /\ lst[t] = "open"
  /\ lst' = [lst EXCEPT ![t] = "closed"] /\ lcl' = [lcl EXCEPT ![t] = @ + 1]
  /\ UNCHANGED <<hs, remret, rpc, rsnap, ri, rn, nn, nrec, cbs, acks, nadd, tent, gtid, gst, gcan, missed, dev>>
  /\ Log([a |-> "LSelf", t |-> t])

ClientNext ==
  /\ \/ \E k \in NKinds : Arrive(k)
     \/ Call
     \/ \E h \in Hs : Add(h) \/ Rem(h)
     \/ \E g \in Gens : TExit(g) \/ \E t \in TIDs : TReg(g, t)
     \/ ("listen" \in Flags /\ \E t \in TIDs : LOpen(t) \/ LSelf(t))
  /\ UNCHANGED <<sendVars, pushVars>>

\* ---- properties (client)
NoCallAfterRemove == "SnapshotCall" \notin dev
OncePerHandler == \A i, j \in DOMAIN cbs : (cbs[i] = cbs[j]) => i = j
AckExact == /\ \A i, j \in DOMAIN acks : acks[i] = acks[j] => i = j
            /\ \A i \in DOMAIN acks : nrec[acks[i]].ack /\ ~nrec[acks[i]].exp
            /\ \A n \in DOMAIN nrec : (nrec[n].ack /\ ~nrec[n].exp /\ (rpc = "idle" \/ rn # n)) => \E i \in DOMAIN acks : acks[i] = n
NoExpired == \A i \in DOMAIN cbs : ~nrec[cbs[i].n].exp /\ ~nrec[cbs[i].n].bad
EndsNamed == missed = {}
EndsNamedOrDev == missed = {} \/ "StaleUnregister" \in dev
\* a context is cancelled only by its own exit, a re-registration of its id, or a notification naming its id
OnlyNamed == \A g \in Gens : (gst[g] = "run" /\ gcan[g]) =>
                 \/ \E g2 \in Gens : g2 > g /\ gtid[g2] = gtid[g] /\ gst[g2] # "none"
                 \/ \E n \in DOMAIN nrec : nrec[n].ty = "closed" /\ nrec[n].tid = gtid[g] /\ ~nrec[n].exp /\ ~nrec[n].bad
CloseOnce == \A t \in TIDs : lcl[t] <= 1
Registered == \A t \in TIDs : tent[t] # 0 => (gtid[tent[t]] = t /\ gst[tent[t]] # "none")
ReaderFree == (rpc # "idle") ~> (rpc = "idle")

\* ==================================================================================================
\* Part "push"  (one client; `ep` numbers its control connections, `at` is the node holding the current one)
\* ==================================================================================================
Change ==
  /\ nchg < MaxChange /\ stored' = stored + 1 /\ nchg' = nchg + 1
  /\ UNCHANGED <<at, ep, ppc, ploc, pver, pid, q, pend, pwire, npush, nmove, pfail, pmoved, dev>>
  /\ Log([a |-> "Change", v |-> stored + 1])

Move(n) ==
  /\ nmove < MaxMove /\ n # at
  /\ at' = n /\ ep' = (IF n = 0 THEN ep ELSE ep + 1) /\ nmove' = nmove + 1
  \* every push still under way (a caller in it, a copy of its message in some queue or writer goroutine) may
  \* legitimately miss the client, reach it late or reach its old and its new connection
  /\ pmoved' = pmoved \cup {pid[p] : p \in {p2 \in Pushers : ppc[p2] # "idle"}}
                       \cup UNION {{q[m][i].id : i \in DOMAIN q[m]} \cup {pend[m][i].id : i \in DOMAIN pend[m]} : m \in Nodes}
  /\ UNCHANGED <<stored, ppc, ploc, pver, pid, q, pend, pwire, npush, nchg, pfail, dev>>
  /\ Log([a |-> "Move", c |-> (IF n = 0 THEN 0 ELSE ep + 1), v |-> n])

PLookup(p) ==
  /\ ppc[p] = "idle" /\ npush < MaxPush
  /\ npush' = npush + 1 /\ pid' = [pid EXCEPT ![p] = npush + 1]
  /\ ploc' = [ploc EXCEPT ![p] = IF at = Origin THEN ep ELSE 0]
  /\ ppc' = [ppc EXCEPT ![p] = "looked"]
  /\ pmoved' = (IF at = 0 THEN pmoved \cup {npush + 1} ELSE pmoved)
  /\ UNCHANGED <<at, ep, stored, pver, q, pend, pwire, nmove, nchg, pfail, dev>>
  /\ Log([a |-> "PLookup", p |-> p, n |-> npush + 1, c |-> (IF at = Origin THEN ep ELSE 0)])

PRead(p) ==
  /\ ppc[p] = "looked"
  /\ pver' = [pver EXCEPT ![p] = stored] /\ ppc' = [ppc EXCEPT ![p] = "read"]
  /\ UNCHANGED <<at, ep, stored, ploc, pid, q, pend, pwire, npush, nmove, nchg, pfail, pmoved, dev>>
  /\ Log([a |-> "PRead", p |-> p, n |-> pid[p], v |-> stored])

Live(e, n) == at = n /\ ep = e

PSend(p) ==
  /\ ppc[p] = "read"
  /\ ppc' = [ppc EXCEPT ![p] = "idle"]
  /\ IF ploc[p] # 0
     THEN /\ IF Live(ploc[p], Origin)
             THEN /\ pwire' = Append(pwire, [e |-> ploc[p], v |-> pver[p], id |-> pid[p]]) /\ UNCHANGED pfail
             ELSE /\ pfail' = pfail \cup {pid[p]} /\ UNCHANGED pwire
          /\ UNCHANGED q
          /\ Log([a |-> "PSend", p |-> p, n |-> pid[p], v |-> pver[p], r |-> "local"])
     ELSE /\ q' = [n \in Nodes |-> Append(q[n], [v |-> pver[p], id |-> pid[p]])] /\ UNCHANGED <<pwire, pfail>>
          /\ Log([a |-> "PSend", p |-> p, n |-> pid[p], v |-> pver[p], r |-> "cross"])
  /\ UNCHANGED <<at, ep, stored, ploc, pver, pid, pend, npush, nmove, nchg, pmoved, dev>>

Recv(n) ==
  /\ q[n] # <<>>
  /\ q' = [q EXCEPT ![n] = Tail(@)]
  /\ pend' = (IF at = n THEN [pend EXCEPT ![n] = Append(@, [e |-> ep, v |-> Head(q[n]).v, id |-> Head(q[n]).id])] ELSE pend)
  /\ UNCHANGED <<at, ep, stored, ppc, ploc, pver, pid, pwire, npush, nmove, nchg, pfail, pmoved, dev>>
  /\ Log([a |-> "Recv", v |-> n, n |-> Head(q[n]).id, r |-> (IF at = n THEN "spawn" ELSE "skip")])

XWrite(n, i) ==
  /\ i \in DOMAIN pend[n] /\ ("PushReorder" \in Devs \/ i = 1)
  /\ LET w == pend[n][i] IN
     /\ pend' = [pend EXCEPT ![n] = RemoveAt(@, i)]
     /\ IF Live(w.e, n)
        THEN /\ pwire' = Append(pwire, w) /\ UNCHANGED pfail
        ELSE /\ pfail' = pfail \cup {w.id} /\ UNCHANGED pwire
     /\ dev' = (IF i # 1 THEN dev \cup {"PushReorder"} ELSE dev)
     /\ Log([a |-> "XWrite", v |-> n, n |-> w.id])
  /\ UNCHANGED <<at, ep, stored, ppc, ploc, pver, pid, q, npush, nmove, nchg, pmoved>>

PusherStep(p) == PRead(p) \/ PSend(p)
PushNext ==
  /\ \/ Change \/ \E n \in Nodes \cup {0} : Move(n)
     \/ \E p \in Pushers : PLookup(p) \/ PusherStep(p)
     \/ \E n \in Nodes : Recv(n) \/ \E i \in 1..MaxPush : XWrite(n, i)
  /\ UNCHANGED <<sendVars, clientVars>>

\* ---- properties (push)
PushOnce == \A i, j \in DOMAIN pwire : (pwire[i].id = pwire[j].id /\ pwire[i].e = pwire[j].e) => i = j
\* one pusher = pushes issued one after the other: their versions reach a connection in order
\* (a push that was in flight while the client (re)connected is exempt: the broker path is asynchronous and the
\* handshake pushes the configuration itself)
PushOrder == NP = 1 => \A i, j \in DOMAIN pwire :
                (i < j /\ pwire[i].e = pwire[j].e /\ pwire[i].id \notin pmoved /\ pwire[j].id \notin pmoved) => pwire[i].id < pwire[j].id
PushOrderOrDev == PushOrder \/ "PushReorder" \in dev
\* nothing is written to a connection that is not the client's current one (ep only grows: an old epoch is a closed connection)
PushTarget == \A i \in DOMAIN pwire : pwire[i].e \in 1..ep
PushQuiet == (\A p \in Pushers : ppc[p] = "idle") /\ (\A n \in Nodes : q[n] = <<>> /\ pend[n] = <<>>)
\* a push made while the client stayed where it was is on the wire once everything is quiet
PushDelivered == PushQuiet => \A i \in 1..npush : i \in pmoved \/ \E j \in DOMAIN pwire : pwire[j].id = i
PushDrains == <>[]PushQuiet

\* ==================================================================================================
Next == \/ (Part = "send" /\ SendNext)
        \/ (Part = "client" /\ ClientNext)
        \/ (Part = "push" /\ PushNext)
Spec == Init /\ [][Next]_vars
\* fairness for the liveness properties: goroutines that are inside a call keep running (complete actions: the
\* other parts' variables stay put)
Fair == /\ \A s \in Senders : WF_vars(SenderStep(s) /\ UNCHANGED <<clientVars, pushVars>>)
        /\ WF_vars(Call /\ UNCHANGED <<sendVars, pushVars>>)
        /\ \A p \in Pushers : WF_vars(PusherStep(p) /\ UNCHANGED <<sendVars, clientVars>>)
        /\ \A n \in Nodes : /\ WF_vars(Recv(n) /\ UNCHANGED <<sendVars, clientVars>>)
                             /\ WF_vars((\E i \in 1..MaxPush : XWrite(n, i)) /\ UNCHANGED <<sendVars, clientVars>>)
LiveSpec == Spec /\ Fair
PushersReturn == \A p \in Pushers : (ppc[p] # "idle") ~> (ppc[p] = "idle")
NoDeviation == dev = {}
TypeOK == /\ nconn \in 0..MaxConn /\ \A s \in Senders : spc[s] \in {"idle", "looked", "writing", "bcast", "bwriting"}
          /\ rpc \in {"idle", "calling"} /\ at \in Nodes \cup {0}
          /\ \A p \in Pushers : ppc[p] \in {"idle", "looked", "read"}
=============================================================================
