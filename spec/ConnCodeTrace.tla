--------------------------- MODULE ConnCodeTrace ---------------------------
(* C06 judge (property level): one connection code per trace.  Alphabet:                      *)
(*   Code   [target, addr, host, port, proto, pre]                                            *)
(*                                     what the code fixed when it was generated (target      *)
(*                                     client id, target address; host / port / proto = the   *)
(*                                     driver's own reading of that address: where a mapping  *)
(*                                     for it forwards to) and the ids of mappings            *)
(*                                     that existed before (not created from this code)       *)
(*   Call   [p, op, client, node]      op = "Act" (ActivateConnectionCode by listen client    *)
(*                                     `client`) | "Rev" (RevokeConnectionCode); node = the    *)
(*                                     server node (own hybrid.Storage) the call goes through  *)
(*   Ret    [p, op, ok, id, listen, tclient, taddr, thost, tport, proto]                      *)
(*                                     the call returned; for a successful                    *)
(*                                     activation the fields of the mapping it returned       *)
(*   Expire []                         the activation TTL has elapsed (logged only once the   *)
(*                                     wall clock is past the deadline and the keys are gone) *)
(*   Tick   []                         time passed, less than the code's remaining lifetime    *)
(*   Fault  [at]                       a storage write was made to fail (at = step label)     *)
(*   Final  [maps, code]               quiescent store: every port-mapping record             *)
(*                                     [id, listen, tclient, taddr, thost, tport, proto] and  *)
(*                                     the code record                                        *)
(* Line order is the real-time order in which the driver observed the events (Call logged     *)
(* before the call starts, Ret after it returned), so "x returned before y was called" in     *)
(* the file implies the same in reality.                                                      *)
(*                                                                                            *)
(* Clauses (exactly the statement of C06):                                                    *)
(*   DoubleActivation     a second activation of the code succeeded (a success that hands the *)
(*                        SAME mapping back to the SAME listen client again - an idempotent   *)
(*                        answer to a repeated submit - is not a second turn of the code into *)
(*                        a mapping and is accepted); detail "xnode:..." when                 *)
(*                        the two successful calls went through different nodes,              *)
(*                        "sameclient:..." when both were submitted by the same listen client *)
(*   ActivatedInvalid     an activation succeeded although the code was expired / revoked     *)
(*                        during the WHOLE call (the expiry, or a successful revoke, had      *)
(*                        completed before the activation was called).  Every overlap is      *)
(*                        accepted either way: concurrent revoke / activate / expiry may      *)
(*                        linearize in any order.                                             *)
(*   TwoMappings          more than one mapping of successful activations in the final store  *)
(*   FailedLeavesMapping  the final store holds a mapping that no successful activation       *)
(*                        returned (a failed activation left it behind); detail = the         *)
(*                        environment events of the trace (expiry / which write failed)       *)
(*   WrongFields          a returned or stored mapping does not target the client and         *)
(*                        address fixed by the code (the address string, or the host / port / *)
(*                        protocol the mapping actually forwards to), or does not listen for  *)
(*                        its activator                                                       *)
EXTENDS VLib

VARIABLES code,     \* [target, addr, host, port, proto, pre]
          calls,    \* p -> [line, client, node]   (latest call of p)
          succ,     \* successful activations: set of [p, id, call, ret, client, node]
          revRet,   \* line at which the first successful revoke returned (0 = none)
          expLine,  \* line of the Expire event (0 = none)
          faults    \* labels of injected write failures, in order
vars == <<l, viol, code, calls, succ, revRet, expLine, faults>>

Code0 == [target |-> 0, addr |-> "", host |-> "", port |-> 0, proto |-> "", pre |-> {}]
Init == l = 1 /\ viol = {} /\ code = Code0 /\ calls = <<>> /\ succ = {} /\ revRet = 0 /\ expLine = 0 /\ faults = <<>>

Elems(s) == {s[i] : i \in 1..Len(s)}

TrCode == /\ Is("Code")
          /\ code' = [target |-> Ev.target, addr |-> Ev.addr, host |-> Ev.host, port |-> Ev.port, proto |-> Ev.proto, pre |-> Elems(Ev.pre)]
          /\ l' = l + 1 /\ UNCHANGED <<viol, calls, succ, revRet, expLine, faults>>

TrCall == /\ Is("Call")
          /\ calls' = [x \in DOMAIN calls \cup {Ev.p} |-> IF x = Ev.p THEN [line |-> l, client |-> Ev.client, node |-> Ev.node] ELSE calls[x]]
          /\ l' = l + 1 /\ UNCHANGED <<viol, code, succ, revRet, expLine, faults>>

ActViol(e, c) ==
     (IF succ # {} /\ ~(\E s \in succ : s.id = e.id /\ s.client = c.client) THEN {V("DoubleActivation", (IF \E s \in succ : s.node # c.node THEN "xnode:" ELSE "")
                                               \o (IF \E s \in succ : s.client = c.client THEN "sameclient:" ELSE "")
                                               \o (IF \E s \in succ : s.ret < c.line THEN "sequential" ELSE "concurrent"))} ELSE {})
  \cup (IF expLine # 0 /\ expLine < c.line THEN {V("ActivatedInvalid", "expired")} ELSE {})
  \cup (IF revRet # 0 /\ revRet < c.line THEN {V("ActivatedInvalid", "revoked")} ELSE {})
  \cup (IF e.listen # c.client THEN {V("WrongFields", "returned:listen")} ELSE {})
  \cup (IF e.tclient # code.target THEN {V("WrongFields", "returned:targetClient")} ELSE {})
  \cup (IF e.taddr # code.addr THEN {V("WrongFields", "returned:targetAddress")} ELSE {})
  \cup (IF e.thost # code.host THEN {V("WrongFields", "returned:targetHost")} ELSE {})
  \cup (IF e.tport # code.port THEN {V("WrongFields", "returned:targetPort")} ELSE {})
  \cup (IF e.proto # code.proto THEN {V("WrongFields", "returned:protocol")} ELSE {})

TrRet == /\ Is("Ret")
         /\ IF Ev.op = "Act" /\ Ev.ok
            THEN LET c == calls[Ev.p] IN
                 /\ viol' = viol \cup ActViol(Ev, c)
                 /\ succ' = succ \cup {[p |-> Ev.p, id |-> Ev.id, call |-> c.line, ret |-> l, client |-> c.client, node |-> c.node]}
                 /\ revRet' = revRet
            ELSE /\ viol' = viol /\ succ' = succ
                 /\ revRet' = IF Ev.op = "Rev" /\ Ev.ok /\ revRet = 0 THEN l ELSE revRet
         /\ l' = l + 1 /\ UNCHANGED <<code, calls, expLine, faults>>

TrExpire == /\ Is("Expire")
            /\ expLine' = IF expLine = 0 THEN l ELSE expLine
            /\ l' = l + 1 /\ UNCHANGED <<viol, code, calls, succ, revRet, faults>>

\* time passed, but less than the code can still be activated: changes nothing the property talks about
TrTick == /\ Is("Tick")
          /\ l' = l + 1 /\ UNCHANGED <<viol, code, calls, succ, revRet, expLine, faults>>

TrFault == /\ Is("Fault")
           /\ faults' = Append(faults, Ev.at)
           /\ l' = l + 1 /\ UNCHANGED <<viol, code, calls, succ, revRet, expLine>>

Ctx == (IF expLine # 0 THEN "expire+" ELSE "") \o (IF faults = <<>> THEN "nofault" ELSE "fault=" \o faults[1])

FinalViol(e) ==
  LET ms      == {m \in Elems(e.maps) : m.id \notin code.pre}
      ids     == {s.id : s \in succ}
      orphans == {m \in ms : m.id \notin ids}
      owned   == ms \ orphans
      owner(m) == CHOOSE s \in succ : s.id = m.id
  IN   (IF Cardinality(owned) > 1 THEN {V("TwoMappings", "bothSucceeded")} ELSE {})
  \cup (IF orphans # {} THEN {V("FailedLeavesMapping", Ctx)} ELSE {})
  \cup (IF \E m \in owned : m.listen # owner(m).client THEN {V("WrongFields", "stored:listen")} ELSE {})
  \cup (IF \E m \in ms : m.tclient # code.target THEN {V("WrongFields", "stored:targetClient")} ELSE {})
  \cup (IF \E m \in ms : m.taddr # code.addr THEN {V("WrongFields", "stored:targetAddress")} ELSE {})
  \cup (IF \E m \in ms : m.thost # code.host THEN {V("WrongFields", "stored:targetHost")} ELSE {})
  \cup (IF \E m \in ms : m.tport # code.port THEN {V("WrongFields", "stored:targetPort")} ELSE {})
  \cup (IF \E m \in ms : m.proto # code.proto THEN {V("WrongFields", "stored:protocol")} ELSE {})

TrFinal == /\ Is("Final")
           /\ viol' = viol \cup FinalViol(Ev)
           /\ l' = l + 1 /\ UNCHANGED <<code, calls, succ, revRet, expLine, faults>>

TrEnd == /\ Is("End") /\ EmitVerdict
         /\ l' = l + 1 /\ viol' = {} /\ code' = Code0 /\ calls' = <<>> /\ succ' = {} /\ revRet' = 0 /\ expLine' = 0 /\ faults' = <<>>

Next == TrCode \/ TrCall \/ TrRet \/ TrExpire \/ TrTick \/ TrFault \/ TrFinal \/ TrEnd
Spec == Init /\ [][Next]_vars
=============================================================================
