\* X06 demonstration, EXPECTED TO FAIL: every deviation repaired except RespTruncated
CONSTANTS
  Fix = {"ChunkedSmall", "Truncated", "MultiReq", "MultiResp", "RedirectFollowed", "ChunkedRaw", "StuckKeepAlive"}
  Emit = FALSE
SPECIFICATION Spec
INVARIANTS TypeOK SameRequest SameResponse
CHECK_DEADLOCK FALSE
