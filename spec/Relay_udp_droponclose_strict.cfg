\* (ii) UDP - the code as found before C12-3 (writeLoop abandons the queue on Close), NOT excused.
\* THIS RUN MUST FAIL with "Invariant UNoDrop is violated": datagrams accepted by Write never reach the wire.
CONSTANTS
  MaxSend = 1
  EofWithData = TRUE
  ShapesA <- LocalShapes
  ShapesB <- AllShapes
  DevDeadlineAt = "none"
  DevDeadlineHits = {"read"}
  Monitor = FALSE
  IdleMax = 2
  DevMonNoFeed = FALSE
  Reactive = FALSE
  DevNoSignalOnError = FALSE
  DevCloseWriterFallback = FALSE
  Emit = FALSE
  Classes = {1, 2, 3, 4}
  BatchSize = 32
  BatchBuf = 22
  High = 100
  MaxT = 2
  MaxU = 1
  TSeqs <- TAll
  USeqs <- UNone
  Cuts = "all"
  Chunks = {0}
  Paces = {"burst"}
  DevSpin = FALSE
  DevNoUnblock = FALSE
  DevAliasFlush = FALSE
  SockBatch = FALSE
  DevNoInnerFlush = FALSE
  SockQueue = TRUE
  DevQueueRefs = FALSE
  DevSockDeadline = FALSE
  DevDropOnClose = TRUE
SPECIFICATION USpec
INVARIANTS UTypeOK UDatagrams UComplete UCompleteAny UEncoded UFlushed UMutex UBuf UBatchFits UNoSpuriousEnd UNoDrop
PROPERTIES UDelivMonotone UEventuallyFlushed UTermination
CHECK_DEADLOCK FALSE
