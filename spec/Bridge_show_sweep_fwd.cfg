\* Documentation only (not run by the check): AS FOUND the target's tunnel connection that forwardToSourceNode
\* forwards to the source's node stays in the ClientRegistry, against NoSpontaneousEnd.  TLC reports:
\* Attach("fwd"), Hold - the sweeper closes the target leg's stream, the forwarded tunnel ends with both ends open.
CONSTANTS
  BUF = 3
  MaxSends = 0
  MaxSlow = 5
  Lims = {"none"}
  Classes = {"one"}
  Faults = TRUE
  Replace = FALSE
  ExtCloseOn = FALSE
  DevLimiter = FALSE
  DevNilFwd = FALSE
  DevStaleSrc = FALSE
  DevSleepLimiter = FALSE
  DevWriteLock = FALSE
  DevRouteFirst = FALSE
  DevCleanupFirst = FALSE
  RegLegs = {"F"}
  DevIdleSweep = FALSE
  DevFwdNoEof = FALSE
  SrcKinds = {"direct"}
  ErrClasses = {"plain"}
  PollOn = FALSE
  RetryOn = {}
  RetryWriteOn = {}
  DevBufio = FALSE
  AttachKinds = {"fwd"}
  HoldOn = TRUE
  Gen = FALSE
  Emit = FALSE
INIT Init
NEXT Next
VIEW view
INVARIANTS TypeOK NoSpontaneousEnd
CHECK_DEADLOCK FALSE
