------------------------------- MODULE Framing -------------------------------
(* C01 / C05 - implementation-shaped model of tunnox-core packet framing.                      *)
(*                                                                                              *)
(*   writer    stream.StreamProcessor.WritePacket      (stream_processor_write.go)              *)
(*   transport any io.Reader: each Read hands over 1..min(want, available) bytes (TCP segment,  *)
(*             WebSocket message with left-over buffering, QUIC/KCP frame) or - as              *)
(*             wsServerConn.Read does for an empty message - zero bytes and no error ("stall")  *)
(*   reader    stream.StreamProcessor.ReadPacket       (stream_processor_read.go), one action   *)
(*             per Read call: readPacketType, readPacketBodySize, readPacketBody, then the      *)
(*             post-processing step (encrypted? -> decompressData -> json.Unmarshal)            *)
(*   hostile   (Mode = "hostile", C05) instead of WritePacket an arbitrary peer lays one frame  *)
(*             of any type/flag class, declared-length class, truncation point, gzip class and  *)
(*             payload class on the wire; an allocation ledger adds the size of every           *)
(*             allocation site of the reader; decoded packets go to the session dispatcher.     *)
(*                                                                                              *)
(* Wire format: [type:1][len:4 BE][body:len]; a heartbeat is the type byte alone; 0x40 = gzip   *)
(* body, 0x80 = encrypted (rejected by the reader).  Bytes are abstract: a wire byte is         *)
(* [f, id, j] = field ("T","L","B"), the frame it belongs to, index inside the field.           *)
(*                                                                                              *)
(* Dev = behaviour of the code as found at tunnox-core adc0605 that the properties forbid; each *)
(* is a named branch that records itself in the ghost variable `devs`:                          *)
(*   "shortHeader"      type byte and length field are read with ONE Read call; fewer bytes     *)
(*                      than asked => ErrUnexpectedEOF                (readPacketType/BodySize) *)
(*   "emptyNoLen"       a non-heartbeat packet with an empty body is written as the type byte   *)
(*                      alone, but the reader always expects a length          (WritePacket)    *)
(*   "unboundedInflate" gzip output is copied without limit                   (decompressData)  *)
(* Dev = {} is the contract (and the code with patches C01-1, C01-2, C05-1 applied).            *)
(*                                                                                              *)
(* Message transport (Chunking = "msg"): the WebSocket wrappers wsServerConn / wsClientConn      *)
(* (websocket_conn.go).  One Read call is one critical section under readMu:                     *)
(*   if readBuf holds unread bytes: hand over min(len(p), unread) of them              (WsBuf)   *)
(*   else ReadMessage (NextMsg: the peer's next message, any size >= 0), copy min(len(p), m)     *)
(*        bytes to p and keep the rest of the message in readBuf                      (WsFresh)  *)
(* The wrapper state lives in aux: msg (message fetched by this Read, not yet copied), mpos      *)
(* (stream bytes taken off the socket as messages), readBuf = wire[base+1 .. base+blen] with     *)
(* read offset off (the code re-slices readBuf = readBuf[n:], which is off += n with off = 0      *)
(* whenever a new remainder is stored), ok (ghost: every chunk handed over so far continued the  *)
(* stream exactly where the reader was).  Named deviations of the wrapper (none is in the code   *)
(* at HEAD; each is a one-line slip in Read that only a multi-message history on ONE connection  *)
(* shows - see Framing_show_ws*.cfg):                                                            *)
(*   "wsStaleOffset"    the read offset is not reset when a new remainder is stored: the second  *)
(*                      remainder on a connection loses its first `off` bytes (or all of them)   *)
(*   "wsDropRemainder"  the part of a message that did not fit into p is not kept                *)
(*   "wsKeepWhole"      the whole message is kept, not only the part not yet handed over         *)
(*   "wsEmptyIsEof"     an empty message ends the stream (io.EOF) instead of being an empty read *)
EXTENDS Naturals, Sequences, FiniteSets, TLC, Json

CONSTANTS Mode,      \* "honest" (C01) | "hostile" (C05)
          MaxPkts,   \* honest: packets per behaviour
          MaxLen,    \* honest: abstract body lengths 0..MaxLen
          BodyClasses, \* honest: body content classes of payload packets ({"any"}: the driver picks one, seeded;
                     \* else e.g. "zeros", "random", "gzmagic", "gzstream", "hdrlike" - content that must come back
                     \* identical with compression on or off: the contract never looks inside a body)
          Flags,     \* honest: flag bits the CALLER presets in PacketType and the writer frames as they are:
                     \* "none" | "enc" (0x80 Encrypted: the reader must reject the packet - after consuming it) |
                     \* "zpre" (0x40 Compressed although WritePacket is called without compression: the body is
                     \* raw, the reader's gunzip fails or - statement silent - yields something else)
          MaxFrames, \* hostile: frames per stream (1: one frame of every class; >1: streams over StreamFrames)
          Threads,   \* hostile: reader goroutines that may make a ReadPacket call (the read loop migrates between
                     \* OS threads / Ps between two calls; per-P state such as sync.Pool caches differs per thread)
          MaxStall,  \* empty reads the transport may inject per behaviour
          Chunking,  \* "all": every n in 1..min(want, avail) | "max": always min(want, avail) |
                     \* "msg": a MESSAGE transport (wsServerConn / wsClientConn): the peer cuts the stream into messages
                     \* of its own choosing; a Read gets min(want, rest of the current message) and the wrapper keeps
                     \* the rest (readBuf) for the following Reads - any number of times per connection; empty messages count as stalls
          Dev,       \* see above
          Emit       \* TRUE: keep history and print behaviours ("BEH ...")

ASSUME Mode \in {"honest", "hostile"} /\ Chunking \in {"all", "max", "msg"}
WsDevs == {"wsStaleOffset", "wsDropRemainder", "wsKeepWhole", "wsEmptyIsEof"}
ASSUME Dev \subseteq {"shortHeader", "emptyNoLen", "unboundedInflate"} \cup WsDevs

VARIABLES sent,     \* frames handed to the writer, in order (ghost: what was written)
          wire,     \* abstract byte stream produced so far
          open,     \* writer may still write (the reader starts when the stream is complete)
          pos,      \* bytes consumed by the reader
          rd,       \* reader control state [ph, id, got, need, bad, start]
          decoded,  \* packets returned by ReadPacket so far: [id, n] (n = its byte count)
          alloc,    \* allocation ledger of the current ReadPacket call, unit = MaxPacketBodySize
          stalls,   \* empty reads injected so far
          devs,     \* deviations taken so far (ghost)
          outs,     \* outcomes so far: "Packet" | "Error" | "Reply" | "Eof"
          aux,      \* [thr |-> reader thread of the current ReadPacket call,
                    \*  retain |-> requests the dispatcher has registered and not yet released,
                    \*  msg, mpos, base, blen, off, ok |-> (Chunking = "msg") the WebSocket wrapper, see above]
          hist      \* history of transport decisions (only when Emit)
vars == <<sent, wire, open, pos, rd, decoded, alloc, stalls, devs, outs, aux, hist>>

Min(a, b) == IF a < b THEN a ELSE b
Bound == 6          \* C05: 6 * MaxPacketBodySize (+ 1 MiB constant slack, see FramingTrace)

(* ---------------------------------- frames ------------------------------------------------ *)
\* k    kind class: HB heartbeat, CMD JsonCommand, RESP CommandResp, HS Handshake,
\*      TOPEN TunnelOpen, PAY any other payload type, UNK unassigned type code
\* z, e compressed / encrypted flag bits
\* hdr  number of length-field bytes on the wire (4 = complete)
\* sc   declared size class: "0", "S" small, "MAX" = limit, "OVER" = limit+1, "U32" = 2^32-1
\* nb   declared body length in abstract bytes;  av = body bytes really on the wire
\* gz   (z only) "ok" output about input size, "big" small input inflating to just below the
\*      limit, "bomb" inflating beyond the limit, "forged" the same with a forged small ISIZE
\*      trailer, "multi" a member inflating beyond the limit followed by a tiny member,
\*      "corrupt" bad header, "trunc" truncated member
\* pay  content class: "empty", "bad" (not JSON), "wrong" (JSON of another shape), "good", "huge",
\*      and the JSON edge forms "null" (null, also inside white space), "scalar" (true, 0, "str"),
\*      "emptyobj" ({}), "array" ([], [{}]), "nested" (nesting deeper than any decoder allows),
\*      "dupkeys" (duplicate members), "bignum" (numbers outside every Go type), "badutf8",
\*      "short" (bodies of 1..5 bytes that are prefixes of multi-byte markers: BOMs, truncated
\*      UTF-8 sequences, gzip magic, JSON openers, 00, FF - enumerated concretely by the driver)
U(sc) == IF sc = "MAX" THEN 1 ELSE 0
Bombs == {"bomb", "forged", "multi"}          \* gzip bodies whose output exceeds the limit
Edge  == {"null", "scalar", "emptyobj", "array", "nested", "dupkeys", "bignum", "badutf8", "short"}
\* json.Unmarshal into packet.CommandPacket fails for these (the reader decodes command kinds itself)
NotACommand == {"empty", "bad", "wrong", "scalar", "array", "nested", "bignum", "short"}
OutU(fr) == IF ~fr.z THEN U(fr.sc)
            ELSE CASE fr.gz = "big" -> 1 [] fr.gz \in Bombs -> 10 [] OTHER -> U(fr.sc)

\* what WritePacket lays on the wire for packet [k, z, len]
WriterFrame(k, z, len, c, fl) ==
  LET noLen == k # "HB" /\ len = 0 /\ "emptyNoLen" \in Dev
      wl    == IF k = "HB" \/ noLen THEN 0 ELSE len + (IF z THEN 1 ELSE 0)   \* gzip adds a header (only when really compressing)
  IN [k |-> k, z |-> z \/ fl = "zpre", e |-> fl = "enc", uz |-> z, fl |-> fl, len |-> len, c |-> c,
      hdr |-> IF k = "HB" \/ noLen THEN 0 ELSE 4,
      sc |-> IF wl = 0 THEN "0" ELSE "S", nb |-> wl, av |-> wl,
      gz |-> IF z THEN "ok" ELSE "na", pay |-> IF len = 0 THEN "empty" ELSE "good"]

FlagsFor(k, z) == IF k = "HB" \/ z THEN Flags \ {"zpre"} ELSE Flags
HonestPkts == { p \in      [k : {"HB"}, z : BOOLEAN, len : {0}, c : {"none"}, fl : Flags]
                      \cup [k : {"CMD"}, z : BOOLEAN, len : 0..MaxLen, c : {"text"}, fl : Flags]
                      \cup [k : {"PAY"}, z : BOOLEAN, len : {0}, c : {"none"}, fl : Flags]
                      \cup [k : {"PAY"}, z : BOOLEAN, len : 1..MaxLen, c : BodyClasses, fl : Flags] :
                p.fl \in FlagsFor(p.k, p.z) }

Kinds == {"HB", "CMD", "RESP", "HS", "TOPEN", "PAY", "UNK"}
F(k, z, e, hdr, sc, av, gz, pay) ==
  [k |-> k, z |-> z, e |-> e, uz |-> z, fl |-> "none", len |-> 0, c |-> "none", sub |-> "any", hdr |-> hdr, sc |-> sc, nb |-> IF sc = "0" THEN 0 ELSE 2,
   av |-> av, gz |-> gz, pay |-> pay]
NonHB == Kinds \ {"HB"}
\* content of a complete body: (gzip class, payload class) pairs that make sense for a size class
Contents(z, sc) ==
  IF ~z THEN {<<"na", p>> : p \in (IF sc = "MAX" THEN {"bad", "wrong", "good", "huge"} ELSE {"bad", "wrong", "good"} \cup Edge)}
  ELSE {<<"ok", p>> : p \in (IF sc = "MAX" THEN {"bad", "wrong", "good", "huge"} ELSE {"empty", "bad", "wrong", "good"} \cup Edge)}
       \cup {<<g, "bad">> : g \in Bombs \cup {"corrupt", "trunc"}}
       \cup (IF sc = "S" THEN {<<"big", "bad">>, <<"big", "huge">>} ELSE {})
HostileFrames ==
       {F("HB", z, e, 0, "0", 0, "na", "empty") : z \in BOOLEAN, e \in BOOLEAN}   \* nothing after a heartbeat type is looked at
  \cup {F(k, z, e, hdr, "0", 0, "na", "empty") : k \in NonHB, z \in BOOLEAN, e \in BOOLEAN, hdr \in 0..4}  \* cut before/inside the length; empty body
  \cup {F(k, z, e, 4, sc, av, "na", "bad") : k \in NonHB, z \in BOOLEAN, e \in BOOLEAN, sc \in {"OVER", "U32"}, av \in 0..1}  \* oversize declaration
  \cup {F(k, z, e, 4, sc, av, "na", "bad") : k \in NonHB, z \in BOOLEAN, e \in BOOLEAN, sc \in {"S", "MAX"}, av \in 0..1}     \* truncated body
  \cup UNION {{F(k, z, e, 4, sc, 2, c[1], c[2]) : c \in Contents(z, sc)} : k \in NonHB, z \in BOOLEAN, e \in BOOLEAN, sc \in {"S", "MAX"}}

\* streams (MaxFrames > 1): complete small frames whose body length is "tiny" (tens of bytes) or "mid"
\* (2-4 KiB: the same buffer-pool bucket as tiny, but longer than any tiny buffer), and heartbeats; what one
\* call leaves behind (pooled buffers, locks, registered requests) meets the next call - on any thread
StreamContents(z) == IF z THEN {<<"ok", "good">>, <<"corrupt", "bad">>} ELSE {<<"na", "good">>, <<"na", "bad">>}
StreamFrames ==
       {F("HB", z, FALSE, 0, "0", 0, "na", "empty") : z \in BOOLEAN}
  \cup UNION {{[F(k, z, e, 4, "S", 2, c[1], c[2]) EXCEPT !.sub = sb] : c \in StreamContents(z)} :
                k \in {"CMD", "HS", "PAY"}, z \in BOOLEAN, e \in BOOLEAN, sb \in {"tiny", "mid"}}

Encode(fr, id) == <<[f |-> "T", id |-> id, j |-> 0]>>
                  \o [j \in 1..fr.hdr |-> [f |-> "L", id |-> id, j |-> j]]
                  \o [j \in 1..fr.av  |-> [f |-> "B", id |-> id, j |-> j]]
EncSize(fr) == 1 + fr.hdr + fr.av

(* ---------------------------------- plumbing ---------------------------------------------- *)
Idle == [ph |-> "Type", id |-> 0, got |-> 0, need |-> 0, bad |-> FALSE, start |-> 0]

Init == /\ sent = <<>> /\ wire = <<>> /\ open = TRUE /\ pos = 0 /\ rd = Idle
        /\ decoded = <<>> /\ alloc = 0 /\ stalls = 0 /\ devs = {} /\ outs = <<>> /\ hist = <<>>
        /\ aux = [thr |-> 0, retain |-> 0, msg |-> 0, mpos |-> 0, base |-> 0, blen |-> 0, off |-> 0, ok |-> TRUE]

H(x) == IF Emit THEN Append(hist, x) ELSE hist
Out(x) == IF Emit THEN PrintT("BEH " \o ToJson(x)) ELSE TRUE

\* ---- transport: what the next Read hands to the reader ----
\* pos = number of bytes the reader has received so far.  A stream transport hands over wire[pos+1 ..]; the
\* message transport hands over what its wrapper holds: unread readBuf bytes first, else the head of the message
\* this Read has just fetched.
BufLeft == IF aux.off < aux.blen THEN aux.blen - aux.off ELSE 0          \* unread bytes in readBuf
Avail == IF Chunking = "msg" THEN BufLeft + (Len(wire) - aux.mpos) ELSE Len(wire) - pos
From  == IF Chunking = "msg" THEN (IF BufLeft > 0 THEN aux.base + aux.off ELSE aux.mpos) ELSE pos
In(i) == wire[From + i]                                                  \* i-th byte of the next chunk
Ns(want) == CASE Chunking = "max" -> {Min(want, Avail)}
              [] Chunking = "msg" -> IF BufLeft > 0 THEN {Min(want, BufLeft)}
                                     ELSE IF aux.msg > 0 THEN {Min(want, aux.msg)} ELSE {}   \* NextMsg first
              [] OTHER -> 1..Min(want, Avail)
\* wrapper deviation that takes effect in a Read handing over n bytes (ghost, for devs)
WsTaken(n) ==
  IF Chunking # "msg" \/ BufLeft > 0 \/ n = aux.msg THEN {}
  ELSE CASE "wsDropRemainder" \in Dev -> {"wsDropRemainder"}
         [] "wsKeepWhole" \in Dev -> {"wsKeepWhole"}
         [] "wsStaleOffset" \in Dev /\ aux.off > 0 -> {"wsStaleOffset"}
         [] OTHER -> {}
\* an exhausted readBuf is the empty slice again (the stale offset, if that deviation is on, survives)
Norm(a) == IF a.off < a.blen THEN a
           ELSE [a EXCEPT !.base = 0, !.blen = 0, !.off = IF "wsStaleOffset" \in Dev THEN a.off ELSE 0]
\* aux after this Read handed over n bytes: WsBuf (from readBuf) or WsFresh (from the fetched message, rest kept)
AX(n) ==
  IF Chunking # "msg" THEN aux
  ELSE LET okn == aux.ok /\ From = pos IN
       IF BufLeft > 0 THEN Norm([aux EXCEPT !.off = @ + n, !.ok = okn])
       ELSE LET m  == aux.msg
                a1 == [aux EXCEPT !.msg = 0, !.mpos = @ + m, !.ok = okn]
            IN IF n = m THEN a1
               ELSE CASE "wsDropRemainder" \in Dev -> a1
                      [] "wsKeepWhole"     \in Dev -> [a1 EXCEPT !.base = aux.mpos, !.blen = m, !.off = 0]
                      [] "wsStaleOffset"   \in Dev -> Norm([a1 EXCEPT !.base = aux.mpos + n, !.blen = m - n])
                      [] OTHER -> [a1 EXCEPT !.base = aux.mpos + n, !.blen = m - n, !.off = 0]
\* ReadMessage inside a Read that found readBuf empty: the peer's next message (m bytes of the stream)
NextMsg(m) ==
  /\ Chunking = "msg" /\ ~open /\ rd.ph \in {"Type", "Len", "Body"} /\ BufLeft = 0 /\ aux.msg = 0
  /\ m \in 1..(Len(wire) - aux.mpos)
  /\ aux' = [aux EXCEPT !.msg = m] /\ hist' = H([f |-> "M", n |-> m])
  /\ UNCHANGED <<sent, wire, open, pos, rd, decoded, alloc, stalls, devs, outs>>
\* the next n bytes handed over are exactly bytes j0+1..j0+n of field f of frame id
Expected(n, f, id, j0) == \A i \in 1..n : LET b == In(i) IN b.f = f /\ b.id = id /\ b.j = j0 + i

Pk(fr) == [k |-> fr.k, z |-> fr.uz, len |-> fr.len, c |-> fr.c, fl |-> fr.fl]

(* ---------------------------------- writer ------------------------------------------------ *)
Write(p) ==
  /\ Mode = "honest" /\ open /\ Len(sent) < MaxPkts
  /\ LET fr == WriterFrame(p.k, p.z, p.len, p.c, p.fl) IN
     /\ sent' = Append(sent, fr)
     /\ wire' = wire \o Encode(fr, Len(sent) + 1)
     /\ devs' = IF p.k # "HB" /\ fr.hdr = 0 THEN devs \cup {"emptyNoLen"} ELSE devs
  /\ hist' = hist
  /\ UNCHANGED <<open, pos, rd, decoded, alloc, stalls, outs, aux>>

HostileWrite(fr) ==
  /\ Mode = "hostile" /\ open /\ Len(sent) < MaxFrames
  /\ sent' = Append(sent, fr) /\ wire' = wire \o Encode(fr, Len(sent) + 1)
  /\ open' = (MaxFrames > 1)                    \* a stream is ended by HostileClose
  /\ UNCHANGED <<pos, rd, decoded, alloc, stalls, devs, outs, aux, hist>>
HostileClose == /\ Mode = "hostile" /\ open /\ sent # <<>> /\ open' = FALSE
                /\ UNCHANGED <<sent, wire, pos, rd, decoded, alloc, stalls, devs, outs, aux, hist>>

CloseStream == /\ Mode = "honest" /\ open /\ sent # <<>> /\ open' = FALSE
               /\ UNCHANGED <<sent, wire, pos, rd, decoded, alloc, stalls, devs, outs, aux, hist>>

(* ---------------------------------- reader ------------------------------------------------ *)
UpdA(r, p, d, a, dv, o, h, ax) ==
  /\ rd' = r /\ pos' = p /\ decoded' = d /\ alloc' = a /\ devs' = dv /\ outs' = o /\ hist' = h /\ aux' = ax
  /\ UNCHANGED <<sent, wire, open, stalls>>
Upd(r, p, d, a, dv, o, h) == UpdA(r, p, d, a, dv, o, h, aux)

Fail(p, dv, h) == Upd([rd EXCEPT !.ph = "Err"], p, decoded, alloc, dv, Append(outs, "Error"), h)
FailA(p, dv, h, ax) == UpdA([rd EXCEPT !.ph = "Err"], p, decoded, alloc, dv, Append(outs, "Error"), h, ax)
EmitRead(exp) == (Mode = "hostile" /\ MaxFrames = 1) => Out([frame |-> sent[1], exp |-> exp])
\* in hostile mode an error that comes after the packet has been consumed completely (encrypted flag, gunzip,
\* JSON) is an outcome of THAT call: the stream is still aligned and a caller that reads on must be served
Consumed(a, dv) == Upd(Idle, pos, decoded, a, dv, Append(outs, "Error"), hist)

\* ReadPacket returns a packet for frame id (n bytes), or garbage if the reader had lost alignment
Deliver(id, p, a, h) ==
  /\ Upd(Idle, p, Append(decoded, [id |-> id, n |-> p - rd.start, rej |-> FALSE]), a, devs, Append(outs, "Packet"), h)
  /\ EmitRead("Packet")

\* readPacketType: one Read of a 1-byte buffer
ReadType ==
  /\ ~open /\ rd.ph = "Type" /\ Avail > 0 /\ (Chunking = "msg" => BufLeft > 0 \/ aux.msg > 0)
  /\ \E t \in (IF Mode = "hostile" THEN Threads ELSE {0}) :      \* the call is made by reader thread t
     LET b  == In(1)
         h  == IF Mode = "hostile" THEN H([thr |-> t]) ELSE H([f |-> "T", n |-> 1])
         ax == [AX(1) EXCEPT !.thr = t]
         dv == devs \cup WsTaken(1) IN
     IF b.f # "T"
     THEN FailA(pos + 1, dv, h, ax)                    \* misaligned: a body/length byte read as a type
     ELSE IF sent[b.id].k = "HB"
     THEN /\ UpdA(IF Mode = "hostile" THEN [Idle EXCEPT !.ph = "Dispatch", !.id = b.id] ELSE Idle, pos + 1,
                  Append(decoded, [id |-> b.id, n |-> 1, rej |-> FALSE]), 0, dv, Append(outs, "Packet"), h, ax)
          /\ EmitRead("Packet")
     ELSE UpdA([ph |-> "Len", id |-> b.id, got |-> 0, need |-> 4, bad |-> FALSE, start |-> pos],
               pos + 1, decoded, 0, dv, outs, h, ax)

\* end of stream exactly on a packet boundary: io.EOF, the read loop ends
ReadEof ==
  /\ ~open /\ rd.ph = "Type" /\ Avail = 0
  /\ Upd([rd EXCEPT !.ph = "Eof"], pos, decoded, alloc, devs, Append(outs, "Eof"), hist)
  /\ (Mode = "honest" => Out([pkts |-> [i \in 1..Len(sent) |-> Pk(sent[i])], reads |-> hist]))
  /\ ((Mode = "hostile" /\ MaxFrames > 1) => Out([frames |-> sent, calls |-> hist]))

\* after the length field is complete: readPacketBody's limit check and pool allocation
AfterLen(p, bad, h, ax, dv) ==
  LET fr == sent[rd.id] IN
  IF bad THEN FailA(p, dv, h, ax)                               \* garbage length (over-approximated: error)
  ELSE IF fr.sc \in {"OVER", "U32"} THEN Fail(p, dv, h) /\ EmitRead("Error")   \* rejected before any allocation
  ELSE IF fr.nb = 0
  THEN UpdA([rd EXCEPT !.ph = "Post", !.got = 0, !.need = 0], p, decoded, alloc, dv, outs, h, ax)
  ELSE UpdA([rd EXCEPT !.ph = "Body", !.got = 0, !.need = fr.nb], p, decoded, alloc + U(fr.sc), dv, outs, h, ax)

\* readPacketBodySize
ReadLen(n) ==
  /\ ~open /\ rd.ph = "Len" /\ Avail > 0 /\ n \in Ns(4 - rd.got)
  /\ LET bad == rd.bad \/ ~Expected(n, "L", rd.id, rd.got)
         h   == H([f |-> "L", n |-> n])
         dv  == devs \cup WsTaken(n) IN
     IF rd.got + n = 4 THEN AfterLen(pos + n, bad, h, AX(n), dv)
     ELSE IF "shortHeader" \in Dev
     THEN Fail(pos + n, dv \cup {"shortHeader"}, h) /\ EmitRead("Error")     \* single Read: short => ErrUnexpectedEOF
     ELSE UpdA([rd EXCEPT !.got = rd.got + n, !.bad = bad], pos + n, decoded, alloc, dv, outs, h, AX(n))

\* readPacketBody: loops until the declared length is there
ReadBody(n) ==
  /\ ~open /\ rd.ph = "Body" /\ Avail > 0 /\ n \in Ns(rd.need - rd.got)
  /\ LET bad == rd.bad \/ ~Expected(n, "B", rd.id, rd.got)
         h   == H([f |-> "B", n |-> n])
         dv  == devs \cup WsTaken(n) IN
     IF rd.got + n = rd.need
     THEN UpdA([rd EXCEPT !.ph = "Post", !.got = rd.need, !.bad = bad], pos + n, decoded,
               alloc + U(sent[rd.id].sc), dv, outs, h, AX(n))                       \* copy out of the pool buffer
     ELSE UpdA([rd EXCEPT !.got = rd.got + n, !.bad = bad], pos + n, decoded, alloc, dv, outs, h, AX(n))

\* the stream ends inside a packet
ReadTrunc ==
  /\ ~open /\ rd.ph \in {"Len", "Body"} /\ Avail = 0
  /\ Fail(pos, devs, hist) /\ EmitRead("Error")

\* a Read that returns (0, nil); on the message transport: ReadMessage delivered an EMPTY message (only a Read
\* that found readBuf empty gets there)
Stall ==
  /\ ~open /\ rd.ph \in {"Type", "Len", "Body"} /\ Avail > 0 /\ stalls < MaxStall
  /\ (Chunking = "msg" => BufLeft = 0 /\ aux.msg = 0)
  /\ stalls' = stalls + 1
  /\ LET h == IF Chunking = "msg" THEN H([f |-> "M", n |-> 0])
              ELSE H([f |-> (CASE rd.ph = "Type" -> "T" [] rd.ph = "Len" -> "L" [] OTHER -> "B"), n |-> 0]) IN
     IF rd.ph \in {"Type", "Len"} /\ "shortHeader" \in Dev
     THEN /\ rd' = [rd EXCEPT !.ph = "Err"] /\ devs' = devs \cup {"shortHeader"}
          /\ outs' = Append(outs, "Error") /\ hist' = h /\ EmitRead("Error")
     ELSE IF Chunking = "msg" /\ "wsEmptyIsEof" \in Dev
     THEN /\ rd' = [rd EXCEPT !.ph = "Err"] /\ devs' = devs \cup {"wsEmptyIsEof"}     \* io.EOF in the middle of the stream
          /\ outs' = Append(outs, "Error") /\ hist' = h
     ELSE /\ hist' = h /\ UNCHANGED <<rd, devs, outs>>
  /\ UNCHANGED <<sent, wire, open, pos, decoded, alloc, aux>>

\* after the body: encrypted? -> decompressData -> json.Unmarshal for command kinds
\* inflate ledger: bytes.Buffer pre-allocated min(3*len, MAX), then doubling while output arrives
Inflate(fr, capped) ==
  LET out == OutU(fr) IN
  IF fr.gz \in {"corrupt"} THEN U(fr.sc)
  ELSE IF out = 0 THEN U(fr.sc)
  ELSE IF capped \/ out <= 1 THEN (IF U(fr.sc) = 1 THEN 3 ELSE 4)   \* output (cut) at MAX+1: < 4 units in total
  ELSE 2 * out                                                      \* unbounded doubling
\* ReadPacket returns an error for a completely consumed packet; the next call starts at the next packet
Reject(a, dv) == Upd(Idle, pos, Append(decoded, [id |-> rd.id, n |-> pos - rd.start, rej |-> TRUE]), a, dv,
                     Append(outs, "Rejected"), hist)
Post ==
  /\ ~open /\ rd.ph = "Post"
  /\ LET fr == sent[rd.id] IN
     IF rd.bad THEN Deliver(0, pos, alloc, hist)                    \* misaligned garbage handed out as a packet
     ELSE IF fr.e THEN (IF Mode = "honest" THEN Reject(alloc, devs)      \* encryption not supported here: an error for
                        ELSE Consumed(alloc, devs) /\ EmitRead("Error"))  \* THIS packet, all of its bytes consumed
     ELSE LET capped == "unboundedInflate" \notin Dev
              a1   == IF fr.z THEN alloc + Inflate(fr, capped) ELSE alloc
              zerr == fr.z /\ (fr.gz \in {"corrupt", "trunc", "na"} \/ fr.nb = 0 \/ (fr.gz \in Bombs /\ capped))
              dv   == IF fr.z /\ fr.gz \in Bombs /\ ~capped THEN devs \cup {"unboundedInflate"} ELSE devs
              a2   == IF fr.k \in {"CMD", "RESP"} /\ ~zerr THEN a1 + OutU(fr) ELSE a1   \* json decode
              jerr == fr.k \in {"CMD", "RESP"} /\ fr.pay \in NotACommand /\ Mode = "hostile"   \* json.Unmarshal into CommandPacket
          IN IF Mode = "honest" /\ zerr THEN Reject(a2, dv)   \* gunzip of a body that is not gzip: same - the caller may read on
             ELSE IF zerr \/ jerr
             THEN Consumed(a2, dv) /\ EmitRead("Error")
             ELSE /\ Upd(IF Mode = "hostile" THEN [rd EXCEPT !.ph = "Dispatch"] ELSE Idle, pos,
                         Append(decoded, [id |-> rd.id, n |-> pos - rd.start, rej |-> FALSE]), a2, dv, Append(outs, "Packet"), hist)
                  /\ EmitRead("Packet")

\* SessionManager.HandlePacket on a fresh connection, in two steps: the dispatcher registers the request
\* (pending-request table of the command executor, per-connection control structures) ...
DispatchBegin ==
  /\ Mode = "hostile" /\ rd.ph = "Dispatch"
  /\ UpdA([rd EXCEPT !.ph = "Handling"], pos, decoded, alloc, devs, outs, hist, [aux EXCEPT !.retain = @ + 1])
\* ... and when the handler has answered - reply or refusal alike - releases what it registered; afterwards the
\* read loop goes on (a heartbeat is dispatched too and never fails; unassigned types are refused)
Dispatch ==
  /\ Mode = "hostile" /\ rd.ph = "Handling"
  /\ \E o \in (CASE sent[rd.id].k \in {"PAY", "UNK"} -> {"Error"}
                 [] sent[rd.id].k = "HB" -> {"Reply"}
                 [] OTHER -> {"Reply", "Error"}) :
       UpdA(Idle, pos, decoded, alloc, devs, Append(outs, o), hist, [aux EXCEPT !.retain = @ - 1])

Next == \/ (Mode = "honest" /\ open /\ \E p \in HonestPkts : Write(p))
        \/ (Mode = "hostile" /\ open /\ \E fr \in (IF MaxFrames = 1 THEN HostileFrames ELSE StreamFrames) : HostileWrite(fr))
        \/ CloseStream \/ (MaxFrames > 1 /\ HostileClose)
        \/ ReadType \/ ReadEof \/ (Chunking = "msg" /\ \E m \in 1..Avail : NextMsg(m))
        \/ \E n \in 1..4 : ReadLen(n)
        \/ \E n \in 1..(MaxLen + 2) : ReadBody(n)
        \/ ReadTrunc \/ Stall \/ Post \/ DispatchBegin \/ Dispatch

Spec == Init /\ [][Next]_vars /\ WF_vars(Next)

(* ---------------------------------- properties -------------------------------------------- *)
Terminal == rd.ph \in {"Eof", "Err"}
\* C05, dispatcher side: nothing stays registered once a packet has been handled - whatever the answer was -
\* so that no number of refused packets can make the server retain memory
\* a message transport hands every byte of every message to the reader, once and in order: nothing is left in
\* the wrapper at the end of the stream, and what it still holds is exactly the part of the stream not yet read
MsgDrained == (Chunking = "msg" /\ rd.ph = "Eof") => (BufLeft = 0 /\ aux.msg = 0 /\ aux.mpos = Len(wire))
\* ... the wrapper is transparent: every chunk it handed over continued the stream exactly where the reader was ...
WsTransparent == aux.ok
\* ... and conserves bytes: received + unread in readBuf = taken off the socket; readBuf is the very next part
WsConserves == (Chunking = "msg" /\ rd.ph # "Err") =>
                 /\ pos + BufLeft = aux.mpos
                 /\ BufLeft > 0 => aux.base + aux.off = pos
                 /\ aux.msg <= Len(wire) - aux.mpos
WsOK == MsgDrained /\ WsTransparent /\ WsConserves
RetainBound == aux.retain <= 1 /\ (rd.ph \notin {"Handling"} => aux.retain = 0)
OK(P) == P \/ devs # {}            \* one flagged deviation must not mask the other routes: checked per cfg

TypeOK == /\ pos \in Nat /\ (Dev \cap WsDevs = {} => pos <= Len(wire)) /\ alloc \in Nat /\ devs \subseteq Dev
          /\ \A i \in 1..Len(outs) : outs[i] \in {"Packet", "Error", "Reply", "Eof", "Rejected"}

\* C01 - what was read is what was written, in order ...
Prefix == Mode = "honest" =>
            /\ Len(decoded) <= Len(sent)
            /\ \A i \in 1..Len(decoded) : decoded[i].id = i
\* ... consuming exactly the bytes of each packet, so that the next one stays aligned ...
Aligned == Mode = "honest" =>
             /\ \A i \in 1..Len(decoded) : decoded[i].id = i => decoded[i].n = EncSize(sent[i])
             /\ (rd.ph = "Type" /\ Avail > 0) => wire[From + 1].f = "T"     \* the next byte handed over starts a packet
\* ... for every chunking: no error before the end, and at the end everything has been read
NoError  == Mode = "honest" => rd.ph # "Err"
Complete == (Mode = "honest" /\ rd.ph = "Eof") => (Len(decoded) = Len(sent) /\ pos = Len(wire))
\* the writer's side of the contract: every non-heartbeat packet carries its length
LengthAlways == \A i \in 1..Len(sent) : sent[i].k # "HB" /\ Mode = "honest" => sent[i].hdr = 4

\* only packets with a caller-preset flag may be refused; an unflagged packet always comes back
RejectOnlyFlagged == Mode = "honest" => \A i \in 1..Len(decoded) : (decoded[i].rej /\ decoded[i].id = i) => sent[i].fl # "none"

C01 == Prefix /\ Aligned /\ NoError /\ Complete /\ LengthAlways /\ RejectOnlyFlagged
C01orDev == OK(C01)

\* C05 - allocation stays below the bound in every state; nothing is allocated for an oversize
\* declared length; every finite input ends (Termination, ProgressPossible); outcomes are typed
AllocBound == alloc <= Bound
AllocBoundOrDev == alloc <= Bound \/ "unboundedInflate" \in devs
NoAllocForOversize == (rd.ph # "Type" /\ rd.id > 0 /\ sent[rd.id].sc \in {"OVER", "U32"}) => alloc = 0
ProgressPossible == ~Terminal => ENABLED Next
Termination == <>Terminal
=============================================================================
