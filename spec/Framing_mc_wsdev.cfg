\* The WebSocket wrapper with named deviations switched on (Dev = @@DEVS@@, see the header of Framing.tla), message
\* transport, every partition into messages incl. one empty message: C01 holds on every path that does not pass
\* through a flagged wrapper deviation (C01orDev: the deviations are the only routes to a violation; the ghost `devs`
\* records exactly the Reads in which one took effect), and every finite stream still terminates.  The violations
\* themselves: Framing_show_ws*.cfg.  Measured (2 packets x length 0..2): wsStaleOffset 399 039 states,
\* wsKeepWhole 128 879, wsDropRemainder + wsEmptyIsEof 104 759.
CONSTANTS
  Mode = "honest"
  MaxPkts = @@PKTS@@
  MaxLen = @@LEN@@
  BodyClasses = {"any"}
  Flags = {"none"}
  MaxFrames = 1
  Threads = {1}
  MaxStall = 1
  Chunking = "msg"
  Dev = @@DEVS@@
  Emit = FALSE
SPECIFICATION Spec
INVARIANTS TypeOK C01orDev AllocBoundOrDev ProgressPossible
PROPERTY Termination
CHECK_DEADLOCK FALSE
