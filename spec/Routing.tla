------------------------------- MODULE Routing -------------------------------
(* C09 - implementation-shaped model of the waiting-tunnel routing table                      *)
(* (internal/protocol/session/tunnel.RoutingTable as used by server_bridge.go,                *)
(* packet_handler_tunnel.go and cross_node_session.go).                                       *)
(*                                                                                            *)
(* One shared store holds                                                                     *)
(*   rec[t]  = "tunnox:tunnel_waiting:<t>" -> WaitingState{fields, SourceNodeID, ExpiresAt},  *)
(*             key TTL = waiting period (30 s in the server wiring; 1 tick here)              *)
(*   addr[n] = "tunnox:node:<n>:addr"      -> dial address of node n (24 h, refreshed hourly) *)
(*                                                                                            *)
(* Code mapped:                                                                               *)
(*   Announce(n)     components_session.go: RegisterNodeAddress at node start                 *)
(*   Register(n,t)   startSourceBridge: bridge created on n, then RegisterWaitingTunnel       *)
(*                   (sets CreatedAt/ExpiresAt, Set(key, *WaitingState, ttl))                 *)
(*   Lookup(m,t)     handleTunnelOpen / lookupTunnelRouting on ANY node m:                    *)
(*                   LookupWaitingTunnel = Get, type switch over what the backend returned,   *)
(*                   explicit ExpiresAt check (deletes the key when past), then               *)
(*                   GetNodeAddress(SourceNodeID) to dial the source node                     *)
(*   Remove(n,t)     runBridgeLifecycle on the source node when the bridge ends:              *)
(*                   RemoveWaitingTunnel = unconditional Delete                               *)
(*   Tick            the waiting period elapses (key TTL and ExpiresAt lapse together)        *)
(*   LateLookup(m,t) the same lookup for an id that is not (any more) waiting: a late or      *)
(*                   replayed TunnelOpen                                                      *)
(*                                                                                            *)
(* Backend value transformer: what Get returns for a stored *WaitingState                     *)
(*   "identity"   the pointer itself          (memory backend)                                *)
(*   "jsonString" its JSON encoding, a string (Redis backend, shared tier of the tiered one)  *)
(*   "jsonMap"    the JSON-decoded map        (a store that decodes on read)                  *)
(* LookupWaitingTunnel has a case for each of them (and for []byte and the value type), so     *)
(* Decode succeeds for every shape.  Field VALUES are not modelled: a registration is          *)
(* identified by its serial number `ver`; the driver concretises each with generated values    *)
(* and compares them in Go.                                                                    *)
(*                                                                                            *)
(* Scope: one source end per tunnel id at a time (startSourceBridge refuses a second bridge    *)
(* for an id on its node; ids are generated per tunnel) - Register(n,t) is enabled only        *)
(* when no bridge for t exists.  The id may be registered again after the earlier bridge ended.*)
(* No deviation from the property was found in this code path, so the module has no            *)
(* deviation actions; the as-is design satisfies the invariants below.                         *)
EXTENDS Naturals, Sequences, FiniteSets, TLC, Json

CONSTANTS Nodes, Tunnels,
          TTL,          \* waiting period in ticks
          MaxReg,       \* registrations per tunnel id (bounds the state graph)
          MaxClock, MaxHist,
          Shapes,       \* subset of {"identity", "jsonString", "jsonMap"}
          Emit

VARIABLES shape,
          rec,      \* tunnel -> [node, ver, ttl]   (ttl = remaining ticks, 0 = absent)
          addr,     \* node -> announced?
          bridge,   \* ghost: tunnel -> [on, node, ver, left]  the source end and its remaining waiting period
          nreg,     \* tunnel -> registrations so far
          clock, hist
vars    == <<shape, rec, addr, bridge, nreg, clock, hist>>
view    == <<shape, rec, addr, bridge, nreg>>
genview == <<shape, rec, addr, bridge, nreg, clock>>

NoRec    == [node |-> "-", ver |-> 0, ttl |-> 0]
NoBridge == [on |-> FALSE, node |-> "-", ver |-> 0, left |-> 0]

Init == /\ shape \in Shapes
        /\ rec = [t \in Tunnels |-> NoRec]
        /\ addr = [n \in Nodes |-> FALSE]
        /\ bridge = [t \in Tunnels |-> NoBridge]
        /\ nreg = [t \in Tunnels |-> 0]
        /\ clock = 0 /\ hist = <<>>

Out(h) == IF Emit THEN PrintT("BEH " \o ToJson(h)) ELSE TRUE
Log(a, n, t) == /\ hist' = Append(hist, [a |-> a, n |-> n, t |-> t])
                /\ shape' = shape
                /\ Out(hist')

\* ---- the store as the backend presents it, and the decoding type switch --------------------
BackendValue(r) == [shape |-> shape, body |-> r]
Handled == {"identity", "value", "jsonMap", "bytes", "jsonString"}      \* cases of the type switch
Decode(v) == IF v.shape \in Handled THEN [ok |-> TRUE, st |-> v.body] ELSE [ok |-> FALSE, st |-> NoRec]

\* LookupWaitingTunnel(t) followed by GetNodeAddress(source node), as any node sees it
LookupRes(t) ==
  IF rec[t].ttl = 0 THEN [r |-> "notfound", node |-> "-", ver |-> 0, addr |-> FALSE]
  ELSE LET d == Decode(BackendValue(rec[t]))
       IN IF ~d.ok THEN [r |-> "error", node |-> "-", ver |-> 0, addr |-> FALSE]
          ELSE [r |-> "found", node |-> d.st.node, ver |-> d.st.ver, addr |-> addr[d.st.node]]

Announce(n) ==
  /\ ~addr[n]
  /\ addr' = [addr EXCEPT ![n] = TRUE]
  /\ UNCHANGED <<rec, bridge, nreg, clock>>
  /\ Log("Announce", n, "-")

Register(n, t) ==
  /\ addr[n] /\ ~bridge[t].on /\ nreg[t] < MaxReg
  /\ nreg' = [nreg EXCEPT ![t] = @ + 1]
  /\ rec' = [rec EXCEPT ![t] = [node |-> n, ver |-> nreg[t] + 1, ttl |-> TTL]]
  /\ bridge' = [bridge EXCEPT ![t] = [on |-> TRUE, node |-> n, ver |-> nreg[t] + 1, left |-> TTL]]
  /\ UNCHANGED <<addr, clock>>
  /\ Log("Register", n, t)

Waiting(t) == bridge[t].on /\ bridge[t].left > 0

\* lookups do not change the modelled state (deleting an expired key is a no-op here: key TTL
\* and ExpiresAt lapse together)
LookupEffect == UNCHANGED <<rec, addr, bridge, nreg, clock>>
Lookup(m, t)     == Waiting(t)  /\ LookupEffect /\ Log("Lookup", m, t)
LateLookup(m, t) == ~Waiting(t) /\ LookupEffect /\ Log("Lookup", m, t)

Remove(n, t) ==
  /\ bridge[t].on /\ bridge[t].node = n
  /\ rec' = [rec EXCEPT ![t] = NoRec]
  /\ bridge' = [bridge EXCEPT ![t] = NoBridge]
  /\ UNCHANGED <<addr, nreg, clock>>
  /\ Log("Remove", n, t)

Tick ==
  /\ clock < MaxClock
  /\ clock' = clock + 1
  /\ rec' = [t \in Tunnels |-> IF rec[t].ttl <= 1 THEN NoRec ELSE [rec[t] EXCEPT !.ttl = @ - 1]]
  /\ bridge' = [t \in Tunnels |-> IF bridge[t].on /\ bridge[t].left > 0 THEN [bridge[t] EXCEPT !.left = @ - 1] ELSE bridge[t]]
  /\ UNCHANGED <<addr, nreg>>
  /\ Log("Tick", "-", "-")

Next == \/ Tick
        \/ \E n \in Nodes : Announce(n)
        \/ \E n \in Nodes, t \in Tunnels : Register(n, t) \/ Lookup(n, t) \/ LateLookup(n, t) \/ Remove(n, t)
Spec == Init /\ [][Next]_vars
Bounded == Len(hist) <= MaxHist

\* ---- the property -------------------------------------------------------------------------
\* while the source end waits, every node resolves the id to exactly what was registered, at the
\* right node, and can obtain that node's address
LookupExact == \A t \in Tunnels : Waiting(t) =>
                 LookupRes(t) = [r |-> "found", node |-> bridge[t].node, ver |-> bridge[t].ver, addr |-> TRUE]
\* after the tunnel ended or its waiting period lapsed the id does not resolve
LookupGone  == \A t \in Tunnels : ~Waiting(t) => LookupRes(t).r # "found"

TypeOK == /\ \A t \in Tunnels : rec[t].ttl \in 0..TTL /\ nreg[t] \in 0..MaxReg
          /\ clock \in 0..MaxClock
=============================================================================
