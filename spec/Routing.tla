------------------------------- MODULE Routing -------------------------------
(* C09 - implementation-shaped model of the waiting-tunnel routing table                      *)
(* (internal/protocol/session/tunnel.RoutingTable as used by server_bridge.go,                *)
(* packet_handler_tunnel.go and cross_node_session.go).                                       *)
(*                                                                                            *)
(* One shared store holds                                                                     *)
(*   rec[t]  = "tunnox:tunnel_waiting:<t>" -> WaitingState{fields, SourceNodeID, ExpiresAt},  *)
(*             key TTL = waiting period (30 s in the server wiring; 1 tick here)              *)
(*   addr[n] = "tunnox:node:<n>:addr"      -> dial address of node n (24 h, refreshed hourly) *)
(*                                                                                            *)
(* Code mapped:                                                                               *)
(*   Announce(n)     components_session.go: RegisterNodeAddress at node start                 *)
(*   Register(n,t)   startSourceBridge: bridge created on n, then RegisterWaitingTunnel       *)
(*                   (sets CreatedAt/ExpiresAt, Set(key, *WaitingState, ttl))                 *)
(*   Lookup(m,t)     handleTunnelOpen / lookupTunnelRouting on ANY node m:                    *)
(*                   LookupWaitingTunnel = Get, type switch over what the backend returned,   *)
(*                   explicit ExpiresAt check (deletes the key when past), then               *)
(*                   GetNodeAddress(SourceNodeID) to dial the source node                     *)
(*   Remove(n,t)     runBridgeLifecycle on the source node when the bridge ends:              *)
(*                   RemoveWaitingTunnel = unconditional Delete                               *)
(*                   At the real call sites both are sequences of separately scheduled steps,   *)
(*                   and the tunnel's end is an independent event (Mode = "split"):             *)
(*   BridgeCreated(n,t)  startSourceBridge put the bridge into tunnelBridges; the record's Set  *)
(*                       is issued (in flight: shared store round trip)                         *)
(*   RecordSet(n,t)      the Set lands (RegisterWaitingTunnel returns); only THEN               *)
(*                       startSourceBridge starts `go runBridgeLifecycle`.  ExpiresAt was fixed  *)
(*                       when the Set was ISSUED, so the waiting period runs from BridgeCreated; *)
(*                       a record landing after its period is expired on arrival                 *)
(*   TunnelEnds(n,t)     the bridge is closed (source gone / served tunnel finished) - possible  *)
(*                       as soon as the bridge is in the map, i.e. also while the Set is in flight*)
(*   RecordRemoved(n,t)  runBridgeLifecycle saw the end: bridge out of the map,                  *)
(*                       RemoveWaitingTunnel.  As-is it cannot run before RecordSet (the         *)
(*                       lifecycle goroutine does not exist yet).  LifecycleFirst = TRUE models  *)
(*                       the design in which the lifecycle is started before the registration:   *)
(*                       the removal may then precede the Set, and a Set landing after the       *)
(*                       removal is the named deviation "lateSet" (nothing removes that record). *)
(*   Register / BridgeCreated carry where the mapping's TARGET client has its control            *)
(*   connection at that moment (field loc: "same" node, "other" node, "none"): the as-is code     *)
(*   publishes the record regardless.  SkipLocalTarget = TRUE models the design that skips the    *)
(*   registration when the target is connected to the source node - deviation "notPublished".     *)
(*   EvictScan(m,t) / EvictWrite(t)  (EvictingLookup = TRUE only) a lookup on the memory backend  *)
(*   that found the lapsed, never swept entry of an earlier registration of t reclaims it in a    *)
(*   second step - by then the key may hold a NEW live record: deviation "evictedLive".  As-is    *)
(*   lookups are read-only (LookupPure) and lapsed entries are simply invisible.                  *)
(*   Shutdown(n)     the source node's SessionManager is closed: its context is cancelled, every   *)
(*                   bridge on n ends and runBridgeLifecycle removes the records - with that        *)
(*                   CANCELLED context (RemoveWaitingTunnel(s.Ctx(), id)).  As-is the removal does  *)
(*                   not look at the context.  HonourContext = TRUE models the design that skips    *)
(*                   storage calls on a finished context: the records stay - deviation "notRemoved".*)
(*                   At the call sites (Mode "split") a shutdown is ShutdownSplit(n): every bridge on n  *)
(*                   ends at once (cause: the node's context), each lifecycle's RecordRemoved is a step   *)
(*                   of its own and runs on the finished context; a record whose Set is still in flight   *)
(*                   lands first (as-is the lifecycle goroutine is started after it, also on a finished   *)
(*                   context).  With HonourContext the late Set is skipped as well (nothing to remove).   *)
(*   Arrive(m,t)     (Mode "arrive") the target's TunnelOpen arrives at node m and goes through the  *)
(*                   session layer: handleTunnelOpen -> LookupWaitingTunnel ->                      *)
(*                   handleCrossNodeTargetConnection -> lookupTunnelRouting -> forwardToSourceNode   *)
(*                   (dial the source node's address).  Its decision is the lookup's; on a forward   *)
(*                   the target connection is held at m until TargetGone(m,t), after which m         *)
(*                   REMEMBERS the id as ended (closedTunnels, never purged).  RejectSeenIds = TRUE  *)
(*                   models the design that refuses ids a node remembers as ended - a re-used id     *)
(*                   that is legitimately waiting again is then refused: deviation "refusedReused".  *)
(*   DupOpen(n,t,k)  a SECOND source-side open for an id whose bridge exists on n (a duplicated / replayed    *)
(*                   TunnelOpen that slipped past handleTunnelOpen's exists-check, or a direct                 *)
(*                   startSourceBridge caller), carrying the same mapping (k = "same") or another one          *)
(*                   (k = "other"), while the tunnel waits or after its period lapsed (served / abandoned,     *)
(*                   bridge still in the map).  As-is startSourceBridge checks tunnelBridges first and refuses  *)
(*                   with AlreadyExists before anything is written: a refused open changes nothing.            *)
(*                   RegisterBeforeExistsCheck = TRUE models the design that registers first: the refused       *)
(*                   request's data and a fresh waiting period overwrite the record - deviation "dupOverwrote". *)
(*                   Not a duplicate: an open for an id with no bridge on that node.  After the tunnel ended     *)
(*                   and was removed it is an ordinary re-registration (Register, reused id).  While the id      *)
(*                   waits on ANOTHER node startSourceBridge accepts it - a second source end for one id,        *)
(*                   outside the scope below (through handleTunnelOpen such an open is a target arrival).        *)
(*   Tick            the waiting period elapses (key TTL and ExpiresAt lapse together)        *)
(*   LateLookup(m,t) the same lookup for an id that is not (any more) waiting: a late or      *)
(*                   replayed TunnelOpen                                                      *)
(*                                                                                            *)
(* Backend value transformer: what Get returns for a stored *WaitingState                     *)
(*   "identity"   the pointer itself          (memory backend)                                *)
(*   "jsonString" its JSON encoding, a string (Redis backend, shared tier of the tiered one)  *)
(*   "jsonMap"    the JSON-decoded map        (a store that decodes on read)                  *)
(* LookupWaitingTunnel has a case for each of them (and for []byte and the value type), so     *)
(* Decode succeeds for every shape.  Field VALUES are not modelled: a registration is          *)
(* identified by its serial number `ver`; the driver concretises each with generated values    *)
(* and compares them in Go.                                                                    *)
(*                                                                                            *)
(* Scope: one source end per tunnel id at a time (startSourceBridge refuses a second bridge    *)
(* for an id on its node; ids are generated per tunnel) - Register(n,t) is enabled only        *)
(* when no bridge for t exists.  The id may be registered again after the earlier bridge ended.*)
(* The as-is code (LifecycleFirst = FALSE) has no deviation: LookupExact and LookupGone hold.   *)
(* With LifecycleFirst = TRUE LookupGone is violated exactly through "lateSet"                  *)
(* (LookupGoneOrDev holds).                                                                    *)
EXTENDS Naturals, Sequences, FiniteSets, TLC, Json

CONSTANTS Nodes, Tunnels,
          TTL,          \* waiting period in ticks
          MaxReg,       \* registrations per tunnel id (bounds the state graph)
          MaxClock, MaxHist,
          Shapes,       \* subset of {"identity", "jsonString", "jsonMap"}
          Mode,         \* "atomic": Register / Remove as single events (RoutingTable API level)
                        \* "split" : BridgeCreated / RecordSet / TunnelEnds / RecordRemoved (call sites)
          LifecycleFirst,
          SkipLocalTarget,   \* the design that does not publish a record when the target is connected to the source node
          EvictingLookup,    \* the design whose lookups reclaim lapsed entries in a second, unsynchronised step
          HonourContext,     \* the design whose routing-table calls return early on a finished context
          RejectSeenIds,     \* the design whose arrival path refuses tunnel ids the node remembers as ended
          RegisterBeforeExistsCheck, \* the design whose startSourceBridge writes the routing record before the "bridge already exists" check
          MaxDup,            \* refused duplicate opens per registration (0: none)
          Emit, Only    \* Only = "dev": print a behaviour only when its last event sets the deviation

VARIABLES shape,
          rec,      \* tunnel -> [node, ver, ttl]   (ttl = remaining ticks, 0 = absent)
          addr,     \* node -> announced?
          bridge,   \* ghost: tunnel -> [on, node, ver, left]  the source end and its remaining waiting period
                    \*   (the period runs from the moment the record's Set was issued)
          flight,   \* tunnel -> [p, node, ver, left]  the record's Set is in flight (left = what remains of its period)
          rmpend,   \* tunnel -> node on which the tunnel ended and whose lifecycle removal has not run yet | "-"
          dev,      \* ghost: tunnel -> names of the deviations that currently affect it:
                    \*   "lateSet" a Set landed after the removal and its record is still there,
                    \*   "notPublished" the waiting tunnel's record was never written,
                    \*   "evictedLive" a lookup reclaimed the live record
          stale,    \* tunnel -> a lapsed, unswept entry of an earlier registration is still under the key (memory)
          pe,       \* tunnel -> a lookup saw that stale entry and has its reclaim pending
          lkWrote,  \* ghost: some lookup modified the store
          up,       \* node -> its SessionManager is running
          held,     \* tunnel -> nodes holding a forwarded target connection of it
          seen,     \* node -> tunnel ids it remembers as ended (closedTunnels)
          nreg,     \* tunnel -> registrations so far
          ndup,     \* tunnel -> refused duplicate opens met by its current registration (bounds the state graph)
          clock, hist
vars    == <<shape, rec, addr, bridge, flight, rmpend, dev, stale, pe, lkWrote, up, held, seen, nreg, ndup, clock, hist>>
view    == <<shape, rec, addr, bridge, flight, rmpend, dev, stale, pe, lkWrote, up, held, seen, nreg, ndup>>
genview == <<shape, rec, addr, bridge, flight, rmpend, dev, stale, pe, lkWrote, up, held, seen, nreg, ndup, clock>>

NoRec    == [node |-> "-", ver |-> 0, ttl |-> 0]
NoBridge == [on |-> FALSE, node |-> "-", ver |-> 0, left |-> 0]
NoFlight == [p |-> FALSE, node |-> "-", ver |-> 0, left |-> 0]

Init == /\ shape \in Shapes
        /\ rec = [t \in Tunnels |-> NoRec]
        /\ addr = [n \in Nodes |-> FALSE]
        /\ bridge = [t \in Tunnels |-> NoBridge]
        /\ flight = [t \in Tunnels |-> NoFlight]
        /\ rmpend = [t \in Tunnels |-> "-"]
        /\ dev = [t \in Tunnels |-> {}]
        /\ stale = [t \in Tunnels |-> FALSE] /\ pe = [t \in Tunnels |-> FALSE] /\ lkWrote = FALSE
        /\ up = [n \in Nodes |-> TRUE] /\ held = [t \in Tunnels |-> {}] /\ seen = [n \in Nodes |-> {}]
        /\ nreg = [t \in Tunnels |-> 0] /\ ndup = [t \in Tunnels |-> 0]
        /\ clock = 0 /\ hist = <<>>

Out(h) == IF Emit /\ (Only = "dev" => \E t \in Tunnels : dev'[t] \ dev[t] # {}) THEN PrintT("BEH " \o ToJson(h)) ELSE TRUE
LogL(a, n, t, loc) == /\ hist' = Append(hist, [a |-> a, n |-> n, t |-> t, loc |-> loc])
                      /\ shape' = shape
                      /\ Out(hist')
Log(a, n, t) == LogL(a, n, t, "-")
Locs == {"same", "other", "none"}
EV == <<stale, pe, lkWrote, up, held, seen>>

\* ---- the store as the backend presents it, and the decoding type switch --------------------
BackendValue(r) == [shape |-> shape, body |-> r]
Handled == {"identity", "value", "jsonMap", "bytes", "jsonString"}      \* cases of the type switch
Decode(v) == IF v.shape \in Handled THEN [ok |-> TRUE, st |-> v.body] ELSE [ok |-> FALSE, st |-> NoRec]

\* LookupWaitingTunnel(t) followed by GetNodeAddress(source node), as any node sees it
LookupRes(t) ==
  IF rec[t].ttl = 0 THEN [r |-> "notfound", node |-> "-", ver |-> 0, addr |-> FALSE]
  ELSE LET d == Decode(BackendValue(rec[t]))
       IN IF ~d.ok THEN [r |-> "error", node |-> "-", ver |-> 0, addr |-> FALSE]
          ELSE [r |-> "found", node |-> d.st.node, ver |-> d.st.ver, addr |-> addr[d.st.node]]

Announce(n) ==
  /\ ~addr[n]
  /\ addr' = [addr EXCEPT ![n] = TRUE]
  /\ UNCHANGED <<rec, bridge, flight, rmpend, dev, nreg, ndup, clock, EV>>
  /\ Log("Announce", n, "-")

Free(t) == ~bridge[t].on /\ ~flight[t].p /\ rmpend[t] = "-"      \* no bridge for t, nothing of an earlier one pending

Register(n, t, loc) ==
  /\ Mode \in {"atomic", "arrive"}
  /\ up[n] /\ addr[n] /\ Free(t) /\ nreg[t] < MaxReg
  /\ nreg' = [nreg EXCEPT ![t] = @ + 1] /\ ndup' = [ndup EXCEPT ![t] = 0]
  /\ LET skip == SkipLocalTarget /\ loc = "same" IN
     /\ rec' = IF skip THEN rec ELSE [rec EXCEPT ![t] = [node |-> n, ver |-> nreg[t] + 1, ttl |-> TTL]]
     /\ dev' = [dev EXCEPT ![t] = IF skip THEN {"notPublished"} ELSE {}]
     /\ stale' = IF skip THEN stale ELSE [stale EXCEPT ![t] = FALSE]          \* the Set overwrites the lapsed entry
  /\ bridge' = [bridge EXCEPT ![t] = [on |-> TRUE, node |-> n, ver |-> nreg[t] + 1, left |-> TTL]]
  /\ UNCHANGED <<addr, flight, rmpend, clock, pe, lkWrote, up, held, seen>>
  /\ LogL("Register", n, t, loc)

Waiting(t) == bridge[t].on /\ ~flight[t].p /\ bridge[t].left > 0

\* lookups do not change the modelled state (deleting an expired key is a no-op here: key TTL
\* and ExpiresAt lapse together)
LookupEffect == UNCHANGED <<rec, addr, bridge, flight, rmpend, dev, nreg, ndup, clock, EV>>
Lookup(m, t)     == up[m] /\ Waiting(t)  /\ LookupEffect /\ Log("Lookup", m, t)
LateLookup(m, t) == up[m] /\ ~Waiting(t) /\ LookupEffect /\ Log("Lookup", m, t)

\* the refused open's data: a version no registration has
DupVer == 100
DupKinds == {"same", "other"}
DupOpen(n, t, k) ==
  /\ Mode = "atomic" /\ ndup[t] < MaxDup
  /\ up[n] /\ bridge[t].on /\ bridge[t].node = n           \* refused: AlreadyExists
  /\ ndup' = [ndup EXCEPT ![t] = @ + 1]
  /\ LET new == [node |-> n, ver |-> IF k = "same" THEN bridge[t].ver ELSE DupVer, ttl |-> TTL] IN
     /\ rec' = IF RegisterBeforeExistsCheck THEN [rec EXCEPT ![t] = new] ELSE rec
     /\ dev' = IF RegisterBeforeExistsCheck /\ rec[t] # new THEN [dev EXCEPT ![t] = @ \cup {"dupOverwrote"}] ELSE dev
     /\ stale' = IF RegisterBeforeExistsCheck THEN [stale EXCEPT ![t] = FALSE] ELSE stale
  /\ UNCHANGED <<addr, bridge, flight, rmpend, nreg, clock, pe, lkWrote, up, held, seen>>
  /\ LogL("DupOpen", n, t, k)

Remove(n, t) ==
  /\ Mode \in {"atomic", "arrive"}
  /\ up[n] /\ bridge[t].on /\ bridge[t].node = n
  /\ rec' = [rec EXCEPT ![t] = NoRec]
  /\ bridge' = [bridge EXCEPT ![t] = NoBridge]
  /\ dev' = [dev EXCEPT ![t] = {}]
  /\ stale' = [stale EXCEPT ![t] = FALSE]
  /\ UNCHANGED <<addr, flight, rmpend, nreg, ndup, clock, pe, lkWrote, up, held, seen>>
  /\ Log("Remove", n, t)

\* the node's SessionManager is closed: its tunnels end, their records are removed with the
\* cancelled context
Shutdown(n) ==
  /\ Mode = "atomic" /\ up[n] /\ \E t \in Tunnels : bridge[t].on /\ bridge[t].node = n
  /\ up' = [up EXCEPT ![n] = FALSE]
  /\ LET mine == {t \in Tunnels : bridge[t].on /\ bridge[t].node = n} IN
     /\ bridge' = [t \in Tunnels |-> IF t \in mine THEN NoBridge ELSE bridge[t]]
     /\ rec' = IF HonourContext THEN rec ELSE [t \in Tunnels |-> IF t \in mine THEN NoRec ELSE rec[t]]
     /\ stale' = IF HonourContext THEN stale ELSE [t \in Tunnels |-> stale[t] /\ t \notin mine]
     /\ dev' = [t \in Tunnels |-> IF t \in mine THEN (IF HonourContext /\ rec[t].ttl > 0 THEN {"notRemoved"} ELSE {}) ELSE dev[t]]
  /\ UNCHANGED <<addr, flight, rmpend, nreg, ndup, clock, pe, lkWrote, held, seen>>
  /\ Log("Shutdown", n, "-")

\* ---- the target's arrival through the session layer (Mode "arrive") ---------------------------
ArriveRes(m, t) == IF RejectSeenIds /\ t \in seen[m] THEN [r |-> "refused", node |-> "-"]
                   ELSE LET l == LookupRes(t) IN
                        IF l.r = "found" /\ l.addr THEN [r |-> "forward", node |-> l.node] ELSE [r |-> "refused", node |-> "-"]
Arrive(m, t) ==
  /\ Mode = "arrive" /\ up[m]
  \* driven only while a record is there (an arrival for an unknown id polls the routing table for
  \* 10 s - "the target came first" - before it is refused), and not at the source node itself
  \* (local-bridge path, not modelled); ArriveExact covers the other cases as a state predicate
  /\ rec[t].ttl > 0 /\ rec[t].node # m
  /\ held' = IF ArriveRes(m, t).r = "forward" THEN [held EXCEPT ![t] = @ \cup {m}] ELSE held
  /\ dev' = IF RejectSeenIds /\ t \in seen[m] /\ Waiting(t) THEN [dev EXCEPT ![t] = @ \cup {"refusedReused"}] ELSE dev
  /\ UNCHANGED <<rec, addr, bridge, flight, rmpend, nreg, ndup, clock, stale, pe, lkWrote, up, seen>>
  /\ Log("Arrive", m, t)

TargetGone(m, t) ==
  /\ Mode = "arrive" /\ m \in held[t]
  /\ held' = [held EXCEPT ![t] = @ \ {m}]
  /\ seen' = [seen EXCEPT ![m] = @ \cup {t}]
  /\ UNCHANGED <<rec, addr, bridge, flight, rmpend, dev, nreg, ndup, clock, stale, pe, lkWrote, up>>
  /\ Log("TargetGone", m, t)

\* ---- the same at the real call sites, step by step ------------------------------------------
BridgeCreated(n, t) ==
  /\ Mode = "split"
  /\ up[n] /\ addr[n] /\ Free(t) /\ nreg[t] < MaxReg
  /\ nreg' = [nreg EXCEPT ![t] = @ + 1] /\ ndup' = [ndup EXCEPT ![t] = 0]
  /\ bridge' = [bridge EXCEPT ![t] = [on |-> TRUE, node |-> n, ver |-> nreg[t] + 1, left |-> TTL]]
  /\ flight' = [flight EXCEPT ![t] = [p |-> TRUE, node |-> n, ver |-> nreg[t] + 1, left |-> TTL]]
  /\ UNCHANGED <<rec, addr, rmpend, dev, clock, EV>>
  /\ Log("Create", n, t)

\* the routing-table call is made on the node's context; the design HonourContext returns early when it has ended
CtxSkips(n) == HonourContext /\ ~up[n]
RecordSet(n, t) ==
  /\ flight[t].p /\ flight[t].node = n
  /\ rec' = IF CtxSkips(n) THEN rec
            ELSE [rec EXCEPT ![t] = IF flight[t].left > 0 THEN [node |-> n, ver |-> flight[t].ver, ttl |-> flight[t].left] ELSE NoRec]
  /\ flight' = [flight EXCEPT ![t] = NoFlight]
  /\ dev' = [dev EXCEPT ![t] = IF ~CtxSkips(n) /\ flight[t].left > 0 /\ ~bridge[t].on /\ rmpend[t] = "-" THEN {"lateSet"} ELSE {}]   \* ended AND already cleaned up
  /\ stale' = IF CtxSkips(n) THEN stale ELSE [stale EXCEPT ![t] = FALSE]
  /\ UNCHANGED <<bridge, pe, lkWrote, up, held, seen>>
  /\ UNCHANGED <<addr, rmpend, nreg, ndup, clock>>
  /\ Log("Set", n, t)

TunnelEnds(n, t) ==
  /\ Mode = "split"
  /\ bridge[t].on /\ bridge[t].node = n
  /\ bridge' = [bridge EXCEPT ![t] = NoBridge]
  /\ rmpend' = [rmpend EXCEPT ![t] = n]
  /\ UNCHANGED <<rec, addr, flight, dev, nreg, ndup, clock, EV>>
  /\ Log("End", n, t)

\* the node's SessionManager is closed while bridges exist on it: all of them end, their lifecycles
\* (started or, for a record still in flight, yet to be started) remove the records step by step
ShutdownSplit(n) ==
  /\ Mode = "split" /\ up[n] /\ \E t \in Tunnels : bridge[t].on /\ bridge[t].node = n
  /\ up' = [up EXCEPT ![n] = FALSE]
  /\ LET mine == {t \in Tunnels : bridge[t].on /\ bridge[t].node = n} IN
     /\ bridge' = [t \in Tunnels |-> IF t \in mine THEN NoBridge ELSE bridge[t]]
     /\ rmpend' = [t \in Tunnels |-> IF t \in mine THEN n ELSE rmpend[t]]
  /\ UNCHANGED <<rec, addr, flight, dev, nreg, ndup, clock, stale, pe, lkWrote, held, seen>>
  /\ Log("Shutdown", n, "-")

RecordRemoved(n, t) ==
  /\ rmpend[t] = n
  /\ LifecycleFirst \/ ~flight[t].p        \* as-is the lifecycle goroutine is started after the Set returned
  /\ rec' = IF CtxSkips(n) THEN rec ELSE [rec EXCEPT ![t] = NoRec]
  /\ rmpend' = [rmpend EXCEPT ![t] = "-"]
  /\ dev' = [dev EXCEPT ![t] = IF CtxSkips(n) /\ rec[t].ttl > 0 THEN {"notRemoved"} ELSE {}]
  /\ stale' = IF CtxSkips(n) THEN stale ELSE [stale EXCEPT ![t] = FALSE]
  /\ UNCHANGED <<addr, bridge, flight, nreg, ndup, clock, pe, lkWrote, up, held, seen>>
  /\ Log("Removed", n, t)

\* ---- the evicting lookup (memory backend, EvictingLookup only) --------------------------------
EvictScan(m, t) ==
  /\ EvictingLookup /\ shape = "identity" /\ stale[t] /\ ~pe[t]
  /\ pe' = [pe EXCEPT ![t] = TRUE]
  /\ UNCHANGED <<rec, addr, bridge, flight, rmpend, dev, stale, lkWrote, nreg, ndup, clock, up, held, seen>>
  /\ Log("EvictScan", m, t)

EvictWrite(t) ==
  /\ pe[t]
  /\ pe' = [pe EXCEPT ![t] = FALSE]
  /\ rec' = [rec EXCEPT ![t] = NoRec] /\ stale' = [stale EXCEPT ![t] = FALSE]
  /\ lkWrote' = TRUE
  /\ dev' = IF rec[t].ttl > 0 THEN [dev EXCEPT ![t] = @ \cup {"evictedLive"}] ELSE dev
  /\ UNCHANGED <<addr, bridge, flight, rmpend, nreg, ndup, clock, up, held, seen>>
  /\ Log("EvictWrite", "-", t)

Tick ==
  /\ clock < MaxClock
  /\ clock' = clock + 1
  /\ rec' = [t \in Tunnels |-> IF rec[t].ttl <= 1 THEN NoRec ELSE [rec[t] EXCEPT !.ttl = @ - 1]]
  /\ bridge' = [t \in Tunnels |-> IF bridge[t].on /\ bridge[t].left > 0 THEN [bridge[t] EXCEPT !.left = @ - 1] ELSE bridge[t]]
  /\ dev' = [t \in Tunnels |-> IF rec[t].ttl > 1 THEN dev[t] ELSE dev[t] \ {"lateSet", "dupOverwrote"}]
  /\ stale' = [t \in Tunnels |-> stale[t] \/ rec[t].ttl = 1]        \* a lapsed entry stays in the map until overwritten or removed
  /\ flight' = [t \in Tunnels |-> IF flight[t].p /\ flight[t].left > 0 THEN [flight[t] EXCEPT !.left = @ - 1] ELSE flight[t]]
  /\ UNCHANGED <<addr, rmpend, nreg, ndup, pe, lkWrote, up, held, seen>>
  /\ Log("Tick", "-", "-")

Next == \/ Tick
        \/ \E n \in Nodes : Announce(n) \/ Shutdown(n) \/ ShutdownSplit(n)
        \/ \E n \in Nodes, t \in Tunnels :
             \/ \E loc \in Locs : Register(n, t, loc)
             \/ Lookup(n, t) \/ LateLookup(n, t) \/ Remove(n, t) \/ EvictScan(n, t) \/ EvictWrite(t)
             \/ Arrive(n, t) \/ TargetGone(n, t)
             \/ \E k \in DupKinds : DupOpen(n, t, k)
             \/ BridgeCreated(n, t) \/ RecordSet(n, t) \/ TunnelEnds(n, t) \/ RecordRemoved(n, t)
Spec == Init /\ [][Next]_vars
Bounded == Len(hist) <= MaxHist

\* ---- the property -------------------------------------------------------------------------
\* while the source end waits, every node resolves the id to exactly what was registered, at the
\* right node, and can obtain that node's address
LookupExact == \A t \in Tunnels : Waiting(t) =>
                 LookupRes(t) = [r |-> "found", node |-> bridge[t].node, ver |-> bridge[t].ver, addr |-> TRUE]
\* the id does not resolve when no tunnel of that id was ever waiting, when the tunnel has ended
\* and its end has been fully processed (removal done, no write of it still in flight), or when
\* the waiting period of a written record has lapsed.  (While an end is being processed, or a
\* bridge exists whose record is not written yet, nothing is demanded.)
Settled(t) == ~bridge[t].on /\ rmpend[t] = "-" /\ ~flight[t].p
Lapsed(t)  == bridge[t].on /\ ~flight[t].p /\ bridge[t].left = 0
LookupGone      == \A t \in Tunnels : (Settled(t) \/ Lapsed(t)) => LookupRes(t).r # "found"
LookupGoneOrDev == \A t \in Tunnels : (Settled(t) \/ Lapsed(t)) => (LookupRes(t).r # "found" \/ dev[t] # {})
LookupExactOrDev == \A t \in Tunnels : Waiting(t) => (dev[t] # {} \/
                 LookupRes(t) = [r |-> "found", node |-> bridge[t].node, ver |-> bridge[t].ver, addr |-> TRUE])
\* a target arriving at any running node other than the source node is forwarded to the source node
\* while the tunnel waits, and refused otherwise
ArriveExact == \A t \in Tunnels, m \in Nodes :
                 (up[m] /\ (rec[t].ttl > 0 => rec[t].node # m)) =>
                    IF Waiting(t) THEN ArriveRes(m, t) = [r |-> "forward", node |-> bridge[t].node]
                    ELSE (Settled(t) \/ Lapsed(t)) => ArriveRes(m, t).r = "refused"
ArriveExactOrDev == \A t \in Tunnels, m \in Nodes :
                 (up[m] /\ (rec[t].ttl > 0 => rec[t].node # m) /\ dev[t] = {} /\ ~(RejectSeenIds /\ t \in seen[m])) =>   \* "refusedReused"
                    IF Waiting(t) THEN ArriveRes(m, t) = [r |-> "forward", node |-> bridge[t].node]
                    ELSE (Settled(t) \/ Lapsed(t)) => ArriveRes(m, t).r = "refused"
NoDev           == \A t \in Tunnels : dev[t] = {}
\* a refused open changes nothing: neither the record's fields nor its expiry (action property)
RefusedOpenInert == [][\A n \in Nodes, t \in Tunnels, k \in DupKinds : DupOpen(n, t, k) => UNCHANGED <<rec, addr, bridge>>]_vars
LookupPure      == ~lkWrote

TypeOK == /\ \A t \in Tunnels : rec[t].ttl \in 0..TTL /\ nreg[t] \in 0..MaxReg /\ ndup[t] \in 0..MaxDup
          /\ clock \in 0..MaxClock
=============================================================================
