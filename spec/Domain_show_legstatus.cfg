\* C19 - deviation legacyStatusIgnored (neighbour of C19-r3m2, the other two lookup sources): the status / revoked / expiry checks of
\* the registry and cloud-control branches of lookupMapping are skipped. Expected: Invariant LegacyInactiveRejects is violated.
\*   tlc -config Domain_show_legstatus.cfg Domain.tla      (the same constants with Deviate = {} pass: `./check C19`)
CONSTANTS
  ProcsC1 = {"p1"}
  ProcsC2 = {}
  LookProcs = {"lk"}
  Names = {"n1"}
  MaxOps = 2
  MaxLook = 1
  Kinds = {"Create", "Update"}
  Pre = FALSE
  Faults = 0
  Guess = FALSE
  HandlerProcs = {}
  Serial = TRUE
  MaxLegacy = 1
  Fix = TRUE
  Spell = {"plain"}
  CaseFold = TRUE
  OnlyDelete = {}
  OnlyCreate = {}
  Deviate = {"legacyStatusIgnored"}
  DelFaults = FALSE
  CreateFaults = FALSE
  ReadFaults = FALSE
  TTLRollback = TRUE
  UpdFields = {"inactive", "expired"}
  LegStatus = {"active", "inactive", "expired", "revoked"}
  OnlyList = {}
  Emit = FALSE
INIT Init
NEXT Next
VIEW view
INVARIANTS TypeOK LegacyInactiveRejects
CHECK_DEADLOCK FALSE
