\* Documentation only (not run by the check; verified by hand): the design whose arrival path refuses tunnel ids the node remembers as ended (RejectSeenIds).
\* TLC reports ArriveExact violated: t1 registered on A, a target forwarded through B, the target goes away (B remembers t1),
\* t1 removed and registered again: the id waits, B refuses the target although the record is there (deviation "refusedReused").
CONSTANTS
  Nodes = {"A", "B", "C"}
  Tunnels = {"t1"}
  TTL = 1
  MaxReg = 2
  MaxClock = 1000
  MaxHist = 99
  Shapes = {"jsonString"}
  Mode = "arrive"
  LifecycleFirst = FALSE
  SkipLocalTarget = FALSE
  EvictingLookup = FALSE
  HonourContext = FALSE
  RejectSeenIds = TRUE
  RegisterBeforeExistsCheck = FALSE
  MaxDup = 0
  Emit = FALSE
  Only = "all"
INIT Init
NEXT Next
VIEW view
INVARIANTS TypeOK ArriveExact
CHECK_DEADLOCK FALSE
