\* C07 named deviation "closeNeedsCloud" (the behaviour class of seeded change C07-r3m1): RemoveControlConnection
\* notifies cloud control first and keeps the registry entry when the notification fails.  TLC must report
\* C07Inv violated (ClosedGone: a closed connection is still registered and looked up):
\*   FirstLogin(c1) ; Cloud(down) ; Close(c1).    The as-is model (Faults = {}) passes: Session_c07.cfg.
CONSTANTS
  Conn <- Conn2
  Client <- Client1
  MaxNonce = 2
  MaxFail = 3
  MaxCtl = 0
  Faults = {"closeNeedsCloud"}
  Ops = {"Accept", "FirstLogin", "Login", "Close", "Tick", "Cloud"}
  Types = {"control"}
  PreAccept = FALSE
  Fixes = {"oneIdentity", "atomicEvict"}
  Split = FALSE
  MaxLevel = 6
  Emit = "no"
INIT Init
NEXT Next
VIEW view
INVARIANTS TypeOK OnlyProven C07Inv C07One
CHECK_DEADLOCK FALSE
