\* C07 at the control-connection cap: ClientRegistry.maxConnections = 2, three connections.
\* Registering a third control connection (any handshake message on a connection that is not
\* registered yet) evicts the oldest one: no lookup may return it afterwards, its transport is
\* closed, counts go down.  Authenticated and unauthenticated (Knock) connections on both sides.
CONSTANTS
  Conn <- Conn3
  Client <- Client2
  MaxNonce = 2
  MaxFail = 3
  MaxCtl = 2
  Faults = {}
  Ops = {"Accept", "FirstLogin", "Login", "Knock", "Close", "Kick", "Unregister"}
  Types = {"control"}
  PreAccept = FALSE
  Fixes = @@FIXES@@
  Split = FALSE
  MaxLevel = @@LEVEL@@
  Emit = @@EMIT@@
INIT Init
NEXT Next
VIEW view
INVARIANTS TypeOK OnlyProven C07Inv C07One
CHECK_DEADLOCK FALSE
