\* X06 demonstration, EXPECTED TO FAIL: every deviation repaired except MultiResp
CONSTANTS
  Fix = {"ChunkedSmall", "Truncated", "MultiReq", "RedirectFollowed", "RespTruncated", "ChunkedRaw", "StuckKeepAlive"}
  Emit = FALSE
SPECIFICATION Spec
INVARIANTS TypeOK SameRequest SameResponse
CHECK_DEADLOCK FALSE
