\* C02 exhaustive safety check of the bridge with the limiter as the statement needs it
\* (DevLimiter = FALSE: waits are split into burst-sized pieces): the strict clauses hold.
CONSTANTS
  BUF = 3
  MaxSends = @@MAXS@@
  MaxSlow = 7
  Lims = {"tiny", "edge"}
  Classes = {"one", "Bm1", "B", "Bp1", "big"}
  Faults = TRUE
  Replace = @@REPL@@
  ExtCloseOn = TRUE
  DevLimiter = FALSE
  Gen = FALSE
  Emit = FALSE
INIT Init
NEXT Next
VIEW view
INVARIANTS TypeOK Prefix InOrder NoSpontaneousEnd Complete Independent ForgetImpliesClosed
CHECK_DEADLOCK FALSE
