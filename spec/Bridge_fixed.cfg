\* C02 exhaustive safety check of the bridge as the statement needs it: limiter waits split into
\* burst-sized pieces (DevLimiter = FALSE), the target forwarder taken once before the copiers start
\* (DevNilFwd = FALSE), a replaced source connection closed (DevStaleSrc = FALSE).  The strict
\* clauses hold, nothing is excused.
CONSTANTS
  BUF = 3
  MaxSends = @@MAXS@@
  MaxSlow = 5
  Lims = {"none", "tiny", "edge", "large"}
  Classes = @@CLS@@
  Faults = @@FAULTS@@
  Replace = @@REPL@@
  ExtCloseOn = TRUE
  DevLimiter = FALSE
  DevNilFwd = FALSE
  DevStaleSrc = FALSE
  DevSleepLimiter = FALSE
  DevWriteLock = FALSE
  DevRouteFirst = FALSE
  DevCleanupFirst = FALSE
  RegLegs = {}
  DevIdleSweep = FALSE
  DevFwdNoEof = FALSE
  SrcKinds = @@SK@@
  ErrClasses = @@EC@@
  PollOn = @@POLL@@
  RetryOn = {}
  RetryWriteOn = {}
  DevBufio = FALSE
  AttachKinds = @@AK@@
  HoldOn = @@HOLD@@
  Gen = FALSE
  Emit = FALSE
INIT Init
NEXT Next
VIEW view
INVARIANTS TypeOK Prefix InOrder NoSpontaneousEnd Complete Independent ForgetImpliesClosed NoCrash NoBusyLoop
CHECK_DEADLOCK FALSE
