\* (i) Bidirectional - behaviour generation by transition coverage: bhist is outside the VIEW,
\* every transition (state, action) of the state graph prints the shortest history reaching it
CONSTANTS
  MaxSend = @@MAXSEND@@
  EofWithData = TRUE
  ShapesA <- LocalShapes
  ShapesB <- @@SHAPESB@@
  DevDeadlineAt = "none"
  DevDeadlineHits = {"read"}
  Monitor = FALSE
  IdleMax = 2
  DevMonNoFeed = FALSE
  DevCloseWriterFallback = FALSE
  Emit = @@EMIT@@
  Classes = {1}
  BatchSize = 32
  BatchBuf = 22
  High = 100
  MaxT = 0
  MaxU = 0
  TSeqs <- TSmall
  USeqs <- USmall
  Cuts = "all"
  Chunks = {0}
  Paces = {"burst"}
  DevSpin = FALSE
  DevNoUnblock = FALSE
  DevAliasFlush = FALSE
  SockBatch = FALSE
  DevNoInnerFlush = FALSE
  SockQueue = FALSE
  DevQueueRefs = FALSE
  DevSockDeadline = FALSE
  DevDropOnClose = FALSE
INIT BInit
NEXT BNext
VIEW bview
INVARIANTS BTypeOK BPipe BComplete BReverseKeepsFlowing BNoSpuriousEnd BNoSpuriousWriteEnd BNoDeadline BMonitorOnlyIdle
CHECK_DEADLOCK FALSE
