\* Documentation only (not run by the check): CommandContext objects recycled through a pool when Execute returns
\* (class of seeded change C11-r2m3).  TLC reports EffIdIsAuth / ResponseToSender after <<D pa, T pa, D pb, R pa>>.
CONSTANTS
  Pooled = TRUE
  Dedupe = FALSE
  SameIds = {FALSE}
  Whos = {"vB:create", "vB:check", "c1:check"}
  Emit = FALSE
INIT Init
NEXT Next
INVARIANTS EffIdIsAuth ResponseToSender
CHECK_DEADLOCK FALSE
