--------------------------- MODULE SessionTraceReg ---------------------------
(* Property-level judge of C07 over traces recorded on the real server assembly: after every   *)
(* operation the logged projection of the registries must satisfy the statement literally.     *)
(* "Lookup returns nothing" is always acceptable (DESIGN.md Appendix B); nothing is demanded    *)
(* about when stale connections are swept.  Deterministic and total.                            *)
EXTENDS VLib

None == "none"

\* =========================================================================================
\* C07 - the server's view of control connections is consistent, one per client
\*
\* Events: Op: op, shape (input class of the step, used in details), optional fields
\*   okctl / oktun (connection whose control / tunnel type handshake just succeeded),
\*   closed (connection closed by this operation), unreg (connection turned into a tunnel),
\*   kicking (connection whose kick is being delivered while this projection is taken), kicked (its kick ended),
\*   proj [lookup: X -> [c, cid, authd]  (GetControlConnectionByClientID; c = "none": nothing),
\*         ilookup: the same for GetControlConnectionInterface (c = "none" only for a real nil interface),
\*         conns:  c -> [sess, reg, tun, authd, cid, tcl, info, cidof]   (per accepted connection: GetConnection,
\*                 GetControlConnection (+IsAuthenticated/GetClientID), tunnel registry, transport closed flag,
\*                 GetStreamConnectionInfo, GetClientIDByConnectionID),
\*         listed: sequence of connection names (ListAuthenticated),
\*         slist:  sequence of connection names (SessionManager.ListConnections),
\*         ctl, tun, total, count  (GetConnectionStats / GetActiveChannels)]
\* Par: like Op for a quiescent state after concurrent scripts; carries ctlset / closedset /
\*   loggedin explicitly instead of the incremental fields.
\* Judge state: ctlc (connections whose present authentication is control-type), gone (closed by
\* an operation), unr (turned into tunnels), regd (in the control registry at the previous step)
VARIABLES ctlc, gone, unr, regd
rvars == <<l, viol, ctlc, gone, unr, regd>>

Init == l = 1 /\ viol = {} /\ ctlc = {} /\ gone = {} /\ unr = {} /\ regd = {}

Opt(f) == IF f \in DOMAIN Ev THEN {Ev[f]} ELSE {}

\* the statement of C07, literally, on one projection
Check(p, D, cc, gn, un, rg) ==
  LET cs == DOMAIN p.conns
      xs == DOMAIN p.lookup
      ls == ToSet(p.listed)
      sl == ToSet(p.slist)
      hit(X) == p.lookup[X].c # None
      dead == {c \in cs : p.conns[c].tcl} \cup (gn \cap cs)
      \* soundness of one by-client lookup variant m (clause names prefixed with pre)
      Lk(m, pre) ==
           (IF \E X \in xs : m[X].c # None /\ m[X].cid # X THEN {V(pre \o "LookupOwner", D)} ELSE {})
        \cup (IF \E X \in xs : m[X].c # None /\ ~m[X].authd THEN {V(pre \o "LookupAuthenticated", D)} ELSE {})
        \cup (IF \E X \in xs : m[X].c # None /\ (m[X].c \notin cs \/ ~p.conns[m[X].c].sess \/ ~p.conns[m[X].c].reg
                                               \/ p.conns[m[X].c].tcl) THEN {V(pre \o "LookupLive", D)} ELSE {})
        \cup (IF \E c \in dead : \E X \in xs : m[X].c = c THEN {V(pre \o "ClosedStillLookedUp", D)} ELSE {})
        \* the connection returned is the registered one: looked up by its own id it is authenticated and bound to X as well
        \* (otherwise the index points at a superseded object of that connection id)
        \cup (IF \E X \in xs : m[X].c \in cs /\ p.conns[m[X].c].reg /\ ~(p.conns[m[X].c].authd /\ p.conns[m[X].c].cid = X)
              THEN {V(pre \o "LookupRegistered", D)} ELSE {})
  IN   Lk(p.lookup, "") \cup Lk(p.ilookup, "Iface")
  \cup (IF \E X \in xs : Cardinality({c \in cs : p.conns[c].reg /\ p.conns[c].authd /\ p.conns[c].cid = X
                                                  /\ (c \in cc \/ p.lookup[X].c = c)}) > 1 THEN {V("OnePerClient", D)} ELSE {})
  \cup (IF \E c \in dead : p.conns[c].reg \/ p.conns[c].tun \/ c \in ls \/ p.conns[c].cidof # None THEN {V("ClosedStillRegistered", D)} ELSE {})
  \cup (IF \E c \in dead : p.conns[c].sess \/ c \in sl \/ p.conns[c].info THEN {V("ClosedStillCounted", D)} ELSE {})
  \cup (IF \E c \in gn \cap cs : ~p.conns[c].tcl THEN {V("ClosedTransportOpen", D)} ELSE {})
  \cup (IF \E c \in (rg \cap cs) \ un : ~p.conns[c].reg /\ ~p.conns[c].tcl THEN {V("EvictedTransportOpen", D)} ELSE {})
  \cup (IF \E c \in (rg \cap cs) \ un : ~p.conns[c].reg /\ (p.conns[c].sess \/ c \in sl) THEN {V("EvictedStillCounted", D)} ELSE {})
  \cup (IF p.ctl # Cardinality({c \in cs : p.conns[c].reg}) \/ p.tun # Cardinality({c \in cs : p.conns[c].tun})
           \/ p.total # Cardinality({c \in cs : p.conns[c].sess}) \/ sl # {c \in cs : p.conns[c].sess} \/ p.count # p.ctl + p.tun THEN {V("Counts", D)} ELSE {})

\* a clause is reported once per trace, with the detail of the step at which it was first violated
\* (later projections of the same trace are consequences of the same defect)
First(vs) == {v \in vs : v.c \notin {w.c : w \in viol}}

TrOp ==
  /\ Is("Op")
  /\ LET p  == Ev.proj
         cc == ((ctlc \cup Opt("okctl")) \ Opt("oktun")) \cap {c \in DOMAIN p.conns : p.conns[c].reg}
         gn == gone \cup Opt("closed")
         un == unr \cup Opt("unreg")
         \* kicking: the eviction of this connection is in progress (its kick command is being delivered):
         \* "after it was evicted" begins when the operation ends (kicked: it has ended in this step)
         rg == (regd \cup Opt("kicked")) \ Opt("kicking")
     IN /\ viol' = viol \cup First(Check(p, Ev.op \o ":" \o Ev.shape, cc, gn, un, rg))
        /\ ctlc' = cc /\ gone' = gn /\ unr' = un
        /\ regd' = {c \in DOMAIN p.conns : p.conns[c].reg}
  /\ l' = l + 1

TrPar ==
  /\ Is("Par")
  /\ LET p == Ev.proj IN
     /\ viol' = viol \cup First(Check(p, "Par:" \o Ev.shape, ToSet(Ev.ctlset), ToSet(Ev.closedset), {}, ToSet(Ev.loggedin)))
     /\ ctlc' = ToSet(Ev.ctlset) /\ gone' = ToSet(Ev.closedset) /\ unr' = {}
     /\ regd' = {c \in DOMAIN p.conns : p.conns[c].reg}
  /\ l' = l + 1

TrEndReg == /\ Is("End") /\ EmitVerdict
            /\ l' = l + 1 /\ viol' = {} /\ ctlc' = {} /\ gone' = {} /\ unr' = {} /\ regd' = {}

Next == TrOp \/ TrPar \/ TrEndReg
=============================================================================
