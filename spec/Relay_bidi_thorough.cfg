\* (i) Bidirectional - exhaustive (thorough tier bounds): safety + liveness (weak fairness on the copiers and main)
\* bounds: each endpoint sends at most MaxSend payload units; every order of
\* send/half-close/close/error on both endpoints; all four CloseWrite-support combinations
CONSTANTS
  MaxSend = 2
  EofWithData = TRUE
  ShapesA <- LocalShapes
  ShapesB <- AllShapes
  DevDeadlineAt = "none"
  DevDeadlineHits = {"read"}
  Monitor = FALSE
  IdleMax = 2
  DevMonNoFeed = FALSE
  Reactive = FALSE
  DevNoSignalOnError = FALSE
  DevCloseWriterFallback = FALSE
  Emit = FALSE
  Classes = {1}
  BatchSize = 32
  BatchBuf = 22
  High = 100
  MaxT = 0
  MaxU = 0
  TSeqs <- TSmall
  USeqs <- USmall
  Cuts = "all"
  Chunks = {0}
  Paces = {"burst"}
  DevSpin = FALSE
  DevNoUnblock = FALSE
  DevAliasFlush = FALSE
  SockBatch = FALSE
  DevNoInnerFlush = FALSE
  SockQueue = FALSE
  DevQueueRefs = FALSE
  DevSockDeadline = FALSE
  DevDropOnClose = FALSE
SPECIFICATION BSpec
INVARIANTS BTypeOK BPipe BComplete BReverseKeepsFlowing BNoSpuriousEnd BNoSpuriousWriteEnd BNoDeadline BMonitorOnlyIdle BToldSafe
PROPERTIES BMonotone BTermination BReverseDelivered BTold
CHECK_DEADLOCK FALSE
