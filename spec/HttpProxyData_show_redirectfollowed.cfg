\* X06 demonstration, EXPECTED TO FAIL: every deviation repaired except RedirectFollowed
CONSTANTS
  Fix = {"ChunkedSmall", "Truncated", "MultiReq", "MultiResp", "RespTruncated", "ChunkedRaw", "StuckKeepAlive"}
  Emit = FALSE
SPECIFICATION Spec
INVARIANTS TypeOK SameRequest SameResponse
CHECK_DEADLOCK FALSE
