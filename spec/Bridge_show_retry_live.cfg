\* Documentation only (not run by the check): the copy loop's retry test looking at Timeout() only, against the
\* strict liveness clauses.  TLC reports a lasso: an end fails for good with an error that says Timeout(), the other
\* end is idle - no copier ever ends, closeBridge is never called, the other end never sees the closure, Start never
\* returns and the tunnel is never forgotten.
CONSTANTS
  BUF = 3
  MaxSends = 1
  MaxSlow = 5
  Lims = {"none"}
  Classes = {"one"}
  Faults = FALSE
  Replace = FALSE
  ExtCloseOn = FALSE
  DevLimiter = TRUE
  DevNilFwd = FALSE
  DevStaleSrc = TRUE
  DevSleepLimiter = FALSE
  DevWriteLock = FALSE
  DevRouteFirst = FALSE
  DevCleanupFirst = FALSE
  RegLegs = {}
  DevIdleSweep = FALSE
  DevFwdNoEof = FALSE
  SrcKinds = {"direct"}
  ErrClasses = {"tmo"}
  PollOn = FALSE
  RetryOn = {"tmo"}
  RetryWriteOn = {}
  DevBufio = FALSE
  AttachKinds = {"local"}
  HoldOn = FALSE
  Gen = FALSE
  Emit = FALSE
SPECIFICATION LiveSpec
VIEW view
INVARIANTS TypeOK
PROPERTIES ClosureSeen Forgotten
CHECK_DEADLOCK FALSE
