------------------------------ MODULE MemImpl ------------------------------
(* C13 - implementation-shaped model of the in-memory backend                                *)
(* (internal/core/storage/memory: one map key -> {Value, Expiration}, Expiration zero = never, *)
(* lazy expiry on access + periodic CleanupExpired), transcribed operation by operation, and   *)
(* checked for refinement of the reference KVRef: for every reachable map and every operation  *)
(* the answer and the resulting abstract store equal the reference's.                          *)
(* Constants OldCAS / OldSetExp select the code as it was before the repairs recorded in       *)
(* known_findings.json (0513ecc, 680debd): with them TLC reports the refinement violation.     *)
EXTENDS KVRef

CONSTANTS Keys, Vals, MaxClock, OldCAS, OldSetExp
VARIABLES data, clock, ref      \* ref = the reference store driven by the same operations
vars == <<data, clock, ref>>

Ops == (IF \E k \in Keys : KeyType(k) = "str"  THEN StrOps({k \in Keys : KeyType(k) = "str"}, Vals) ELSE {})
  \cup (IF \E k \in Keys : KeyType(k) = "list" THEN ListOps({k \in Keys : KeyType(k) = "list"}, Vals) ELSE {})
  \cup (IF \E k \in Keys : KeyType(k) = "hash" THEN HashOps({k \in Keys : KeyType(k) = "hash"}, Vals) ELSE {})
  \cup (IF \E k \in Keys : KeyType(k) = "ctr"  THEN CtrOps({k \in Keys : KeyType(k) = "ctr"}) ELSE {})

\* item = [p |-> in map, v, exp]; "time.Now().After(Expiration)" with a zero Expiration:
Expired(it, now) == it.exp # 0 /\ now >= it.exp              \* !IsZero() && Now.After(exp)
NaiveExpired(it, now) == now >= it.exp                        \* Now.After(exp) without the IsZero test (old CAS)
Exp(ttl, now) == IF ttl = "0" THEN 0 ELSE E(ttl, now)         \* ttl <= 0 -> zero time
DefaultTTL == FAR                                                    \* constants.DefaultDataTTL

MemApply(d, now, o) ==
  LET k == o.k  it == d[k]
      put(v, exp) == [d EXCEPT ![k] = [p |-> TRUE, v |-> v, exp |-> exp]]
      del == [d EXCEPT ![k] = NoneOf(k)]
      gone == ~it.p \/ Expired(it, now)
  IN CASE o.op = "Set"     -> [st |-> put(o.v, Exp(o.ttl, now)), res |-> OKR]
       [] o.op = "Get"     -> [st |-> d, res |-> IF gone THEN NF ELSE R("val", it.v)]
       [] o.op = "Delete"  -> [st |-> del, res |-> OKR]
       [] o.op = "Exists"  -> [st |-> d, res |-> R("bool", ~gone)]
       [] o.op = "SetNX"   -> IF it.p /\ ~Expired(it, now) THEN [st |-> d, res |-> R("bool", FALSE)]
                              ELSE [st |-> put(o.v, Exp(o.ttl, now)), res |-> R("bool", TRUE)]
       [] o.op = "CAS"     ->
            IF OldCAS
            THEN IF ~it.p THEN (IF o.old = "nil" THEN [st |-> put(o.v, IF o.ttl = "0" THEN now ELSE E(o.ttl, now)), res |-> R("bool", TRUE)]
                                ELSE [st |-> d, res |-> R("bool", FALSE)])
                 ELSE IF NaiveExpired(it, now)
                      THEN (IF o.old = "nil" THEN [st |-> put(o.v, IF o.ttl = "0" THEN now ELSE E(o.ttl, now)), res |-> R("bool", TRUE)]
                            ELSE [st |-> del, res |-> R("bool", FALSE)])
                 ELSE IF it.v # o.old THEN [st |-> d, res |-> R("bool", FALSE)]
                 ELSE [st |-> put(o.v, IF o.ttl = "0" THEN now ELSE E(o.ttl, now)), res |-> R("bool", TRUE)]
            ELSE IF gone THEN (IF o.old = "nil" THEN [st |-> put(o.v, Exp(o.ttl, now)), res |-> R("bool", TRUE)]
                               ELSE [st |-> del, res |-> R("bool", FALSE)])
                 ELSE IF it.v # o.old THEN [st |-> d, res |-> R("bool", FALSE)]
                 ELSE [st |-> put(o.v, Exp(o.ttl, now)), res |-> R("bool", TRUE)]
       [] o.op = "SetExp"  ->
            IF OldSetExp
            THEN IF ~it.p THEN [st |-> d, res |-> NF]
                 ELSE [st |-> put(it.v, IF o.ttl = "0" THEN now ELSE E(o.ttl, now)), res |-> OKR]
            ELSE IF gone THEN [st |-> del, res |-> NF]
                 ELSE [st |-> put(it.v, Exp(o.ttl, now)), res |-> OKR]
       [] o.op = "GetExp"  -> IF gone THEN [st |-> del, res |-> NF]
                              ELSE [st |-> d, res |-> R("ttl", TtlClass(it, now))]
       [] o.op = "SetList" -> [st |-> put(o.vs, Exp(o.ttl, now)), res |-> OKR]
       [] o.op = "GetList" -> [st |-> d, res |-> R("list", IF gone THEN <<>> ELSE it.v)]
       [] o.op = "Append"  -> IF gone THEN [st |-> put(<<o.v>>, DefaultTTL), res |-> OKR]
                              ELSE [st |-> put(Append(it.v, o.v), it.exp), res |-> OKR]
       [] o.op = "Remove"  -> IF ~it.p THEN [st |-> d, res |-> OKR]
                              ELSE IF Expired(it, now) THEN [st |-> del, res |-> OKR]
                              ELSE [st |-> put(RemoveAll(it.v, o.v), it.exp), res |-> OKR]
       [] o.op = "SetHash" -> IF gone THEN [st |-> put(HSet(<<>>, o.f, o.v), DefaultTTL), res |-> OKR]
                              ELSE [st |-> put(HSet(it.v, o.f, o.v), it.exp), res |-> OKR]
       [] o.op = "GetHash" -> IF gone THEN [st |-> (IF it.p THEN del ELSE d), res |-> NF]
                              ELSE [st |-> d, res |-> IF o.f \in DOMAIN it.v THEN R("val", it.v[o.f]) ELSE NF]
       [] o.op = "GetAllHash" -> IF gone THEN [st |-> (IF it.p THEN del ELSE d), res |-> R("pairs", <<>>)]
                                 ELSE [st |-> d, res |-> R("pairs", Pairs(it.v))]
       [] o.op = "DelHash" -> IF ~it.p THEN [st |-> d, res |-> OKR]
                              ELSE IF Expired(it, now) THEN [st |-> del, res |-> OKR]
                              ELSE [st |-> put(HDel(it.v, o.f), it.exp), res |-> OKR]
       [] o.op = "IncrBy"  -> IF gone THEN [st |-> put(o.n, DefaultTTL), res |-> R("int", o.n)]
                              ELSE [st |-> put(it.v + o.n, it.exp), res |-> R("int", it.v + o.n)]

Init == data = [k \in Keys |-> NoneOf(k)] /\ ref = [k \in Keys |-> NoneOf(k)] /\ clock = 0

Small(st) == \A k \in Keys : /\ KeyType(k) = "list" => Len(st[k].v) <= 3
                             /\ KeyType(k) = "ctr"  => st[k].v <= 4
DoOp(o) == LET m == MemApply(data, clock, o)  r == Apply(ref, clock, o)
           IN Small(r.st) /\ data' = m.st /\ ref' = r.st /\ clock' = clock
Tick == clock < MaxClock /\ clock' = clock + 1 /\ UNCHANGED <<data, ref>>
Cleanup == /\ data' = [k \in Keys |-> IF data[k].p /\ Expired(data[k], clock) THEN NoneOf(k) ELSE data[k]]
           /\ UNCHANGED <<ref, clock>>
Next == Tick \/ Cleanup \/ \E o \in Ops : DoOp(o)
Spec == Init /\ [][Next]_vars

\* ---- refinement: the map, read through "expired = absent", is the reference store -------
AbsEq(k) == LET a == data[k]  b == ref[k]
                la == a.p /\ ~Expired(a, clock)  lb == Live(b, clock)
            IN la = lb /\ (la => (a.v = b.v /\ TtlClass(a, clock) = TtlClass(b, clock)))
StoresAgree == \A k \in Keys : AbsEq(k)
AnswersAgree == \A o \in Ops : Same(o, Apply(ref, clock, o).res, MemApply(data, clock, o).res)
=============================================================================
