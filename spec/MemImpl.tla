------------------------------ MODULE MemImpl ------------------------------
(* C13 - implementation-shaped model of the in-memory backend                                *)
(* (internal/core/storage/memory: one map key -> *{Value, Expiration} behind one RWMutex,      *)
(* Expiration zero = never, lazy expiry on access + CleanupExpired, explicit or from the       *)
(* StartCleanup ticker goroutine), transcribed CRITICAL SECTION by critical section, and       *)
(* checked for refinement of the reference KVRef: in every reachable state - also between two   *)
(* sections of a caller or of the sweep - the map read through "expired = absent" is the        *)
(* reference store, and every operation would get the reference's answer.                      *)
(*                                                                                            *)
(* Processes:                                                                                  *)
(*  - clients Procs: every operation is ONE section (it holds m.mu for its whole body) except  *)
(*    GetExpiration / GetHash / GetAllHash, which answer under the read lock (section 1 - the  *)
(*    linearization point) and, when they found the entry expired, come back under the write   *)
(*    lock to evict it (section 2, RdEvict: look the key up again, evict only if still expired);*)
(*  - sweepers Sweepers: "ex" = a caller of CleanupExpired (cleanup manager, hybrid storage,    *)
(*    typed adapter), "bg" = the goroutine of StartCleanup (runs only while the ticker is on:   *)
(*    tk = cleanupRunning; StopCleanup does not interrupt a sweep that has begun).             *)
(*    The sweep is NOT an operation of the key-value model: the reference does not move.       *)
(* Redis has no sweep (CleanupExpired is `return nil`, the server expires keys itself): on that *)
(* backend the step is the identity, which is what KVRef!Apply gives "Sweep" on every backend.  *)
(*                                                                                            *)
(* Named deviations (constants; `MemImpl_show_*.cfg` make TLC exhibit each one):               *)
(*  Sweep = "locked"         as-is: one write-locked section, test and delete together          *)
(*          "scan_recheck"   two sections (scan under RLock, delete under Lock) that test each  *)
(*                           recorded key again before deleting - correct; it is also the finest*)
(*                           schedule structure a sweep can have, so the generator uses it      *)
(*          "scan_norecheck" two sections, recorded keys deleted BY NAME (seeded C13-r4m1):     *)
(*                           a write acknowledged between the sections is erased                *)
(*          "scan_ptr"       two sections, deleted if the map still holds the scanned OBJECT:   *)
(*                           wrong for the operations that re-initialise an expired item in     *)
(*                           place (SetHash, IncrBy)                                            *)
(*          "naive"          one section, but Now.After(exp) without the IsZero test: sweeps    *)
(*                           never-expiring entries                                             *)
(*          "any"            generator: a sweep is either "locked" or "scan_recheck"             *)
(*  Evict = "recheck" as-is | "norecheck": section 2 of the evicting reads deletes by name      *)
(*                           (seeded C13-r2m1)                                                  *)
(*  LazyReads = FALSE as-is | TRUE: Get / Exists / GetList evict too (lazy deletion on every     *)
(*                           read path) - harmless with Evict = "recheck", not with "norecheck"  *)
(*  OldCAS / OldSetExp       the code before the repairs 0513ecc / 680debd (known_findings.json) *)
EXTENDS KVRef, Json

CONSTANTS Keys, Vals, MaxClock, OldCAS, OldSetExp,
          Procs, Sweepers, Sweep, Evict, LazyReads, Emit
VARIABLES data,    \* the map m.data
          clock,
          ref,     \* the reference store driven by the same operations (at their linearization points)
          pc,      \* client p: [at |-> "idle" | "evict", k]   (between the two sections of an evicting read)
          sw,      \* sweeper s: [at |-> "idle" | "del", vic (keys recorded by the scan), moved (recorded keys whose map slot no longer holds the scanned object)]
          tk,      \* cleanupRunning: the ticker goroutine exists
          hist     \* generator only (Emit): the steps so far
vars == <<data, clock, ref, pc, sw, tk, hist>>
view == <<data, clock, ref, pc, sw, tk>>

Ops == (IF \E k \in Keys : KeyType(k) = "str"  THEN StrOps({k \in Keys : KeyType(k) = "str"}, Vals) ELSE {})
  \cup (IF \E k \in Keys : KeyType(k) = "list" THEN ListOps({k \in Keys : KeyType(k) = "list"}, Vals) ELSE {})
  \cup (IF \E k \in Keys : KeyType(k) = "hash" THEN HashOps({k \in Keys : KeyType(k) = "hash"}, Vals) ELSE {})
  \cup (IF \E k \in Keys : KeyType(k) = "ctr"  THEN CtrOps({k \in Keys : KeyType(k) = "ctr"}) ELSE {})

\* item = [p |-> in map, v, exp]; "time.Now().After(Expiration)" with a zero Expiration:
Expired(it, now) == it.exp # 0 /\ now >= it.exp              \* !IsZero() && Now.After(exp)
NaiveExpired(it, now) == now >= it.exp                        \* Now.After(exp) without the IsZero test (old CAS, naive sweep)
Exp(ttl, now) == IF ttl = "0" THEN 0 ELSE E(ttl, now)         \* ttl <= 0 -> zero time
DefaultTTL == FAR                                                    \* constants.DefaultDataTTL

\* read operations that come back under the write lock to evict an entry they found expired
EvictOps == {"GetExp", "GetHash", "GetAllHash"} \cup (IF LazyReads THEN {"Get", "Exists", "GetList"} ELSE {})

\* ---- one critical section of a client: what it does to the map and what it answers ----------
\* (for the evicting reads this is section 1: the answer; the map is untouched)
MemApply(d, now, o) ==
  LET k == o.k  it == d[k]
      put(v, exp) == [d EXCEPT ![k] = [p |-> TRUE, v |-> v, exp |-> exp]]
      del == [d EXCEPT ![k] = NoneOf(k)]
      gone == ~it.p \/ Expired(it, now)
  IN CASE o.op = "Set"     -> [st |-> put(o.v, Exp(o.ttl, now)), res |-> OKR]
       [] o.op = "Get"     -> [st |-> d, res |-> IF gone THEN NF ELSE R("val", it.v)]
       [] o.op = "Delete"  -> [st |-> del, res |-> OKR]
       [] o.op = "Exists"  -> [st |-> d, res |-> R("bool", ~gone)]
       [] o.op = "SetNX"   -> IF it.p /\ ~Expired(it, now) THEN [st |-> d, res |-> R("bool", FALSE)]
                              ELSE [st |-> put(o.v, Exp(o.ttl, now)), res |-> R("bool", TRUE)]
       [] o.op = "CAS"     ->
            IF OldCAS
            THEN IF ~it.p THEN (IF o.old = "nil" THEN [st |-> put(o.v, IF o.ttl = "0" THEN now ELSE E(o.ttl, now)), res |-> R("bool", TRUE)]
                                ELSE [st |-> d, res |-> R("bool", FALSE)])
                 ELSE IF NaiveExpired(it, now)
                      THEN (IF o.old = "nil" THEN [st |-> put(o.v, IF o.ttl = "0" THEN now ELSE E(o.ttl, now)), res |-> R("bool", TRUE)]
                            ELSE [st |-> del, res |-> R("bool", FALSE)])
                 ELSE IF it.v # o.old THEN [st |-> d, res |-> R("bool", FALSE)]
                 ELSE [st |-> put(o.v, IF o.ttl = "0" THEN now ELSE E(o.ttl, now)), res |-> R("bool", TRUE)]
            ELSE IF gone THEN (IF o.old = "nil" THEN [st |-> put(o.v, Exp(o.ttl, now)), res |-> R("bool", TRUE)]
                               ELSE [st |-> del, res |-> R("bool", FALSE)])
                 ELSE IF it.v # o.old THEN [st |-> d, res |-> R("bool", FALSE)]
                 ELSE [st |-> put(o.v, Exp(o.ttl, now)), res |-> R("bool", TRUE)]
       [] o.op = "SetExp"  ->
            IF OldSetExp
            THEN IF ~it.p THEN [st |-> d, res |-> NF]
                 ELSE [st |-> put(it.v, IF o.ttl = "0" THEN now ELSE E(o.ttl, now)), res |-> OKR]
            ELSE IF gone THEN [st |-> del, res |-> NF]
                 ELSE [st |-> put(it.v, Exp(o.ttl, now)), res |-> OKR]
       [] o.op = "GetExp"  -> [st |-> d, res |-> IF gone THEN NF ELSE R("ttl", TtlClass(it, now))]
       [] o.op = "SetList" -> [st |-> put(o.vs, Exp(o.ttl, now)), res |-> OKR]
       [] o.op = "GetList" -> [st |-> d, res |-> R("list", IF gone THEN <<>> ELSE it.v)]
       [] o.op = "Append"  -> IF gone THEN [st |-> put(<<o.v>>, DefaultTTL), res |-> OKR]
                              ELSE [st |-> put(Append(it.v, o.v), it.exp), res |-> OKR]
       [] o.op = "Remove"  -> IF ~it.p THEN [st |-> d, res |-> OKR]
                              ELSE IF Expired(it, now) THEN [st |-> del, res |-> OKR]
                              ELSE [st |-> put(RemoveAll(it.v, o.v), it.exp), res |-> OKR]
       [] o.op = "SetHash" -> IF gone THEN [st |-> put(HSet(<<>>, o.f, o.v), DefaultTTL), res |-> OKR]
                              ELSE [st |-> put(HSet(it.v, o.f, o.v), it.exp), res |-> OKR]
       [] o.op = "GetHash" -> [st |-> d, res |-> IF gone THEN NF ELSE IF o.f \in DOMAIN it.v THEN R("val", it.v[o.f]) ELSE NF]
       [] o.op = "GetAllHash" -> [st |-> d, res |-> R("pairs", IF gone THEN <<>> ELSE Pairs(it.v))]
       [] o.op = "DelHash" -> IF ~it.p THEN [st |-> d, res |-> OKR]
                              ELSE IF Expired(it, now) THEN [st |-> del, res |-> OKR]
                              ELSE [st |-> put(HDel(it.v, o.f), it.exp), res |-> OKR]
       [] o.op = "IncrBy"  -> IF gone THEN [st |-> put(o.n, DefaultTTL), res |-> R("int", o.n)]
                              ELSE [st |-> put(it.v + o.n, it.exp), res |-> R("int", it.v + o.n)]

\* does the map slot of o.k still hold the SAME *StorageItem after the section?  (only the
\* "scan_ptr" sweep asks; SetHash and IncrBy re-initialise an expired item in place, every other
\* operation that meets an expired item deletes it or installs a new one)
KeepsObj(it, now, o) ==
  LET live == it.p /\ ~Expired(it, now)
  IN CASE o.op \in {"Get", "Exists", "GetList", "GetExp", "GetHash", "GetAllHash"} -> TRUE
       [] o.op \in {"Set", "SetList", "Delete"} -> FALSE
       [] o.op \in {"SetHash", "IncrBy"} -> it.p
       [] OTHER -> live      \* SetNX (refused) / CAS / Append / Remove / DelHash / SetExp on a live item: in place or untouched

Idle == [at |-> "idle", k |-> ""]
SwIdle == [at |-> "idle", vic |-> {}, moved |-> {}]
Track == Sweep = "scan_ptr"
\* keys K lost their object: tell every sweeper that recorded them
Moved(K) == [s \in Sweepers |-> IF Track THEN [sw[s] EXCEPT !.moved = @ \cup (K \cap sw[s].vic)] ELSE sw[s]]

Init == /\ data = [k \in Keys |-> NoneOf(k)] /\ ref = [k \in Keys |-> NoneOf(k)] /\ clock = 0
        /\ pc = [p \in Procs |-> Idle] /\ sw = [s \in Sweepers |-> SwIdle] /\ tk = FALSE /\ hist = <<>>

Small(st) == \A k \in Keys : /\ KeyType(k) = "list" => Len(st[k].v) <= 3
                             /\ KeyType(k) = "ctr"  => st[k].v <= 4

Rec(x) == IF Emit THEN Append(hist, x) ELSE hist
Out(h, want) == IF Emit /\ want THEN PrintT("BEH " \o ToJson(h)) ELSE TRUE
SweepInFlight == \E s \in Sweepers : sw[s].at = "del"

\* ---- clients ---------------------------------------------------------------------------------
DoOp(p, o) ==
  /\ pc[p].at = "idle"
  /\ LET m == MemApply(data, clock, o)  r == Apply(ref, clock, o)
         ev == o.op \in EvictOps /\ data[o.k].p /\ Expired(data[o.k], clock)
     IN /\ Small(r.st) /\ data' = m.st /\ ref' = r.st
        /\ pc' = [pc EXCEPT ![p] = IF ev THEN [at |-> "evict", k |-> o.k] ELSE Idle]
        /\ sw' = IF KeepsObj(data[o.k], clock, o) THEN sw ELSE Moved({o.k})
        /\ hist' = Rec(o @@ [exp |-> r.res, p |-> p])
        \* generator: an operation that lands while a sweep is between its scan and its delete
        /\ Out(hist', SweepInFlight)
  /\ UNCHANGED <<clock, tk>>

\* section 2 of GetExpiration / GetHash / GetAllHash on an entry found expired in section 1
RdEvict(p) ==
  /\ pc[p].at = "evict"
  /\ LET k == pc[p].k  it == data[k]
         del == IF Evict = "recheck" THEN it.p /\ Expired(it, clock) ELSE TRUE
     IN /\ data' = IF del THEN [data EXCEPT ![k] = NoneOf(k)] ELSE data
        /\ sw' = IF del THEN Moved({k}) ELSE sw
  /\ pc' = [pc EXCEPT ![p] = Idle]
  /\ hist' = Rec([op |-> "Evict", p |-> p])
  /\ UNCHANGED <<clock, ref, tk>>

\* ---- the sweep ---------------------------------------------------------------------------------
CanRun(s) == s # "bg" \/ tk
\* CleanupExpired as it is: everything under one write lock
SweepLocked(s) ==
  /\ Sweep \in {"locked", "naive", "any"} /\ sw[s].at = "idle" /\ CanRun(s)
  /\ LET dead == {k \in Keys : data[k].p /\ (IF Sweep = "naive" THEN NaiveExpired(data[k], clock) ELSE Expired(data[k], clock))}
     IN data' = [k \in Keys |-> IF k \in dead THEN NoneOf(k) ELSE data[k]]
  /\ hist' = Rec([op |-> "Sweep", s |-> s])
  /\ Out(hist', TRUE)
  /\ UNCHANGED <<clock, ref, pc, sw, tk>>
\* the two-section variants: scan under the read lock ...
SweepScan(s) ==
  /\ Sweep \in {"scan_recheck", "scan_norecheck", "scan_ptr", "any"} /\ sw[s].at = "idle" /\ CanRun(s)
  /\ LET vic == {k \in Keys : data[k].p /\ Expired(data[k], clock)}
     IN /\ vic # {}                               \* nothing recorded: the sweep returns
        /\ sw' = [sw EXCEPT ![s] = [at |-> "del", vic |-> vic, moved |-> {}]]
  /\ hist' = Rec([op |-> "SweepScan", s |-> s])
  /\ UNCHANGED <<data, clock, ref, pc, tk>>
\* ... delete under the write lock
SweepDel(s) ==
  /\ sw[s].at = "del"
  /\ LET del(k) == CASE Sweep = "scan_norecheck" -> TRUE
                     [] Sweep \in {"scan_recheck", "any"} -> data[k].p /\ Expired(data[k], clock)
                     [] Sweep = "scan_ptr"       -> data[k].p /\ k \notin sw[s].moved
         dead == {k \in sw[s].vic : del(k)}
     IN /\ data' = [k \in Keys |-> IF k \in dead THEN NoneOf(k) ELSE data[k]]
        /\ sw' = [Moved(dead) EXCEPT ![s] = SwIdle]
  /\ hist' = Rec([op |-> "SweepDel", s |-> s])
  /\ UNCHANGED <<clock, ref, pc, tk>>
\* StartCleanup / StopCleanup: at most one ticker goroutine (cleanupRunning)
StartCleanup == "bg" \in Sweepers /\ ~tk /\ tk' = TRUE  /\ hist' = Rec([op |-> "StartCleanup"]) /\ UNCHANGED <<data, clock, ref, pc, sw>>
StopCleanup  == "bg" \in Sweepers /\ tk  /\ tk' = FALSE /\ hist' = Rec([op |-> "StopCleanup"])  /\ UNCHANGED <<data, clock, ref, pc, sw>>

Tick == clock < MaxClock /\ clock' = clock + 1 /\ hist' = Rec([op |-> "Tick"]) /\ UNCHANGED <<data, ref, pc, sw, tk>>

Silent == \/ \E p \in Procs : RdEvict(p)
          \/ \E s \in Sweepers : SweepLocked(s) \/ SweepScan(s) \/ SweepDel(s)
          \/ StartCleanup \/ StopCleanup
Next == Tick \/ Silent \/ \E p \in Procs, o \in Ops : DoOp(p, o)
Spec == Init /\ [][Next]_vars

\* ---- refinement: the map, read through "expired = absent", is the reference store -------
AbsEq(k) == LET a == data[k]  b == ref[k]
                la == a.p /\ ~Expired(a, clock)  lb == Live(b, clock)
            IN la = lb /\ (la => (a.v = b.v /\ TtlClass(a, clock) = TtlClass(b, clock)))
StoresAgree == \A k \in Keys : AbsEq(k)
AnswersAgree == \A o \in Ops : Same(o, Apply(ref, clock, o).res, MemApply(data, clock, o).res)

\* the clause the sweep deviations break, in the statement's words: an acknowledged write of a
\* never-expiring value stays in the map until a Delete / overwrite (the reference moves only then)
NeverExpiringStays == \A k \in Keys : (ref[k].p /\ ref[k].exp = 0) => (data[k].p /\ data[k].exp = 0 /\ data[k].v = ref[k].v)

\* a step that is not an operation (second section of a read, any section of the sweep, the ticker
\* switch) removes only entries that are expired at the instant of removal, and changes nothing else
Abs(d, now, k) == IF d[k].p /\ ~Expired(d[k], now) THEN d[k] ELSE NoneOf(k)
SilentInvisible == [][Silent => \A k \in Keys : Abs(data', clock, k) = Abs(data, clock, k)]_vars

TypeOK == /\ clock \in 0..MaxClock /\ tk \in BOOLEAN
          /\ \A k \in Keys : data[k].p \in BOOLEAN /\ data[k].exp \in Nat
          /\ \A p \in Procs : pc[p].at \in {"idle", "evict"} /\ (pc[p].at = "evict" => pc[p].k \in Keys)
          /\ \A s \in Sweepers : sw[s].at \in {"idle", "del"} /\ sw[s].moved \subseteq sw[s].vic /\ sw[s].vic \subseteq Keys
=============================================================================
