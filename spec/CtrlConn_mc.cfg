\* X05 exhaustive check of the implementation-shaped model of the client's control-connection life cycle
\* (template: the @@..@@ fields are filled in by harness/drivers/x05; one TLC run explores all scenes of SCENES).
\*   mc:fixed  Fixed = TRUE   INVS = OneLive NoOrphan Served OneReconnector NoSpurious StopClean NoDeviation   (the repaired design)
\*   mc:asis   Fixed = FALSE  INVS = OneLiveOrDev NoOrphanOrDev ServedOrDev OneReconnector OneReadLoop NoSpuriousOrDev StopCleanOrDev
\*             (the code as found: every breach is explained by a named deviation)
\*   mc:live   SPEC = FairSpec, PROPS = Recovers Terminates (liveness of the repaired design; scenes without Reconnect, see the module header)
\* Scenes (quick): "api"  two users, all four calls, two calls, one drop / dial failure / refused handshake
\*                 "env"  one user call, one drop, failure, refusal, heart-beat tick, kick, silent server
\*                 "cold" the first Connect is part of the behaviour
CONSTANTS
  Users = {"u1", "u2"}
  MaxConn = @@MAXCONN@@
  Scenes <- @@SCENES@@
  RejKinds = @@REJKINDS@@
  MaxAttempts = @@MAXATT@@
  Fixed = @@FIXED@@
  Emit = FALSE
SPECIFICATION @@SPEC@@
VIEW view
INVARIANTS TypeOK @@INVS@@
PROPERTIES @@QPROPS@@ @@PROPS@@
CHECK_DEADLOCK FALSE
