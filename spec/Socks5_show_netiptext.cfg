\* C20, named deviation NetipText on the UDP path (seeded change r5m3): parseUDPHeader prints addresses with net/netip,
\* buildUDPHeader still classifies the text with net.ParseIP(..).To4().  Everything else conforms.  TLC must report
\* @@INV@@ violated: for the datagram 00 00 00 04 <::ffff:8.8.4.4> 00 35 the first parse hands on the IPv6 text, the
\* re-encoded header is ATYP=1 8.8.4.4 and the second parse hands on the dotted quad - another destination string.
\*   INV = ImplRoundTrip  the implementation's own parse . build . parse, stated in the model
\*   INV = JudgeQuiet     the judge's clause set (Socks5Ref!UdpViol: RoundTrip) on the model's observation
\*   INV = NoDev          the ghost flag of the named deviation
CONSTANTS
  Emit = FALSE
  Profiles = {}
  Greedy = {}
  UdpMinLen = 7
  Full = FALSE
  DLens = {0, 1, 2, 7, 255}
  Chunkings = {"all"}
  CutChunkings = {"all"}
  WithUdp = TRUE
  PlainJoin = {}
  NetipText = {"udp"}
  ValClasses = TRUE
INIT Init
NEXT Next
INVARIANTS TypeOK @@INV@@
CHECK_DEADLOCK TRUE
