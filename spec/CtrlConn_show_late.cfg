\* X05 demonstration, EXPECTED TO FAIL: the code as found (Fixed = FALSE) against the strict property - TLC prints the schedule.
\* LateInstall: Stop between the return of the dial and the installation of the connection (NoLateInstall; the consequence: StopClean)
CONSTANTS
  Users = {"u1", "u2"}
  MaxConn = 3
  Scenes <- McQuick
  RejKinds = {"other"}
  MaxAttempts = 0
  Fixed = FALSE
  Emit = FALSE
SPECIFICATION Spec
VIEW view
INVARIANTS TypeOK NoLateInstall

CHECK_DEADLOCK FALSE
