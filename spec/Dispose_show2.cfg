\* C16, documentation run (not part of ./check): all hypothetical designs one careless edit away from the code
\* (Suite "show2") together against the STRICT property; TLC stops at the first violation it meets.  One design at a
\* time: Dispose_show_<design>.cfg (splitlatch, casfirst, snapclose, unbuf, lazyorder, claim, claim_fault, notifyto, finto).  TLC reports "Invariant AtMostOnce is violated" for the split latch
\* (c1.LatchLoad c2.LatchLoad c1.LatchStore .. c2.LatchStore: every handler runs twice); with AtMostOnce removed it
\* reports LeakFree for Start doing its CAS before SetCtx (start.StartCas x1.Load x1.Cas .. start.SetCtx start.Spawn)
\* and for the unbuffered result channel of DisposeWithTimeout (tw.Timeout .. hlp.Send), and ConnOnce for
\* Bridge.Close closing its connections outside the locks (x1.Close x2.Close x1.CloseConn:s x2.CloseConn:s).
CONSTANTS
  Suite = "show2"
  Emit = FALSE
INIT Init
NEXT Next
VIEW view
INVARIANTS TypeOK AtMostOnce LeakFree ConnOnce StoredExact
CHECK_DEADLOCK FALSE
