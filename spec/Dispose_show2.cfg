\* C16, documentation run (not part of ./check): the two hypothetical designs one careless edit away from the code
\* (Suite "show2") against the STRICT property.  TLC reports "Invariant AtMostOnce is violated" for the split latch
\* (c1.LatchLoad c2.LatchLoad c1.LatchStore .. c2.LatchStore: every handler runs twice); with AtMostOnce removed it
\* reports LeakFree for Start doing its CAS before SetCtx (start.StartCas x1.Load x1.Cas .. start.SetCtx start.Spawn)
\* and for the unbuffered result channel of DisposeWithTimeout (tw.Timeout .. hlp.Send), and ConnOnce for
\* Bridge.Close closing its connections outside the locks (x1.Close x2.Close x1.CloseConn:s x2.CloseConn:s).
CONSTANTS
  Suite = "show2"
  Emit = FALSE
INIT Init
NEXT Next
VIEW view
INVARIANTS TypeOK AtMostOnce LeakFree ConnOnce
CHECK_DEADLOCK FALSE
