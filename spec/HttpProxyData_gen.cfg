\* X06 generation of data-path behaviours: one per (request class, answer class); the path is the one the model takes
\* with the given set of repairs (the driver lets the code choose and reports a different choice as a divergence).
CONSTANTS
  Fix = @@FIX@@
  Emit = TRUE
SPECIFICATION Spec
INVARIANTS TypeOK
CHECK_DEADLOCK FALSE
