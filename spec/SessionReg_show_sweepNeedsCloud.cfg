\* C07 named deviation "sweepNeedsCloud" (sweep-side twin of "closeNeedsCloud" / seeded change C07-r3m1):
\* the callback of the heartbeat-timeout sweep returns without CloseConnection when the cloud-control offline
\* notification fails: the evicted connection keeps its SessionManager entry (counts do not return).
\* TLC must report SweepComplete violated: FirstLogin(c1) ; Cloud(down) ; Tick({}).
\* The as-is model (Faults = {}) passes: SessionReg_sweep.cfg.
CONSTANTS
  Conn <- Conn2
  Client <- Client1
  MaxNonce = 2
  MaxFail = 3
  MaxCtl = 0
  Faults = {"sweepNeedsCloud"}
  Ops = {"FirstLogin", "Login", "Close", "TickX", "Cloud"}
  Types = {"control"}
  PreAccept = TRUE
  Fixes = {"oneIdentity", "atomicEvict"}
  Split = FALSE
  MaxLevel = 6
  Emit = "no"
INIT InitX
NEXT NextX
VIEW viewX
INVARIANTS TypeOKX OnlyProven C07InvX C07OneX SweepComplete
CHECK_DEADLOCK FALSE
