\* template used by harness/drivers/c17 (the driver substitutes the @@..@@ fields):
\*   legacy+gen+mc   one run: Variants = all, INVARIANTS Strict Safe RefusedNoEffect CounterExact - the code as it is on
\*           one instance is strict (NoOvershoot, no deviation); the code before the repairs, several instances and every
\*           faulty variant: each overshoot goes through a named deviation - and Emit: one behaviour per transition
\*           (VIEW hides hist) for n <= EmitMaxN; var = none: "gen", the others: "legacy" = schedules that must be
\*           unrealisable on the right tree
\*   legacy-all+all  EmitAll, no VIEW, Shape = pairs: every maximal behaviour of 2 requests at limit-1, 3 at limit-2, 4 at limit-3
\*   mc:n4   quick tier: the code as it is with 4 requests (Variants = none, one and two instances), no generation;
\*           the quick tier generates from n in {2,3}; the thorough tier runs legacy+gen+mc with n in {2,3,4}
\*   Retries = 1 (jobs with a VIEW): after everything ended, MakeRoom and one Retry / RetryOther of a refused request;
\*           invariants RetryOK (never turned away for a reason other than the limit, except through the named deviation
\*           ClaimBeforeQuota) and RetryAdmitted (the code as it is: admitted); 0 in the maximal-behaviour jobs
\* bounds: NS = {2,3,4}, Lims = {0,1,2} (3: caps with separate check and insert, 4 requests, 3 free slots), occupancy
\* limit-slack at the start (slack 1..3), each request admitted at most once
CONSTANTS
  Kinds = @@KINDS@@
  NS = @@NS@@
  Lims = @@LIMS@@
  NodeCounts = @@NODES@@
  Variants = @@VARIANTS@@
  Shape = "@@SHAPE@@"
  MaxReRel = @@RR@@
  Slacks = @@SLACKS@@
  Listers = @@LISTERS@@
  Retries = @@RETRIES@@
  FixedKinds = {"conncap", "maplimit", "maplive", "codequota", "mapquota"}
  WithRelease = @@REL@@
  Emit = @@EMIT@@
  EmitMaxN = @@EMITMAXN@@
  EmitAll = @@EMITALL@@
INIT Init
NEXT Next
@@VIEW@@
INVARIANTS TypeOK @@INVS@@
CHECK_DEADLOCK FALSE
