\* template used by harness/drivers/c17 (the driver substitutes the @@..@@ fields):
\*   mc:fixed   Kinds = all, FixedKinds = {conncap, maplimit, maplive, codequota, mapquota}, NodeCounts = {1}
\*              INVARIANTS NoOvershoot NoDeviation RefusedNoEffect CounterExact        (repaired design: strict)
\*   mc:asis    FixedKinds = {}: INVARIANTS Safe RefusedNoEffect CounterExact           (every overshoot is a named deviation)
\*   mc:open    quota kinds, NodeCounts = {1,2}, LockKeys = {owner, issuer}, repaired: INVARIANTS Safe ...
\*              (what the per-instance mutex leaves open; what a mutex keyed on the wrong client leaves open)
\*   gen / legacy: Emit = TRUE (one behaviour per transition; VIEW hides hist); all: EmitAll = TRUE, no VIEW
\* bounds: NS = {2,3,4}, Lims = {0,1,2}, occupancy limit-1 at the start, each request admitted at most once
CONSTANTS
  Kinds = @@KINDS@@
  NS = @@NS@@
  Lims = @@LIMS@@
  NodeCounts = @@NODES@@
  LockKeys = @@KEYS@@
  Variants = @@VARIANTS@@
  MaxReRel = @@RR@@
  Slacks = @@SLACKS@@
  FixedKinds = @@FIXED@@
  WithRelease = @@REL@@
  Emit = @@EMIT@@
  EmitAll = @@EMITALL@@
INIT Init
NEXT Next
@@VIEW@@
INVARIANTS TypeOK @@INVS@@
CHECK_DEADLOCK FALSE
