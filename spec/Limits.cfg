\* template used by harness/drivers/c17 (the driver substitutes the @@..@@ fields):
\*   legacy+gen+mc   one run: Variants = all, INVARIANTS Strict Safe RefusedNoEffect CounterExact - the code as it is on
\*           one instance is strict (NoOvershoot, no deviation); the code before the repairs, several instances and every
\*           faulty variant: each overshoot goes through a named deviation - and Emit: one behaviour per transition
\*           (VIEW hides hist) for n <= EmitMaxN; var = none: "gen", the others: "legacy" = schedules that must be
\*           unrealisable on the right tree
\*   legacy-all+all  EmitAll, no VIEW, Shape = pairs: every maximal behaviour of 2 requests at limit-1, 3 at limit-2
\* bounds: NS = {2,3,4}, Lims = {0,1,2}, occupancy limit-slack at the start, each request admitted at most once
CONSTANTS
  Kinds = @@KINDS@@
  NS = @@NS@@
  Lims = @@LIMS@@
  NodeCounts = @@NODES@@
  Variants = @@VARIANTS@@
  Shape = "@@SHAPE@@"
  MaxReRel = @@RR@@
  Slacks = @@SLACKS@@
  Listers = @@LISTERS@@
  FixedKinds = {"conncap", "maplimit", "maplive", "codequota", "mapquota"}
  WithRelease = @@REL@@
  Emit = @@EMIT@@
  EmitMaxN = @@EMITMAXN@@
  EmitAll = @@EMITALL@@
INIT Init
NEXT Next
@@VIEW@@
INVARIANTS TypeOK @@INVS@@
CHECK_DEADLOCK FALSE
