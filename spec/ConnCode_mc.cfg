\* ConnCode.tla - one template for exhaustive checking and behaviour generation (fw substitutes @@..@@).
\*   ACTS      activators: {"a1","a2"} quick, {"a1","a2","a3"} thorough
\*   REV       revoker process present          EXP   activation TTL may elapse at any point
\*   FAULT     0 | 1 storage writes may fail    PRE   activators that already own one active mapping
\*   QUOTA     max active mappings per client   CLAIM / CRB   repaired design switches (FALSE FALSE = code as it was)
\*   NODE2     processes calling through node n2      CLOCAL  TRUE: claim key routed to the node-local cache tier
\*   SAME      activators submitting as a1's listen client   RECLAIM  design variant idempotent re-claim
\*   RESET     design variant reset-on-failed-update   TICK  time may pass (< code lifetime)   SHORT  design variant short claim TTL
\*   RESETC    design variant reset-on-failed-create   RELSCOPE  "fail" (as is) | "holder" | "loser" | "always": who deletes the claim key
\*   VIEW      view (exhaustive) | gview (generation: ghosts hidden, hist hidden)
CONSTANTS
  Acts = @@ACTS@@
  HasRev = @@REV@@
  CanExpire = @@EXP@@
  MaxFault = @@FAULT@@
  PreSet = @@PRE@@
  Quota = @@QUOTA@@
  Claim = @@CLAIM@@
  CreateRb = @@CRB@@
  Node2 = @@NODE2@@
  ClaimLocal = @@CLOCAL@@
  SameAs = @@SAME@@
  Reclaim = @@RECLAIM@@
  ResetOnFail = @@RESET@@
  ResetCreate = @@RESETC@@
  RelScope = @@RELSCOPE@@
  CanTick = @@TICK@@
  ShortClaim = @@SHORT@@
  Emit = @@EMIT@@
INIT Init
NEXT Next
VIEW @@VIEW@@
INVARIANTS TypeOK @@INVS@@
CHECK_DEADLOCK FALSE
