\* Documentation only (not run by the check): the neighbour of CommandsExec_show_replay.cfg - the cache keyed by
\* the CommandId alone, so a command of ANOTHER type carrying B's id is answered with B's response too.
\* Only the stranger is explored; TLC reports OwnExecution / PartyOnly.
CONSTANTS
  ReplayKey = "id"
  OnReadFault = "refuse"
  Actors = {"C"}
  MaxFaults = 0
  Emit = FALSE
INIT Init
NEXT Next
INVARIANTS TypeOK UnauthRefused UnauthNoChange OwnExecution PartyOnly
CHECK_DEADLOCK FALSE
