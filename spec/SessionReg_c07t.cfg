\* (extension module SessionReg: the same operations plus CloseCmd = disconnect announced by the client)
\* C07 thorough: 3 connections x 3 clients, more challenges per connection.
CONSTANTS
  Conn <- Conn3
  Client <- Client3
  MaxNonce = 4
  MaxFail = 3
  MaxCtl = 0
  Faults = {}
  Ops = {"Accept", "FirstLogin", "Login", "Knock", "Close", "Kick", "Heartbeat", "Tick", "Unregister", "Cloud", "CloseCmd"}
  Types = {"control", "tunnel"}
  PreAccept = FALSE
  Fixes = @@FIXES@@
  Split = FALSE
  MaxLevel = @@LEVEL@@
  Emit = @@EMIT@@
INIT InitX
NEXT NextX
VIEW viewX
INVARIANTS TypeOKX OnlyProven @@INV@@
CHECK_DEADLOCK FALSE
