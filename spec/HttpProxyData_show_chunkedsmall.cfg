\* X06 demonstration, EXPECTED TO FAIL: every deviation repaired except ChunkedSmall
CONSTANTS
  Fix = {"Truncated", "MultiReq", "MultiResp", "RedirectFollowed", "RespTruncated", "ChunkedRaw", "StuckKeepAlive"}
  Emit = FALSE
SPECIFICATION Spec
INVARIANTS TypeOK NoChunkedSmall
CHECK_DEADLOCK FALSE
