---------------------------- MODULE BrokerTrace ----------------------------
(* X01 judge (property level) for internal/broker.  It knows nothing of locks, receive loops or     *)
(* Redis; it states what a user of MessageBroker relies on, over what callers and consumers saw.     *)
(*                                                                                                 *)
(* Alphabet, per trace:                                                                            *)
(*   Cfg   [kind, cap, mode]   kind "memory" | "redis"; cap = channel capacity in the trace's        *)
(*         message unit (the driver publishes batches of 100/cap real messages per model message);    *)
(*         mode "seq": every call returns before the next is made and the driver waits for            *)
(*         quiescence after each call; "conc": calls overlap / deliveries are scheduled later.        *)
(*   Call  [id, op, t]         a call of Subscribe ("Sub") | Unsubscribe ("Unsub") | Publish ("Pub")  *)
(*         | Close | Ping begins; ids are 1, 2, .. in log order; a Pub's messages carry its id.       *)
(*   Ret   [id, op, t, res, c] it returned: res "ok" | "closed" | "exists" | "nosub" | "err" |        *)
(*         "panic"; c = number of the channel a successful Sub returned (1, 2, .. in log order).       *)
(*   Probe [c, n, st]          (seq) channel c holds n messages; st "open" | "closed" | "unknown"      *)
(*   Recv  [c, got, why]       the consumer asked channel c for one message: got = id of the Pub      *)
(*         call whose message it is | 0 (closed and drained) | -1 (open, nothing there) | -2 (a         *)
(*         message that is not what any Pub sent: wrong topic field, payload, node id, torn batch)      *)
(*   Settle                    the driver saw the broker quiescent (nothing in flight)                  *)
(*   Fatal [what]              the process running the broker died of a Go panic raised in it           *)
(*                                                                                                 *)
(* Clauses (detail starts with the broker kind):                                                    *)
(*   Result      seq: the answer of a call is not the documented one for the state the broker is in   *)
(*               (Subscribe twice: memory a second channel, redis "exists"; Unsubscribe of a topic     *)
(*               without subscriber: "nosub"; anything after Close: "closed", Close again: ok);         *)
(*               conc: only "a call begun after Close returned answers closed".                         *)
(*   Delivered   a message published on a topic is missing from a channel subscribed at that moment      *)
(*               that had room (drop-when-full exactly as documented: the newest message is skipped)     *)
(*   Order       a channel yields two messages against publish order, or one twice                       *)
(*   Spurious    a channel yields something not published on its topic / published after it was          *)
(*               closed / (memory) published before it existed / more than was published                  *)
(*   ClosedFinal a channel is not closed after Unsubscribe / Close returned, is closed although          *)
(*               nobody asked, or yields a message after it reported closed                              *)
(*   NoPanic     a call panicked or the process died ("send on closed channel", "close of closed ..")   *)
(* Where the contract is silent the judge is silent: what happens to messages in flight when the          *)
(* subscriber leaves (redis), stale in-flight messages reaching a re-subscribed topic (redis),            *)
(* results of calls overlapping other calls.                                                              *)
EXTENDS VLib, Integers

TOPICS == {"t1", "t2"}
INF == 1000000000
VARIABLES cfg, calls, chs, settles, fatal, rst, rsubs
vars == <<l, viol, cfg, calls, chs, settles, fatal, rst, rsubs>>

NoCfg == [kind |-> "-", cap |-> 0, mode |-> "-"]
NoSubs == [t \in TOPICS |-> <<>>]
Init == /\ l = 1 /\ viol = {} /\ cfg = NoCfg /\ calls = <<>> /\ chs = <<>> /\ settles = <<>> /\ fatal = ""
        /\ rst = "open" /\ rsubs = NoSubs
Reset == /\ cfg' = NoCfg /\ calls' = <<>> /\ chs' = <<>> /\ settles' = <<>> /\ fatal' = ""
         /\ rst' = "open" /\ rsubs' = NoSubs

K == cfg.kind
Seqm == cfg.mode = "seq"
Rng(s) == {s[i] : i \in 1..Len(s)}
MinOf(S) == IF S = {} THEN INF ELSE CHOOSE x \in S : \A y \in S : x <= y
Str(n) == ToString(n)

\* ---- reference broker (seq mode) ---------------------------------------------------------------
ExpRes(op, t) ==
  IF op = "Close" THEN "ok"
  ELSE IF rst # "open" THEN "closed"
  ELSE IF op = "Sub" THEN (IF K = "redis" /\ rsubs[t] # <<>> THEN "exists" ELSE "ok")
  ELSE IF op = "Unsub" THEN (IF rsubs[t] = <<>> THEN "nosub" ELSE "ok")
  ELSE "ok"
StateClass(op, t) ==
  IF rst # "open" THEN "afterClose"
  ELSE IF op \in {"Sub", "Unsub", "Pub"} THEN (IF rsubs[t] = <<>> THEN "noSubscriber" ELSE IF Len(rsubs[t]) = 1 THEN "subscribed" ELSE "subscribedMany")
  ELSE "open"

NewCh(t, call0) == [t |-> t, call0 |-> call0, born |-> l, s |-> "open", buf |-> <<>>, recv |-> <<>>]
CloseSet(cs, S) == [c \in 1..Len(cs) |-> IF c \in S THEN [cs[c] EXCEPT !.s = "closed"] ELSE cs[c]]
PushSet(cs, S, m) == [c \in 1..Len(cs) |-> IF c \in S /\ Len(cs[c].buf) < cfg.cap THEN [cs[c] EXCEPT !.buf = Append(@, m)] ELSE cs[c]]

TrCfg == /\ Is("Cfg") /\ cfg' = [kind |-> Ev.kind, cap |-> Ev.cap, mode |-> Ev.mode] /\ l' = l + 1
         /\ UNCHANGED <<viol, calls, chs, settles, fatal, rst, rsubs>>

TrCall == /\ Is("Call")
          /\ calls' = Append(calls, [op |-> Ev.op, t |-> Ev.t, c0 |-> l, c1 |-> 0, res |-> "", c |-> 0])
          /\ l' = l + 1 /\ UNCHANGED <<viol, cfg, chs, settles, fatal, rst, rsubs>>

TrRet ==
  /\ Is("Ret")
  /\ LET id == Ev.id  op == Ev.op  t == Ev.t  res == Ev.res
         exp == ExpRes(op, t)
         made == op = "Sub" /\ res = "ok"
         c1 == IF made THEN Append(chs, NewCh(t, calls[id].c0)) ELSE chs
         eff == exp = "ok" /\ res = "ok"          \* the documented effect is applied when the call succeeded as documented
         c2 == IF ~Seqm THEN c1
               ELSE IF op = "Unsub" /\ eff THEN CloseSet(c1, Rng(rsubs[t]))
               ELSE IF op = "Pub" /\ eff THEN PushSet(c1, Rng(rsubs[t]), id)
               ELSE IF op = "Close" /\ res = "ok" THEN CloseSet(c1, 1..Len(c1))
               ELSE c1
     IN /\ calls' = [calls EXCEPT ![id].c1 = l, ![id].res = res, ![id].c = Ev.c]
        /\ chs' = c2
        /\ rsubs' = IF ~Seqm THEN rsubs
                    ELSE IF made THEN [rsubs EXCEPT ![t] = Append(@, Len(c1))]
                    ELSE IF op = "Unsub" /\ eff THEN [rsubs EXCEPT ![t] = <<>>]
                    ELSE IF op = "Close" /\ res = "ok" THEN NoSubs
                    ELSE rsubs
        /\ rst' = IF Seqm /\ op = "Close" /\ res = "ok" THEN "closed" ELSE rst
        /\ viol' = viol \cup (IF res = "panic" THEN {V("NoPanic", K \o ":" \o op \o ":callPanicked")} ELSE {})
                        \cup (IF Seqm /\ res # exp /\ res # "panic"
                              THEN {V("Result", K \o ":" \o op \o ":" \o StateClass(op, t) \o ":" \o exp \o ">" \o res)} ELSE {})
  /\ l' = l + 1 /\ UNCHANGED <<cfg, settles, fatal>>

TrProbe ==
  /\ Is("Probe")
  /\ LET c == Ev.c  e == chs[c] IN
     viol' = viol \cup (IF ~Seqm THEN {} ELSE
         (IF Ev.n < Len(e.buf) THEN {V("Delivered", K \o ":probe:missing")} ELSE {})
    \cup (IF Ev.n > Len(e.buf) THEN {V("Spurious", K \o ":probe:extra")} ELSE {})
    \cup (IF Ev.st = "closed" /\ e.s = "open" THEN {V("ClosedFinal", K \o ":closedEarly")} ELSE {})
    \cup (IF Ev.st = "open" /\ e.s = "closed" THEN {V("ClosedFinal", K \o ":notClosed")} ELSE {}))
  /\ l' = l + 1 /\ UNCHANGED <<cfg, calls, chs, settles, fatal, rst, rsubs>>

Seen(e) == {e.recv[k].m : k \in 1..Len(e.recv)}
TrRecv ==
  /\ Is("Recv")
  /\ LET c == Ev.c  e == chs[c]  g == Ev.got
         e1 == [e EXCEPT !.recv = Append(@, [m |-> g, at |-> l])]
         dup == g > 0 /\ g \in Seen(e)
         v == IF g = -2 THEN {V("Spurious", K \o ":malformed:" \o Ev.why)}
              ELSE IF ~Seqm THEN {}
              ELSE IF e.buf # <<>>
                   THEN (IF g = Head(e.buf) THEN {}
                         ELSE IF g <= 0 \/ g \in Rng(e.buf) THEN {V("Delivered", K \o ":recv:missing")}
                         ELSE IF dup THEN {V("Order", K \o ":duplicate")}
                         ELSE {V("Spurious", K \o ":recv:unexpected")})
                   ELSE (IF g = 0 /\ e.s = "open" THEN {V("ClosedFinal", K \o ":closedEarly")}
                         ELSE IF g = -1 /\ e.s = "closed" THEN {V("ClosedFinal", K \o ":notClosed")}
                         ELSE IF dup THEN {V("Order", K \o ":duplicate")}
                         ELSE IF g > 0 THEN {V("Spurious", K \o ":recv:extra")}
                         ELSE {})
         \* the reference buffer follows what was taken: drop everything up to the message received
         nb == IF e.buf = <<>> THEN <<>>
               ELSE IF g \in Rng(e.buf) THEN SubSeq(e.buf, (CHOOSE k \in 1..Len(e.buf) : e.buf[k] = g) + 1, Len(e.buf))
               ELSE Tail(e.buf)
     IN /\ viol' = viol \cup v
        /\ chs' = [chs EXCEPT ![c] = [e1 EXCEPT !.buf = IF Seqm THEN nb ELSE e.buf]]
  /\ l' = l + 1 /\ UNCHANGED <<cfg, calls, settles, fatal, rst, rsubs>>

TrSettle == /\ Is("Settle") /\ settles' = Append(settles, l)
            /\ l' = l + 1 /\ UNCHANGED <<viol, cfg, calls, chs, fatal, rst, rsubs>>
TrFatal == /\ Is("Fatal") /\ fatal' = Ev.what
           /\ l' = l + 1 /\ UNCHANGED <<viol, cfg, calls, chs, settles, rst, rsubs>>

\* ---- end of trace: clauses over call / return / receive positions (both modes) ---------------------
N == Len(calls)
IsPub(i) == i \in 1..N /\ calls[i].op = "Pub"
\* calls that close channel c when they succeed: Unsubscribe of its topic, Close
Closers(c) == {i \in 1..N : (calls[i].op = "Close" \/ (calls[i].op = "Unsub" /\ calls[i].t = chs[c].t))
                            /\ (calls[i].res = "ok" \/ calls[i].c1 = 0)}
Sure(c) == {i \in Closers(c) : calls[i].c0 > chs[c].born /\ calls[i].c1 > 0}      \* begun after c existed, returned ok
Poss(c) == {i \in Closers(c) : calls[i].c1 = 0 \/ calls[i].c1 > chs[c].call0}   \* may have run after c was made
EndSure(c) == MinOf({calls[i].c1 : i \in Sure(c)})       \* from here on c is certainly closed
EndPoss(c) == MinOf({calls[i].c0 : i \in Poss(c)})       \* before this c was certainly open

ChanViol(c) ==
  LET e == chs[c]  r == e.recv  n == Len(r)
      ms == {k \in 1..n : r[k].m > 0}
      closedAt == MinOf({k \in 1..n : r[k].m = 0})
      bad(k) == LET m == r[k].m IN
                IF ~IsPub(m) THEN "unpublished"
                ELSE IF calls[m].t # e.t THEN "wrongTopic"
                ELSE IF calls[m].c0 > EndSure(c) THEN "afterClosed"
                ELSE IF K = "memory" /\ calls[m].c1 > 0 /\ calls[m].c1 < e.call0 THEN "beforeSubscribe"
                ELSE ""
      occBefore(i) == Cardinality({j \in 1..N : j # i /\ IsPub(j) /\ calls[j].t = e.t /\ calls[j].c0 < calls[i].c1
                                                 /\ (calls[j].c1 = 0 \/ calls[j].c1 > e.call0)})
                      - Cardinality({k \in ms : r[k].at < calls[i].c0})
      settled(i) == K = "memory" \/ \E s \in Rng(settles) : calls[i].c1 < s /\ s < EndPoss(c)
      owed == {i \in 1..N : /\ IsPub(i) /\ calls[i].t = e.t /\ calls[i].res = "ok"
                            /\ calls[i].c0 > e.born /\ calls[i].c1 < EndPoss(c)
                            /\ settled(i) /\ occBefore(i) < cfg.cap}
  IN UNION {IF bad(k) # "" THEN {V("Spurious", K \o ":" \o bad(k))} ELSE {} : k \in ms}
     \cup (IF \E k1, k2 \in ms : k1 < k2 /\ r[k1].m = r[k2].m THEN {V("Order", K \o ":duplicate")} ELSE {})
     \cup (IF \E k1, k2 \in ms : k1 < k2 /\ IsPub(r[k1].m) /\ IsPub(r[k2].m) /\ r[k1].m # r[k2].m
                                 /\ calls[r[k2].m].c1 > 0 /\ calls[r[k2].m].c1 < calls[r[k1].m].c0
           THEN {V("Order", K \o ":reordered")} ELSE {})
     \cup (IF \E k \in ms : k > closedAt THEN {V("ClosedFinal", K \o ":deliveredAfterClosed")} ELSE {})
     \cup (IF ~Seqm /\ Sure(c) # {} /\ fatal = "" /\ n > 0 /\ r[n].m # 0 THEN {V("ClosedFinal", K \o ":notClosed")} ELSE {})
     \cup (IF ~Seqm /\ Poss(c) = {} /\ closedAt # INF THEN {V("ClosedFinal", K \o ":closedEarly")} ELSE {})
     \cup (IF ~Seqm /\ fatal = "" /\ \E i \in owed : i \notin {r[k].m : k \in ms} THEN {V("Delivered", K \o ":lost")} ELSE {})

AfterCloseViol ==
  LET done == MinOf({calls[j].c1 : j \in {j \in 1..N : calls[j].op = "Close" /\ calls[j].res = "ok" /\ calls[j].c1 > 0}}) IN
  UNION {IF calls[i].c0 > done /\ calls[i].c1 > 0 /\ calls[i].res # (IF calls[i].op = "Close" THEN "ok" ELSE "closed") /\ calls[i].res # "panic"
         THEN {V("Result", K \o ":" \o calls[i].op \o ":afterClose:" \o calls[i].res)} ELSE {} : i \in 1..N}

EndViol == (IF fatal # "" THEN {V("NoPanic", K \o ":" \o fatal)} ELSE {})
           \cup UNION {ChanViol(c) : c \in 1..Len(chs)}
           \cup (IF Seqm THEN {} ELSE AfterCloseViol)

TrEnd == /\ Is("End")
         /\ PrintT("VERDICT " \o ToJson([tr |-> Ev.tr, viol |-> SetToSeq(viol \cup (IF cfg = NoCfg THEN {} ELSE EndViol))]))
         /\ l' = l + 1 /\ viol' = {} /\ Reset

Next == TrCfg \/ TrCall \/ TrRet \/ TrProbe \/ TrRecv \/ TrSettle \/ TrFatal \/ TrEnd
Spec == Init /\ [][Next]_vars
=============================================================================
