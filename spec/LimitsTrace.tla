---------------------------- MODULE LimitsTrace ----------------------------
(* C17 judge (property level).  It knows nothing about locks, atomics or storage calls: it    *)
(* only sees who was admitted, refused and released, and occupancy numbers read off the real  *)
(* objects.  Alphabet, per trace:                                                              *)
(*   Cfg     [kind, n, lim, pre, tag] which limit, number of racing requests, the configured   *)
(*                                    limit (0 = unlimited), occupants present at the start;   *)
(*                                    tag (optional) = input class, part of the verdict detail *)
(*   Admit   [p]                      request p holds a slot (logged AFTER the admission took  *)
(*                                    effect: the call returned / the handler is past the add) *)
(*   Release [p, old]                 p gives its slot up (logged BEFORE the slot is freed, or *)
(*                                    inside the critical section that evicts p); old = TRUE   *)
(*                                    for an occupant that was present at the start            *)
(*   Refuse  [p, before, after, left] p was refused because of the limit; before / after = the *)
(*                                    semantic state (live connections, streams, codes,        *)
(*                                    mappings with their fields; not the state owned by the   *)
(*                                    other racing requests) when p called and when it returned*)
(*                                    left (quotas) = key classes of the complete store diff:  *)
(*                                    every key p itself wrote whose value at the return       *)
(*                                    differs from the value at the call (a key that came or   *)
(*                                    went; list items p added / removed) - not only the       *)
(*                                    counted ones                                             *)
(*   Retry   [p, mode, ok, why]       after everything ended and room was made (an occupant    *)
(*                                    closed, a counted code / mapping revoked), the refused   *)
(*                                    request p was issued again (mode "same": by the same     *)
(*                                    client; "other": by another client whose quota is empty);*)
(*                                    why = "limit" or the error code it was turned away with  *)
(*   Obs     [n]                      occupancy read from the real object at some instant      *)
(*   Probe   [want, got]              after everything ended: slots found free / expected free *)
(* Ordering argument: at the line Admit(p) every q in `adm` was really admitted earlier (its   *)
(* Admit line is above) and has really not freed its slot yet (its Release line would be       *)
(* above), so pre + |adm| occupants exist at that instant of the real execution.  A Release    *)
(* may overtake the Admit line of the same request (evicted before its caller logged): `gone`. *)
EXTENDS VLib

VARIABLES lim, pre, adm, gone, det, nref
vars == <<l, viol, lim, pre, adm, gone, det, nref>>

Init == l = 1 /\ viol = {} /\ lim = 0 /\ pre = 0 /\ adm = {} /\ gone = {} /\ det = "?" /\ nref = 0

TrCfg == /\ Is("Cfg")
         /\ lim' = Ev.lim /\ pre' = Ev.pre
         /\ det' = Ev.kind \o ":N=" \o ToString(Ev.n) \o ":limit=" \o ToString(Ev.lim)
                   \o (IF Has("tag") /\ Ev.tag # "" THEN ":" \o Ev.tag ELSE "")
         /\ l' = l + 1 /\ UNCHANGED <<viol, adm, gone, nref>>

Over(k) == lim > 0 /\ k > lim      \* limit 0 = unlimited: nothing to exceed

TrAdmit == /\ Is("Admit")
           /\ IF Ev.p \in gone
              THEN gone' = gone \ {Ev.p} /\ UNCHANGED <<adm, viol>>
              ELSE /\ adm' = adm \cup {Ev.p} /\ gone' = gone
                   /\ viol' = viol \cup (IF Over(pre + Cardinality(adm \cup {Ev.p})) THEN {V("Overshoot", det)} ELSE {})
           /\ l' = l + 1 /\ UNCHANGED <<lim, pre, det, nref>>

TrRelease == /\ Is("Release")
             /\ IF Ev.old
                THEN pre' = (IF pre > 0 THEN pre - 1 ELSE 0) /\ UNCHANGED <<adm, gone>>
                ELSE /\ pre' = pre
                     /\ IF Ev.p \in adm THEN adm' = adm \ {Ev.p} /\ gone' = gone
                        ELSE adm' = adm /\ gone' = gone \cup {Ev.p}
             /\ l' = l + 1 /\ UNCHANGED <<viol, lim, det, nref>>

\* a refused request changes no state: not the semantic state, and it leaves no other key behind either
Left == IF Has("left") THEN Ev.left ELSE <<>>
TrRefuse == /\ Is("Refuse")
            /\ viol' = viol \cup (IF Ev.before = Ev.after THEN {} ELSE {V("RefusedChangedState", det)})
                           \cup {V("RefusedChangedState", det \o ":leftover=" \o Left[i]) : i \in 1..Len(Left)}
            /\ nref' = nref + 1
            /\ l' = l + 1 /\ UNCHANGED <<lim, pre, adm, gone, det>>

TrObs == /\ Is("Obs")
         /\ viol' = viol \cup (IF Over(Ev.n) THEN {V("Overshoot", det)} ELSE {})
         /\ l' = l + 1 /\ UNCHANGED <<lim, pre, adm, gone, det, nref>>

\* a refused request must not keep a slot: once every request ended, all `want` slots are free again
TrProbe == /\ Is("Probe")
           /\ viol' = viol \cup (IF nref > 0 /\ Ev.got < Ev.want THEN {V("RefusedChangedState", det \o ":slot")} ELSE {})
           /\ l' = l + 1 /\ UNCHANGED <<lim, pre, adm, gone, det, nref>>

\* ... so once room has been made the same request is not turned away for any reason but the limit (a second refusal
\* by the limit is accepted: the statement does not say how much room a revocation makes)
TrRetry == /\ Is("Retry")
           /\ viol' = viol \cup (IF Ev.ok \/ Ev.why = "limit" THEN {}
                                 ELSE {V("RefusedChangedState", det \o ":retry-" \o Ev.mode \o "=" \o Ev.why)})
           /\ l' = l + 1 /\ UNCHANGED <<lim, pre, adm, gone, det, nref>>

TrEnd == /\ Is("End") /\ EmitVerdict
         /\ l' = l + 1 /\ viol' = {} /\ lim' = 0 /\ pre' = 0 /\ adm' = {} /\ gone' = {} /\ det' = "?" /\ nref' = 0

Next == TrCfg \/ TrAdmit \/ TrRelease \/ TrRefuse \/ TrObs \/ TrProbe \/ TrRetry \/ TrEnd
Spec == Init /\ [][Next]_vars
=============================================================================
