\* The code as found (adc0605): the three deviations are enabled; the properties hold on every
\* path that does not pass through a flagged deviation (no other route to a violation).
CONSTANTS
  Mode = "honest"
  MaxPkts = @@PKTS@@
  MaxLen = @@LEN@@
  BodyClasses = {"any"}
  Flags = {"none", "enc", "zpre"}
  MaxFrames = 1
  Threads = {1}
  MaxStall = 1
  Chunking = "all"
  Dev = {"shortHeader", "emptyNoLen", "unboundedInflate"}
  Emit = FALSE
SPECIFICATION Spec
INVARIANTS TypeOK C01orDev AllocBoundOrDev ProgressPossible
PROPERTY Termination
CHECK_DEADLOCK FALSE
