\* X06 demonstration, EXPECTED TO FAIL: every deviation repaired except ChunkedRaw
CONSTANTS
  Fix = {"ChunkedSmall", "Truncated", "MultiReq", "MultiResp", "RedirectFollowed", "RespTruncated", "StuckKeepAlive"}
  Emit = FALSE
SPECIFICATION Spec
INVARIANTS TypeOK SameRequest SameResponse
CHECK_DEADLOCK FALSE
