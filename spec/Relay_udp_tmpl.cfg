\* (ii) UDP - TEMPLATE (instantiated by harness/drivers/c12 for other bounds / single deviations)
\* exhaustive: any read chunking (Chunks = {0}), every cut offset of every datagram
\* sequence up to MaxT over Classes, cut by EOF and by error, up to MaxU datagrams in the other
\* direction with the flush ticker interleaved everywhere.  Safety + liveness (weak fairness).
\* The driver substitutes the bounds and the deviation switches:
\*   DEVSPIN/DEVNOUNBLOCK = FALSE, LIVE = UTermination         the patched code, strict liveness (default)
\*   DEVSPIN/DEVNOUNBLOCK = TRUE,  LIVE = UTerminationExcused  the code as found: terminates unless a named deviation is taken
\*   any deviation TRUE,           LIVE = UTermination         "lasso" runs: MUST FAIL (TLC shows the spin / the goroutine blocked forever)
CONSTANTS
  MaxSend = 1
  EofWithData = TRUE
  ShapesA <- LocalShapes
  ShapesB <- AllShapes
  DevDeadlineAt = "none"
  DevDeadlineHits = {"read"}
  Monitor = FALSE
  IdleMax = 2
  DevMonNoFeed = FALSE
  Reactive = FALSE
  DevNoSignalOnError = FALSE
  DevCloseWriterFallback = FALSE
  Emit = FALSE
  Classes = @@CLASSES@@
  BatchSize = @@BATCHSIZE@@
  BatchBuf = 22
  High = 100
  MaxT = @@MAXT@@
  MaxU = @@MAXU@@
  TSeqs <- @@TSEQS@@
  USeqs <- @@USEQS@@
  Cuts = "all"
  Chunks = {0}
  Paces = {"burst"}
  DevSpin = @@DEVSPIN@@
  DevNoUnblock = @@DEVNOUNBLOCK@@
  DevAliasFlush = @@ALIAS@@
  SockBatch = @@SOCKB@@
  DevNoInnerFlush = @@NOINNER@@
  SockQueue = @@SOCKQ@@
  DevQueueRefs = @@QREFS@@
  DevSockDeadline = FALSE
  DevDropOnClose = @@DROP@@
SPECIFICATION USpec
INVARIANTS UTypeOK UDatagrams UComplete UCompleteAny UEncoded UFlushed UMutex UBuf UBatchFits UNoSpuriousEnd
PROPERTIES UDelivMonotone UEventuallyFlushed @@LIVE@@
CHECK_DEADLOCK FALSE
