\* C07 with KickOldConnection in its two parts: locked section (KickBegin) and the I/O that follows
\* (KickEnd = the kick command reached the old peer, its stream is closed), with logins, closes and
\* further kick requests of the same client in between (3 connections pre-accepted, 2 clients).
CONSTANTS
  Conn <- Conn3
  Client <- Client2
  MaxNonce = 2
  MaxFail = 3
  MaxCtl = 0
  Faults = @@FAULTS@@
  Ops = {"FirstLogin", "Login", "KickBegin", "Close", "Cloud"}
  Types = {"control"}
  PreAccept = TRUE
  Fixes = @@FIXES@@
  Split = FALSE
  MaxLevel = @@LEVEL@@
  Emit = @@EMIT@@
INIT Init
NEXT Next
VIEW view
INVARIANTS TypeOK OnlyProven C07Inv C07One
CHECK_DEADLOCK FALSE
