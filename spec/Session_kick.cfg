\* C07 with KickOldConnection in its two parts: locked section (KickBegin) and the I/O that follows
\* (KickEnd = the kick command reached the old peer, its stream is closed), with logins, closes and
\* further kick requests of the same client in between (3 connections pre-accepted).
\* VIEW view = state graph (exhaustive check, transition coverage); without it every operation
\* history to the depth bound is a state of its own = all bounded histories (path-dependent faults).
CONSTANTS
  Conn <- Conn3
  Client <- @@CLIENT@@
  MaxNonce = 2
  MaxFail = 3
  MaxCtl = 0
  Faults = @@FAULTS@@
  Ops = {"FirstLogin", "Login", "KickBegin", "Close"}
  Types = {"control"}
  PreAccept = TRUE
  Fixes = @@FIXES@@
  Split = FALSE
  MaxLevel = @@LEVEL@@
  Emit = @@EMIT@@
INIT Init
NEXT Next
@@VIEW@@
INVARIANTS TypeOK OnlyProven C07Inv C07One
CHECK_DEADLOCK FALSE
