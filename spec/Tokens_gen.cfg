\* X02 behaviour generation (template).  Transition coverage: `hist` is hidden by the VIEW, so TLC visits
\* every distinct model state once (its hist is a shortest history reaching it) and the Next action prints
\* the history after every step whose action name is in EMITACTS - one behaviour per (state, action)
\* transition.  With -simulate, EMITACTS = {"end"} prints each random history once (at length MAXHIST or at
\* the first breach).  Generation always uses the code as it stands (FIXED = {}): its schedules are a
\* superset (the repaired code takes the same steps with other answers).
CONSTANTS
  Scene = @@SCENE@@
  Deploy = @@DEPLOY@@
  Clients = {"c1", "c2"}
  MaxTok = @@MAXTOK@@
  TTL = 2
  MaxClock = @@MAXCLOCK@@
  Procs = @@PROCS@@
  Fixed = {}
  Tampers = @@TAMPERS@@
  Thresh = 1
  KeepHist = TRUE
  EmitActs = @@EMITACTS@@
  MaxHist = @@MAXHIST@@
INIT Init
NEXT Next
@@VIEW@@
INVARIANTS TypeOK
CHECK_DEADLOCK FALSE
