--------------------------- MODULE CrossFramePool ---------------------------
(* C10 - reuse of a pooled cross-node connection (crossnode/pool_node_connection.go, conn.go). *)
(* A connection taken from NodeConnectionPool carries one tunnel at a time (FrameStream); after *)
(* the tunnel it is Released / Put back and handed out again by Get, which first probes it     *)
(* with Conn.IsHealthy: 1 ms read deadline, read one byte, expect a timeout, clear the deadline. *)
(* The history matters: what the previous tunnel left behind on the connection.                 *)
(*   resid  = bytes of earlier tunnels' frames still unread in the pooled side's socket (a      *)
(*            tunnel may end with the peer's last frame unread: "residual frame", which         *)
(*            FrameStream.Read is written to skip by tunnel id)                                 *)
(*   rdl    = a read deadline is still armed on the connection                                  *)
(*   misal  = the byte stream is no longer aligned to a frame boundary                          *)
(* Property: every tunnel starts on a connection on which its frames can be read: no armed      *)
(* deadline, frame aligned.                                                                     *)
(* The probe, as coded, CONSUMES one byte when data is waiting and still reports "healthy":      *)
(* named deviation DevProbeEatsByte.  ProbeResets = FALSE models a probe that forgets to clear   *)
(* its deadline (not in the code as it is).                                                     *)
EXTENDS Naturals, Sequences, TLC, Json

CONSTANTS MaxTunnels, F,      \* tunnels per history, frame length (units)
          ProbeResets,        \* TRUE = the code as it is
          ProbeRejectsData,   \* FALSE = the code as it is (unexpected data => still healthy)
          Emit

VARIABLES n, phase, resid, rdl, misal, fresh, devAte, hist
vars == <<n, phase, resid, rdl, misal, fresh, devAte, hist>>

Styles == {"clean", "residual"}
Out(b) == IF Emit THEN PrintT("BEH " \o ToJson(b)) ELSE TRUE

Init == n = 0 /\ phase = "idle" /\ resid = 0 /\ rdl = FALSE /\ misal = FALSE /\ fresh = TRUE /\ devAte = FALSE /\ hist = <<>>

\* first Get, or Get after an unhealthy verdict: dial a new connection
Dial == /\ phase = "idle" /\ n < MaxTunnels /\ fresh
        /\ phase' = "inuse" /\ n' = n + 1 /\ resid' = 0 /\ rdl' = FALSE /\ misal' = FALSE /\ fresh' = FALSE
        /\ UNCHANGED <<devAte, hist>>

\* Get on an idle pooled connection, nothing waiting: the probe times out = healthy
ProbeTimeout == /\ phase = "idle" /\ n < MaxTunnels /\ ~fresh /\ resid = 0
                /\ rdl' = ~ProbeResets
                /\ phase' = "inuse" /\ n' = n + 1
                /\ UNCHANGED <<resid, misal, fresh, devAte, hist>>

\* Get, residual bytes waiting, probe treats data as unhealthy: connection closed, next Get dials
ProbeRejects == /\ phase = "idle" /\ n < MaxTunnels /\ ~fresh /\ resid > 0 /\ ProbeRejectsData
                /\ fresh' = TRUE /\ resid' = 0
                /\ UNCHANGED <<n, phase, rdl, misal, devAte, hist>>

\* DEVIATION (code as it is): the probe reads one byte of the residual frame, discards it and
\* reports the connection healthy; the next tunnel reads a stream that is off by one byte
DevProbeEatsByte == /\ phase = "idle" /\ n < MaxTunnels /\ ~fresh /\ resid > 0 /\ ~ProbeRejectsData
                    /\ resid' = resid - 1 /\ misal' = TRUE /\ devAte' = TRUE
                    /\ rdl' = FALSE
                    /\ phase' = "inuse" /\ n' = n + 1
                    /\ UNCHANGED <<fresh, hist>>

\* a tunnel runs on the connection and ends in style s; FrameStream.Read skips whole residual
\* frames of earlier tunnels (only possible when aligned)
Use(s) == /\ phase = "inuse"
          /\ resid' = (IF s = "residual" THEN F ELSE 0)
          /\ phase' = "idle"
          /\ hist' = Append(hist, s)
          /\ (n = MaxTunnels => Out([kind |-> "pool", styles |-> hist']))
          /\ UNCHANGED <<n, rdl, misal, fresh, devAte>>

Next == Dial \/ ProbeTimeout \/ ProbeRejects \/ DevProbeEatsByte \/ \E s \in Styles : Use(s)
Spec == Init /\ [][Next]_vars

\* a tunnel never starts under a left-over read deadline
NoLeftoverDeadline == phase = "inuse" => ~rdl
\* a tunnel never starts on a misaligned byte stream - except through the named deviation
AlignedKnown  == misal => devAte
AlignedStrict == ~misal
=============================================================================
