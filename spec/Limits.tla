------------------------------- MODULE Limits -------------------------------
(* C17 - implementation-shaped model of the admission paths that enforce a configured limit:   *)
(* n requests race at occupancy limit-1; every process is "check, then insert" with exactly    *)
(* the atomicity the code gives it.  One action = one critical section / atomic operation /    *)
(* storage call of tunnox-core.                                                                *)
(*                                                                                             *)
(*  kind        code                                                  steps of one request     *)
(*  conncap     session.SessionManager.CreateConnection               Check      (len(connMap) under connLock.RLock)           *)
(*              (server-wide cap, SessionConfig.MaxConnections)       Insert     (connMap[id] = c under connLock.Lock; as is)  *)
(*                                                                    InsertChk  (repaired: re-check and insert in one Lock)   *)
(*  ctrlcap     session.ClientRegistry.Register                       Reg        (one mu.Lock section: below the cap insert;   *)
(*              (MaxControlConnections)                                           at the cap detach the oldest connection and   *)
(*                                                                               call its Stream.Close() - the one point inside *)
(*                                                                               the section a driver can see)                 *)
(*                                                                    RegIns     (same section, after Close returned: insert)  *)
(*                                                                    While a request is between Reg and RegIns it holds the   *)
(*                                                                    registry lock: no other Register/Remove can start (a     *)
(*                                                                    call that waits for the lock = the same call later).     *)
(*                                                                    Variant "ctrlsplit" (not the code; generates schedules   *)
(*                                                                    that must be unrealisable): the lock is released between *)
(*                                                                    the two steps - deviation SplitRegister.                 *)
(*  tuncap      session.TunnelRegistry.Register (MaxTunnels)          Reg        (one mu.Lock section: at the cap refuse)      *)
(*  maplimit    mapping.BaseMappingHandler.handleConnection           Check      (checkConnectionQuota: activeConnCount.Load)  *)
(*              (MappingConfig.MaxConnections / user quota)           Insert     (activeConnCount.Add(1); as is)               *)
(*                                                                    AddCmp     (repaired: Add(1), compare the new value)     *)
(*                                                                    Undo       (repaired: Add(-1) of a request that lost)    *)
(*                                                                    Detach     (as is: handleConnection returns once the     *)
(*                                                                               tunnel runs - the deferred Add(-1) frees the  *)
(*                                                                               slot while the connection is still open)      *)
(*                                                                    GoLive     (repaired "maplive": the tunnel keeps the     *)
(*                                                                               slot until it closes)                         *)
(*  codequota   conncode.Service.CreateConnectionCode                 Call, Count (GetList of the per-client index),           *)
(*              (MaxActiveCodesPerClient)                             Put (Set of the record), Index (AppendToList)            *)
(*  mapquota    conncode.Service.ActivateConnectionCode step 5        Call, Count (GetList client_mappings), Put (Set          *)
(*              (MaxActiveMappingsPerClient)                          port_mapping), Index (AppendToList client_mappings)      *)
(*                                                                                             *)
(* Quota steps are the storage operations on the shared, quota-relevant keys (the seams of the  *)
(* driver); the reads and writes between them touch keys no other request uses (record reads   *)
(* of the counted entries, uniqueness probe, second record copy, id reservation, other         *)
(* indexes) and are part of the step they follow.                                              *)
(* Quotas, repaired: one mutex per client inside one Service instance is held from Count to    *)
(* return (Call takes it or waits).  `nodes` = number of Service instances sharing the store:  *)
(* with 2 instances the mutexes are different objects and the race remains (named deviation).  *)
(* The mutex is chosen by a client id: lock[<<instance, KeyOf(p)>>].  The quota belongs to ONE  *)
(* client - the target client for codes, the LISTEN client for mappings - and all n racing     *)
(* requests are requests of that client, so the right key (cfg.key = "owner") is the same for  *)
(* all of them.  For mapquota the n activated codes were issued either by one target client    *)
(* (cfg.tg = "same") or by n different ones whose ids fall into different lock shards          *)
(* ("distinct").  Keying the mutex on the code's issuer (cfg.key = "issuer") still serialises  *)
(* the first case and leaves the second one unprotected: named deviation WrongLockKey.         *)
(* A mutex is an object: `entry` says which mutex the service's table holds for a key, `mx`     *)
(* which one a request locked or waits for, `lock` who holds it.  In the code the table is a    *)
(* fixed array (one permanent mutex per key).  Variant "lockdrop" (not the code): mutexes are  *)
(* created on demand and the table entry is deleted on unlock - a request that was waiting     *)
(* takes over the old mutex while a request arriving after the return creates a fresh one and  *)
(* runs next to it: named deviation LockEntryDropped.  Arrival times are part of a behaviour:  *)
(* Call(p) may happen at any point, in particular after another request has returned.          *)
(*                                                                                             *)
(* A list request (codequota: Service.ListConnectionCodesByTargetClient -> ListByTargetClient, *)
(* taken WITHOUT the quota mutex) reads the per-client index and prunes every entry whose      *)
(* record it does not find: LCall, LList (index read + record look-ups), LPrune (RemoveFromList)*)
(* - a read-only query with a side effect, racing the storage operations of a create.  In the  *)
(* code the records are written before the index entry, so a listed entry always has its       *)
(* record.  Variant "indexfirst" (not the code): the index entry is appended first - a list    *)
(* request in between prunes the entry of a code that then goes live uncounted (LivePruned).   *)
(* mapquota: the list request is Service.ListOutboundMappings -> GetClientPortMappings (index  *)
(* read + record look-ups, entries without a record are skipped); the same two orders of the   *)
(* create (PortMappingRepo.CreatePortMapping, then AddMappingToClient) and the same variant.   *)
(*                                                                                             *)
(* Mapping handler, connection that gets a tunnel: Register (tunnel registered with the tunnel *)
(* manager, reachable for peer notifications), then GoLive/Detach (Tunnel.Start succeeded) or  *)
(* PeerClose (a TunnelError/TunnelClosed notification closes it first: the tunnel's OnClosed   *)
(* releases the slot) followed by StartFail (Start fails, the deferred release runs - a no-op  *)
(* thanks to the Once; variant "doublerelease": it decrements again).                          *)
(*                                                                                             *)
(* A peer notification may also close a tunnel that is already relaying (PeerClose at "live"): *)
(* Tunnel.Close runs once (state CAS), its OnClosed gives the slot back; the copy loops of the  *)
(* closed tunnel end and call Tunnel.Close again - a no-op, part of the same step.              *)
(*                                                                                             *)
(* What the check saw: a request of the two caps with separate check and insert steps keeps,   *)
(* between the two, the count its check read (ghost `saw`; the code as it is does not use it:  *)
(* the insert step decides on the count it reads itself).  `saw` is part of the view, so the   *)
(* generated behaviours distinguish "checked at limit-1" from "checked with more head-room".   *)
(* Variant "lastslot" (not the code): the insert step looks at the count again only when the   *)
(* check saw the last free slot (saw = limit-1); a request that saw more head-room inserts      *)
(* unconditionally - k+2 requests that all check at occupancy limit-(k+1) are all admitted:     *)
(* named deviation CondRecheck (needs slack >= 2 and n >= slack+1).                             *)
(*                                                                                             *)
(* mapquota: the code a request activates carries a one-time activation claim (SetNX on          *)
(* conncode:claimed:<code>), taken right before the mapping record is written (part of step    *)
(* Put: the key is the request's own).  Variant "claimbeforequota" (not the code): the claim   *)
(* is taken first, before the mutex and the count, and the refusal by the quota does not give  *)
(* it back - named deviation ClaimBeforeQuota: the refused request changed state (RefusedClean)*)
(* and the same code can never be activated again (RetryClean), neither by the same client     *)
(* after a mapping was revoked nor by another client.                                          *)
(*                                                                                             *)
(* Histories (caps with an explicit removal: conncap CloseConnection, ctrlcap / tuncap Remove):*)
(* ReRelease(p) removes an id that is not registered - a second close of the same connection,  *)
(* or a close of an id never seen.  It must change nothing; at most MaxReRel per behaviour.    *)
(*                                                                                             *)
(* Which code is modelled is part of the configuration too (cfg.var, chosen from Variants):     *)
(*   "none"          the code as it is now (the kinds in FixedKinds in their repaired form)    *)
(*   "asis"          the code before the repairs (check and insert not atomic, no quota mutex,  *)
(*                   slot freed when handleConnection returns)                                  *)
(*   "wrongkey", "ctrlsplit", "lockdrop", "indexfirst", "doublerelease", "lastslot",            *)
(*   "claimbeforequota"                                                                        *)
(*                   faulty variants (not the code), described with the actions they change;    *)
(*                   their behaviours must be unrealisable on the right tree                   *)
(* The configuration (kind, n, limit, nodes) is chosen in Init, so one TLC run covers every    *)
(* kind, n \in NS and limit \in Lims.  limit 0: the caps mean "unlimited"; the two storage      *)
(* quotas compare `count >= limit` without a zero guard, so limit 0 refuses every request.     *)
EXTENDS Naturals, Sequences, FiniteSets, TLC, Json

CONSTANTS Kinds,        \* subset of {"conncap","ctrlcap","tuncap","maplimit","codequota","mapquota"}
          NS,           \* numbers of racing requests, subset of 1..4
          Lims,         \* limit values
          NodeCounts,   \* numbers of service instances (quota kinds only; other kinds always 1)
          Variants,     \* which code to model, subset of {"none", "asis", "wrongkey", "ctrlsplit", "lockdrop", "indexfirst", "doublerelease", "lastslot",
                        \* "claimbeforequota"}:
                        \* "wrongkey" = quota mutex keyed on the code's issuer; "ctrlsplit" = ClientRegistry.Register evicts and
                        \* inserts in two lock sections; "lockdrop" = the quota mutex table creates mutexes on demand and deletes
                        \* the entry on unlock; "indexfirst" = index entry appended before the records; "doublerelease" = the
                        \* mapping handler's slot release is not idempotent; "lastslot" = the insert step re-checks only when
                        \* the check saw the last free slot
          Shape,        \* "free": every combination; "pairs": (2 requests, slack 1) and (3 requests, slack 2) only (maximal-behaviour jobs)
          MaxReRel,     \* removals of absent ids per behaviour
          Retries,      \* 1: after everything ended, room is made and a refused request is issued again (MakeRoom, Retry); 0: no
          Listers,      \* 1: a list request may run next to the creates (codequota, mapquota), 0: none
          Slacks,       \* free slots at the start: occupancy = limit - slack (1 = the boundary; 2 lets one request in before two race)
          FixedKinds,   \* kinds modelled in their repaired form; the tag "maplive" = the mapping handler keeps the slot
                        \* while the connection lives (kind maplimit, actions GoLive instead of Detach)
          WithRelease,  \* admitted requests may end (connection closed) while others still race
          Emit,         \* print one behaviour per transition (generation with VIEW) ...
          EmitMaxN,     \* ... for configurations with at most this many requests
          EmitAll       \* print every maximal behaviour (generation without VIEW)

MaxN == 4
Procs == 1..MaxN
Old == 100              \* pre-existing occupants are numbered Old+1, Old+2, ...

VARIABLES cfg,    \* [k, n, lim, nodes, tg, key, slack] - fixed per behaviour
          pc,     \* per request: off | start | mid | undo | evict | wait | count | put | index | adm | live | refused | rel | evicted
          cnt,    \* the number the code compares with the limit (len(map) / activeConnCount / countable index entries)
          pre,    \* pre-existing occupants still present
          q,      \* ctrlcap: connections in the registry, oldest first
          lock,   \* holder of each mutex (0 = free); ctrlcap: lock[RLM] = holder of the registry lock
          entry,  \* repaired quotas: the mutex the service's table holds for <<instance, key>> (0 = none)
          mx,     \* repaired quotas: the mutex a request locked or waits for
          nrr,    \* removals of absent ids so far
          recs,   \* quotas: requests whose record is written (the code / mapping exists)
          ixs,    \* quotas: requests with an entry in the per-client index, in append order
          lpc,    \* list request: idle | list | prune | done
          lq,     \* list request: index entries it still has to look up
          ltg,    \* list request: the entry it is about to remove
          claims, \* mapquota: requests whose code carries the one-time activation claim (key conncode:claimed:<code>)
          room,   \* 1: room was made after everything ended (an occupant closed / a counted code or mapping was revoked)
          retry,  \* the refused request that was issued again after that (0 = none)
          saw,    \* ghost (caps with separate check and insert): the count the check of a request read, while it is
                  \* between check and insert (NoSaw otherwise)
          eff,    \* ghost: net contribution of each request to the semantic state
          dev,    \* ghost: a named deviation happened (StaleInsert, StalePut, SlotFreedWhileLive)
          over,   \* ghost: the limit was exceeded at some instant of this behaviour
          hist
qx == <<recs, ixs, lpc, lq, ltg>>
tx == <<claims, room, retry>>
vars == <<cfg, pc, cnt, pre, q, lock, entry, mx, nrr, qx, tx, saw, eff, dev, over, hist>>
view == <<cfg, pc, cnt, pre, q, lock, entry, mx, nrr, qx, tx, saw, eff, dev, over>>
NoSaw == 99

K == cfg.k
Lim == cfg.lim
CapKinds == {"conncap", "maplimit"}
RegKinds == {"ctrlcap", "tuncap"}
QuotaKinds == {"codequota", "mapquota"}
IsQuota == K \in QuotaKinds
Var == cfg.var
Fixed == K \in FixedKinds /\ Var # "asis"
LiveFixed == "maplive" \in FixedKinds /\ Var # "asis"    \* the mapping handler's slot lives as long as the connection
IndexFirst == Var = "indexfirst"
DoubleRel == Var = "doublerelease"
LastSlot == Var = "lastslot"
ClaimFirst == Var = "claimbeforequota" /\ K = "mapquota"
\* does the insert step of p look at the count again? (variant lastslot: only if its check saw the last free slot)
Rechecks(p) == ~LastSlot \/ saw[p] = Lim - 1
\* connections end / absent ids are removed only in the boundary configurations (slack 1) of the real orders
Rel == WithRelease /\ cfg.slack = 1 /\ Var # "ctrlsplit"
Node(p) == IF cfg.nodes = 1 THEN 1 ELSE 1 + (p % 2)
\* the mutex a request takes: 0 = the shard of the client that owns the quota (the same for every racing request);
\* p = the shard of the client that issued the code p activates (different per request when the issuers differ)
KeyOf(p) == IF K = "mapquota" /\ cfg.key = "issuer" /\ cfg.tg = "distinct" THEN p ELSE 0
LockIds == (1..2) \X (0..MaxN)
LK(p) == <<Node(p), KeyOf(p)>>
PermId(i) == 100 + 10 * i[1] + i[2]            \* the permanent mutex of a key (fixed array slot)
MX == (1..MaxN) \cup {PermId(i) : i \in LockIds}  \* mutex objects; p = the mutex request p created (variant lockdrop)
LockDrop == Var = "lockdrop"
RLM == PermId(<<1, 0>>)                          \* ctrlcap: the registry lock
CtrlLocked == Var # "ctrlsplit"
RegFree == K = "ctrlcap" /\ CtrlLocked => lock[RLM] = 0

Full(c) == Lim > 0 /\ c >= Lim      \* caps: 0 = unlimited
QFull(c) == c >= Lim                \* quotas: no zero guard in the code

Holds(s) == s \in {"adm", "reg", "live"}
\* occupancy: open connections / registered connections; quotas: codes / mappings whose record exists
OccOf(pcx, prex, recx) == prex + (IF IsQuota THEN Cardinality(recx) ELSE Cardinality({p \in Procs : Holds(pcx[p])}))
Occ == OccOf(pc, pre, recs)

RacyKinds == {"conncap", "maplimit", "codequota", "mapquota"}
Init == \E k \in Kinds, nn \in NS, l \in Lims, nd \in NodeCounts, tg \in {"same", "distinct"}, v \in Variants, sl \in Slacks :
          /\ (sl > 1 => sl <= l)
          /\ (nd > 1 => (k \in QuotaKinds /\ v = "none"))
          /\ (tg = "distinct" => k = "mapquota")
          \* each variant only where it differs from "none", in the smallest configurations that show it
          /\ (v = "asis" => (k \in RacyKinds /\ sl = 1))
          /\ (v = "wrongkey" => (k = "mapquota" /\ tg = "distinct" /\ sl = 1))
          /\ (v = "ctrlsplit" => (k = "ctrlcap" /\ sl = 1 /\ nn >= 3 /\ l > 0))
          /\ (v = "lockdrop" => (k \in QuotaKinds /\ sl = 2 /\ nn >= 3))
          /\ (v = "indexfirst" => (k \in QuotaKinds /\ sl = 1 /\ nn = 2 /\ l > 0 /\ tg = "same"))
          /\ (v = "doublerelease" => (k = "maplimit" /\ sl = 1 /\ nn = 3 /\ l > 0))
          /\ (v = "claimbeforequota" => (k = "mapquota" /\ sl = 1 /\ l > 0))
          /\ (v = "lastslot" => (k \in CapKinds /\ sl >= 2 /\ nn >= sl + 1))
          /\ (sl > 1 => v \in {"none", "lockdrop", "lastslot"})
          \* limits above 2 only where they add something: caps with separate check and insert, n = slack+1 requests
          \* racing for `slack` = limit free slots (what a check saw ranges over 0..limit-1)
          /\ (l > 2 => (k \in CapKinds /\ sl = l /\ nn = sl + 1 /\ v \in {"none", "lastslot"}))
          /\ (Shape = "pairs" => (v = "ctrlsplit" \/ (nn = 2 /\ sl = 1) \/ (nn = sl + 1 /\ sl >= 2 /\ v = "none" /\ nd = 1)))
          /\ cfg = [k |-> k, n |-> nn, lim |-> l, nodes |-> nd, tg |-> tg, slack |-> sl, var |-> v,
                    key |-> IF v = "wrongkey" THEN "issuer" ELSE "owner"]
          /\ LET p0 == IF l = 0 THEN 0 ELSE l - sl IN
             /\ pre = p0 /\ cnt = p0
             /\ q = [i \in 1..p0 |-> Old + i]
          /\ pc = [p \in Procs |-> IF p <= nn THEN "start" ELSE "off"]
          /\ lock = [m \in MX |-> 0]
          /\ entry = [i \in LockIds |-> IF LockDrop THEN 0 ELSE PermId(i)]
          /\ mx = [p \in Procs |-> 0] /\ nrr = 0
          /\ recs = {} /\ ixs = <<>> /\ lpc = "idle" /\ lq = <<>> /\ ltg = 0
          /\ saw = [p \in Procs |-> NoSaw]
          /\ claims = {} /\ room = 0 /\ retry = 0
          /\ eff = [p \in Procs |-> 0]
          /\ dev = FALSE /\ over = FALSE /\ hist = <<>>

Beh(h, o) == [cfg |-> cfg, over |-> o, steps |-> h]
Got == IF \E i \in MX : lock'[i] # lock[i] /\ lock'[i] # 0
       THEN lock'[CHOOSE i \in MX : lock'[i] # lock[i] /\ lock'[i] # 0] ELSE 0
\* conjoined last in every action: pc', pre', lock' are already determined
Log(p, a) == /\ over' = (over \/ (Lim > 0 /\ OccOf(pc', pre', recs') > Lim))
             /\ hist' = Append(hist, [p |-> p, a |-> a, w |-> (p \in Procs /\ pc'[p] = "wait"), g |-> Got])
             /\ ((Emit /\ cfg.n <= EmitMaxN) => PrintT("BEH " \o ToJson(Beh(hist', over'))))

\* ---- caps whose check and insert are separate steps ----------------------------------------
Check(p) == /\ K \in CapKinds /\ pc[p] = "start"
            /\ pc' = [pc EXCEPT ![p] = IF Full(cnt) THEN "refused" ELSE "mid"]
            /\ saw' = [saw EXCEPT ![p] = IF Full(cnt) THEN NoSaw ELSE cnt]
            /\ UNCHANGED <<cfg, tx, qx, cnt, pre, q, lock, entry, mx, nrr, eff, dev>>
            /\ Log(p, "Check")

\* as is: the insert does not look at the count again (deviation StaleInsert when the cap was reached meanwhile)
Insert(p) == /\ K \in CapKinds /\ ~Fixed /\ pc[p] = "mid"
             /\ cnt' = cnt + 1 /\ eff' = [eff EXCEPT ![p] = 1]
             /\ dev' = (dev \/ Full(cnt))
             /\ pc' = [pc EXCEPT ![p] = "adm"]
             /\ saw' = [saw EXCEPT ![p] = NoSaw]
             /\ UNCHANGED <<cfg, tx, qx, pre, q, lock, entry, mx, nrr>>
             /\ Log(p, "Insert")

\* repaired CreateConnection: count check and map insert in one write-lock section
\* (variant lastslot: a request whose check saw more than one free slot does not look again - deviation CondRecheck)
InsertChk(p) == /\ K = "conncap" /\ Fixed /\ pc[p] = "mid"
                /\ IF Rechecks(p) /\ Full(cnt)
                   THEN pc' = [pc EXCEPT ![p] = "refused"] /\ UNCHANGED <<cnt, eff>>
                   ELSE pc' = [pc EXCEPT ![p] = "adm"] /\ cnt' = cnt + 1 /\ eff' = [eff EXCEPT ![p] = 1]
                /\ dev' = (dev \/ (~Rechecks(p) /\ Full(cnt)))
                /\ saw' = [saw EXCEPT ![p] = NoSaw]
                /\ UNCHANGED <<cfg, tx, qx, pre, q, lock, entry, mx, nrr>>
                /\ Log(p, "InsertChk")

\* repaired mapping handler: reserve with Add(1), compare the value Add returned, undo when over the limit
AddCmp(p) == /\ K = "maplimit" /\ Fixed /\ pc[p] = "mid"
             /\ cnt' = cnt + 1 /\ eff' = [eff EXCEPT ![p] = 1]
             /\ pc' = [pc EXCEPT ![p] = IF Rechecks(p) /\ Lim > 0 /\ cnt + 1 > Lim THEN "undo" ELSE "adm"]
             /\ dev' = (dev \/ (~Rechecks(p) /\ Full(cnt)))
             /\ saw' = [saw EXCEPT ![p] = NoSaw]
             /\ UNCHANGED <<cfg, tx, qx, pre, q, lock, entry, mx, nrr>>
             /\ Log(p, "AddCmp")
Undo(p) == /\ pc[p] = "undo"
           /\ cnt' = cnt - 1 /\ eff' = [eff EXCEPT ![p] = 0]
           /\ pc' = [pc EXCEPT ![p] = "refused"]
           /\ UNCHANGED <<cfg, tx, saw, qx, pre, q, lock, entry, mx, nrr, dev>>
           /\ Log(p, "Undo")

\* ---- registries: check and insert under one lock -------------------------------------------
Reg(p) == /\ K \in RegKinds /\ pc[p] = "start" /\ RegFree
          /\ IF ~Full(cnt)
             THEN /\ cnt' = cnt + 1 /\ eff' = [eff EXCEPT ![p] = 1]
                  /\ pc' = [pc EXCEPT ![p] = "adm"]
                  /\ q' = IF K = "ctrlcap" THEN Append(q, p) ELSE q
                  /\ pre' = pre
             ELSE IF K = "tuncap"
             THEN /\ pc' = [pc EXCEPT ![p] = "refused"]
                  /\ UNCHANGED <<cnt, eff, q, pre>>
             ELSE LET old == Head(q) IN      \* ClientRegistry: detach the oldest and close its stream (p is inside Close now)
                  /\ q' = Tail(q)
                  /\ cnt' = cnt - 1
                  /\ pre' = IF old > Old THEN pre - 1 ELSE pre
                  /\ pc' = IF old > Old THEN [pc EXCEPT ![p] = "evict"] ELSE [pc EXCEPT ![p] = "evict", ![old] = "evicted"]
                  /\ eff' = IF old > Old THEN eff ELSE [eff EXCEPT ![old] = 0]
          /\ lock' = IF K = "ctrlcap" /\ CtrlLocked /\ Full(cnt) THEN [lock EXCEPT ![RLM] = p] ELSE lock
          /\ UNCHANGED <<cfg, tx, saw, qx, dev, entry, mx, nrr>>
          /\ Log(p, "Reg")

\* ... Close returned: insert. In the code this is still the lock section of Reg(p), so the count is the one Reg left;
\* in the variant "ctrlsplit" others ran in between and the cap may have been reached again (deviation SplitRegister).
RegIns(p) == /\ K = "ctrlcap" /\ pc[p] = "evict"
             /\ q' = Append(q, p)
             /\ cnt' = cnt + 1 /\ eff' = [eff EXCEPT ![p] = 1]
             /\ dev' = (dev \/ Full(cnt))
             /\ pc' = [pc EXCEPT ![p] = "adm"]
             /\ lock' = IF CtrlLocked THEN [lock EXCEPT ![RLM] = 0] ELSE lock
             /\ UNCHANGED <<cfg, tx, saw, qx, pre, entry, mx, nrr>>
             /\ Log(p, "RegIns")

\* mapping handler: the connection got its tunnel, which is now registered with the tunnel manager (peer
\* notifications can reach it); Tunnel.Start comes next
Register(p) == /\ K = "maplimit" /\ Rel /\ pc[p] = "adm"
               /\ pc' = [pc EXCEPT ![p] = "reg"]
               /\ UNCHANGED <<cfg, tx, saw, qx, cnt, pre, q, lock, entry, mx, nrr, eff, dev>>
               /\ Log(p, "Register")

\* Tunnel.Start succeeded: the connection is relayed from now on; handleConnection returns.
\* As is, the deferred Add(-1) runs now (deviation SlotFreedWhileLive); repaired, the tunnel's close callback runs it.
GoLive(p) == /\ K = "maplimit" /\ pc[p] = "reg"
             /\ pc' = [pc EXCEPT ![p] = "live"]
             /\ cnt' = IF LiveFixed THEN cnt ELSE cnt - 1
             /\ dev' = (dev \/ ~LiveFixed)
             /\ UNCHANGED <<cfg, tx, saw, qx, pre, q, lock, entry, mx, nrr, eff>>
             /\ Log(p, IF LiveFixed THEN "GoLive" ELSE "Detach")

\* a peer notification (fatal TunnelError / TunnelClosed) closes the registered tunnel before it was started:
\* the connection ends; the tunnel's close callback gives the slot back (repaired code; as is it does not)
PeerClose(p) == /\ K = "maplimit" /\ pc[p] = "reg"
                /\ pc' = [pc EXCEPT ![p] = "regc"]
                /\ cnt' = IF LiveFixed THEN cnt - 1 ELSE cnt
                /\ eff' = [eff EXCEPT ![p] = 0]
                /\ UNCHANGED <<cfg, tx, saw, qx, pre, q, lock, entry, mx, nrr, dev>>
                /\ Log(p, "PeerClose")

\* ... Tunnel.Start then fails; handleConnection's deferred release runs: as is it is the only release; repaired it
\* is a no-op (sync.Once); variant "doublerelease": it decrements a second time (deviation DoubleRelease)
StartFail(p) == /\ K = "maplimit" /\ pc[p] = "regc"
                /\ pc' = [pc EXCEPT ![p] = "rel"]
                /\ cnt' = IF ~LiveFixed \/ DoubleRel THEN cnt - 1 ELSE cnt
                /\ dev' = (dev \/ (LiveFixed /\ DoubleRel))
                /\ UNCHANGED <<cfg, tx, saw, qx, pre, q, lock, entry, mx, nrr, eff>>
                /\ Log(p, "StartFail")

\* a peer notification closes a tunnel that is relaying: Tunnel.Close runs once (state CAS) and its OnClosed gives the
\* slot back (as is, the slot was freed at Detach already); the copy loops of the closed tunnel end and call
\* Tunnel.Close again, which is a no-op (same step)
PeerCloseLive(p) == /\ K = "maplimit" /\ Rel /\ pc[p] = "live"
                    /\ pc' = [pc EXCEPT ![p] = "rel"]
                    /\ cnt' = IF LiveFixed THEN cnt - 1 ELSE cnt
                    /\ eff' = [eff EXCEPT ![p] = 0]
                    /\ UNCHANGED <<cfg, tx, saw, qx, pre, q, lock, entry, mx, nrr, dev>>
                    /\ Log(p, "PeerCloseLive")

\* an admitted connection ends
Release(p) == /\ Rel /\ ~IsQuota /\ pc[p] \in {"adm", "live"} /\ RegFree
              /\ cnt' = IF pc[p] = "live" /\ ~LiveFixed THEN cnt ELSE cnt - 1
              /\ eff' = [eff EXCEPT ![p] = 0]
              /\ pc' = [pc EXCEPT ![p] = "rel"]
              /\ q' = SelectSeq(q, LAMBDA x : x # p)
              /\ UNCHANGED <<cfg, tx, saw, qx, pre, lock, entry, mx, nrr, dev>>
              /\ Log(p, "Release")

\* a removal of an id that is not registered: second close of a connection that is gone, close of an unknown id
\* (a request that has not called yet owns an id nobody has seen). Nothing may change.
ReRelease(p) == /\ Rel /\ K \in {"conncap", "ctrlcap", "tuncap"} /\ RegFree
                /\ pc[p] \in {"start", "rel", "refused", "evicted"} /\ nrr < MaxReRel
                /\ nrr' = nrr + 1
                /\ UNCHANGED <<cfg, tx, saw, qx, pc, cnt, pre, q, lock, entry, mx, eff, dev>>
                /\ Log(p, "ReRelease")

\* ---- per-client quotas over shared storage -------------------------------------------------
\* the call of p returns in state s; repaired: the mutex of its instance goes to a waiter, which runs on to its Count
Return(p, s, d) ==
  LET m == mx[p]
      ws == {w \in Procs : pc[w] = "wait" /\ mx[w] = m} IN
  IF ~Fixed THEN pc' = [pc EXCEPT ![p] = s] /\ dev' = d /\ UNCHANGED <<lock, entry>>
  ELSE /\ entry' = IF LockDrop THEN [entry EXCEPT ![LK(p)] = 0] ELSE entry      \* variant: Delete(clientID), then Unlock
       \* deviation LockEntryDropped: the table forgets a mutex that is still in use (or somebody else's mutex)
       /\ dev' = (d \/ (LockDrop /\ (ws # {} \/ entry[LK(p)] # m)))
       /\ IF ws # {}
          THEN \E w \in ws : /\ pc' = [pc EXCEPT ![p] = s, ![w] = "count"]
                             /\ lock' = [lock EXCEPT ![m] = w]
          ELSE /\ pc' = [pc EXCEPT ![p] = s]
               /\ lock' = [lock EXCEPT ![m] = 0]

\* deviation WrongLockKey: p goes ahead although another request for the same quota, on the same instance, is
\* between its count and its return - it holds a mutex, but a different one
InFlightOtherKey(p) == \E r \in Procs \ {p} : /\ Node(r) = Node(p) /\ KeyOf(r) # KeyOf(p)
                                               /\ pc[r] \in {"count", "put", "index"}
\* a request arrives (at any time - also after others have returned): it looks its mutex up (variant lockdrop:
\* creates one if the table has none) and locks it or waits for it
\* Variant claimbeforequota (mapquota): the one-time activation claim of the code is taken first, before the mutex; a
\* request whose code is claimed already ends here with "already been used" (pc = conflict).
Call(p) == /\ IsQuota /\ pc[p] = "start"
           /\ claims' = IF ClaimFirst THEN claims \cup {p} ELSE claims
           /\ IF ClaimFirst /\ p \in claims
              THEN pc' = [pc EXCEPT ![p] = "conflict"] /\ UNCHANGED <<lock, entry, mx, dev>>
              ELSE IF ~Fixed
              THEN pc' = [pc EXCEPT ![p] = "count"] /\ UNCHANGED <<lock, entry, mx, dev>>
              ELSE LET m == IF entry[LK(p)] = 0 THEN p ELSE entry[LK(p)] IN
                   /\ entry' = [entry EXCEPT ![LK(p)] = m]
                   /\ mx' = [mx EXCEPT ![p] = m]
                   /\ IF lock[m] # 0
                      THEN pc' = [pc EXCEPT ![p] = "wait"] /\ lock' = lock /\ dev' = dev
                      ELSE /\ pc' = [pc EXCEPT ![p] = "count"]
                           /\ lock' = [lock EXCEPT ![m] = p]
                           /\ dev' = (dev \/ InFlightOtherKey(p))
           /\ UNCHANGED <<cfg, room, retry, saw, qx, cnt, pre, q, eff, nrr>>
           /\ Log(p, "Call")

\* the decision: number of countable entries in the per-client index at the time of the read
Count(p) == /\ IsQuota /\ pc[p] = "count"
            /\ IF QFull(cnt) THEN Return(p, "refused", dev \/ p \in claims)   \* deviation ClaimBeforeQuota: refused, claim stays
               ELSE pc' = [pc EXCEPT ![p] = IF IndexFirst THEN "index" ELSE "put"] /\ UNCHANGED <<lock, entry, dev>>
            /\ UNCHANGED <<cfg, tx, saw, qx, cnt, pre, q, eff, mx, nrr>>
            /\ Log(p, "Count")

\* the record is written: the code / mapping exists (deviation StalePut when the quota was used up meanwhile)
Put(p) == /\ IsQuota /\ pc[p] = "put"
          /\ recs' = recs \cup {p}
          /\ eff' = [eff EXCEPT ![p] = 1]
          /\ IF IndexFirst THEN Return(p, "adm", dev \/ QFull(Occ))
             ELSE pc' = [pc EXCEPT ![p] = "index"] /\ dev' = (dev \/ QFull(Occ)) /\ UNCHANGED <<lock, entry>>
          /\ claims' = IF K = "mapquota" /\ ~ClaimFirst THEN claims \cup {p} ELSE claims   \* SetNX of the one-time activation claim
          /\ UNCHANGED <<cfg, room, retry, saw, cnt, pre, q, mx, nrr, ixs, lpc, lq, ltg>>
          /\ Log(p, "Put")

\* the index entry is appended: from now on other requests count it
Index(p) == /\ IsQuota /\ pc[p] = "index"
            /\ cnt' = cnt + 1
            /\ ixs' = Append(ixs, p)
            /\ IF IndexFirst THEN pc' = [pc EXCEPT ![p] = "put"] /\ UNCHANGED <<lock, entry, dev>>
               ELSE Return(p, "adm", dev)
            /\ UNCHANGED <<cfg, tx, saw, pre, q, eff, mx, nrr, recs, lpc, lq, ltg>>
            /\ Log(p, "Index")

\* ---- the list request (no quota mutex) ---------------------------------------------------------
\* (one service instance only: with two instances the quota mutexes are different objects and the creates race
\* anyway - named deviation, known finding - a list request adds nothing there)
HasLister == Listers = 1 /\ IsQuota /\ cfg.nodes = 1
\* look the entries of sq up one after the other; stop at the first one without a record
Scan(sq) == LET bad == {i \in 1..Len(sq) : sq[i] \notin recs} IN
            IF bad = {} THEN lpc' = "done" /\ lq' = <<>> /\ ltg' = 0
            ELSE LET i == CHOOSE j \in bad : \A k \in bad : j <= k IN
                 lpc' = "prune" /\ ltg' = sq[i] /\ lq' = SubSeq(sq, i + 1, Len(sq))
LCall == /\ HasLister /\ lpc = "idle"
         /\ lpc' = "list"
         /\ UNCHANGED <<cfg, tx, saw, pc, cnt, pre, q, lock, entry, mx, nrr, eff, dev, recs, ixs, lq, ltg>>
         /\ Log(0, "LCall")
LList == /\ lpc = "list"
         /\ Scan(ixs)
         /\ UNCHANGED <<cfg, tx, saw, pc, cnt, pre, q, lock, entry, mx, nrr, eff, dev, recs, ixs>>
         /\ Log(0, "LList")
\* RemoveFromList of an entry whose record was not found - the entry of a create in flight (deviation LivePruned)
LPrune == /\ lpc = "prune"
          /\ LET there == \E i \in 1..Len(ixs) : ixs[i] = ltg IN
             /\ ixs' = SelectSeq(ixs, LAMBDA x : x # ltg)
             /\ cnt' = IF there THEN cnt - 1 ELSE cnt
          /\ dev' = TRUE
          /\ Scan(lq)
          /\ UNCHANGED <<cfg, tx, saw, pc, pre, q, lock, entry, mx, nrr, eff, recs>>
          /\ Log(0, "LPrune")

\* ---- after a refusal: make room, issue the refused request again ----------------------------------
\* "A request refused because of a limit changes no state": once everything has ended and room has been made (an
\* occupant closes / one counted code or mapping is revoked), the same request - same connection id, same code -
\* goes through the same steps again and nothing it left behind the first time may stand in its way.  One retry
\* per behaviour.  (The driver also retries a refused activation as ANOTHER client, whose own quota is empty: in
\* the model RetryOther - no room needed, only the claim can stand in the way.)
Quiescent == /\ lpc \in {"idle", "done"}
             /\ \A p \in Procs : pc[p] \in {"off", "refused", "rel", "evicted", "adm", "live", "conflict", "other"}
TailOn == Retries = 1 /\ Var \in {"none", "claimbeforequota"} /\ K # "ctrlcap"
Occupants == {p \in Procs : pc[p] \in {"adm", "live"}}
MakeRoom == /\ TailOn /\ Quiescent /\ room = 0 /\ retry = 0
            /\ \E p \in Procs : pc[p] = "refused"
            /\ pre > 0 \/ Occupants # {}
            /\ room' = 1 /\ cnt' = cnt - 1
            /\ IF pre > 0
               THEN pre' = pre - 1 /\ UNCHANGED <<pc, eff, recs, ixs>>
               ELSE LET v == CHOOSE x \in Occupants : \A y \in Occupants : x <= y IN
                    /\ pc' = [pc EXCEPT ![v] = "rel"] /\ eff' = [eff EXCEPT ![v] = 0]
                    /\ recs' = recs \ {v} /\ ixs' = SelectSeq(ixs, LAMBDA x : x # v)
                    /\ pre' = pre
            /\ UNCHANGED <<cfg, claims, retry, saw, q, lock, entry, mx, nrr, lpc, lq, ltg, dev>>
            /\ Log(0, "MakeRoom")
Retry(p) == /\ TailOn /\ Quiescent /\ room = 1 /\ retry = 0 /\ pc[p] = "refused"
            /\ retry' = p /\ pc' = [pc EXCEPT ![p] = "start"]
            /\ UNCHANGED <<cfg, claims, room, saw, qx, cnt, pre, q, lock, entry, mx, nrr, eff, dev>>
            /\ Log(p, "Retry")
\* the refused activation is issued again by another client (own quota empty): only the claim decides
RetryOther(p) == /\ TailOn /\ K = "mapquota" /\ Quiescent /\ retry = 0 /\ pc[p] = "refused"
                 /\ retry' = p
                 /\ pc' = [pc EXCEPT ![p] = IF p \in claims THEN "conflict" ELSE "other"]
                 /\ claims' = claims \cup {p}
                 /\ UNCHANGED <<cfg, room, saw, qx, cnt, pre, q, lock, entry, mx, nrr, eff, dev>>
                 /\ Log(p, "RetryOther")

Next == \/ \E p \in Procs : \/ Check(p) \/ Insert(p) \/ InsertChk(p) \/ AddCmp(p) \/ Undo(p)
                            \/ Reg(p) \/ RegIns(p) \/ Release(p) \/ ReRelease(p)
                            \/ Register(p) \/ GoLive(p) \/ PeerClose(p) \/ StartFail(p) \/ PeerCloseLive(p)
                            \/ Call(p) \/ Count(p) \/ Put(p) \/ Index(p)
                            \/ Retry(p) \/ RetryOther(p)
        \/ LCall \/ LList \/ LPrune \/ MakeRoom
Spec == Init /\ [][Next]_vars

\* ---- properties (C17) ----------------------------------------------------------------------
\* (1) the limit is never exceeded at any instant (limit 0: nothing to exceed)
NoOvershoot == Lim > 0 => Occ <= Lim
\* every overshoot goes through a named deviation (as-is models, and repaired quotas on several instances)
Safe == NoOvershoot \/ dev
NoDeviation == ~dev
\* the code as it is, on one service instance: strict; everything else: every overshoot through a named deviation
Strict == (Var = "none" /\ cfg.nodes = 1) => (NoOvershoot /\ NoDeviation)
\* (2) a refused request has no net effect on the semantic state (nor has one that ended or was evicted)
\* ... and leaves nothing else behind either: no claim on the code it wanted to activate
RefusedClean == \A p \in Procs : pc[p] \in {"refused", "start", "off"} => p \notin claims
RefusedNoEffect == /\ \A p \in Procs : pc[p] \in {"refused", "rel", "evicted", "start", "off"} => eff[p] = 0
                   /\ RefusedClean \/ (ClaimFirst /\ dev)
\* (2b) the refused request, issued again (by the same client after room was made, or by another client), is not
\* turned away for a reason that is not the limit ...
RetryClean == \A p \in Procs : pc[p] # "conflict"
RetryOK == RetryClean \/ (ClaimFirst /\ dev)
\* ... and (the code as it is, one instance) after room was made it is not refused by the limit again
RetryAdmitted == (Var = "none" /\ cfg.nodes = 1 /\ retry # 0) => pc[retry] # "refused"
\* the counter the code maintains is exact: occupants plus reservations about to be undone
CounterExact == Var \in {"doublerelease", "indexfirst"} \/ IF IsQuota THEN cnt = pre + Len(ixs)
                ELSE cnt = pre + Cardinality({p \in Procs : \/ pc[p] \in {"adm", "undo", "reg"}
                                                            \/ (LiveFixed /\ pc[p] = "live")
                                                            \/ (~LiveFixed /\ pc[p] = "regc")})
TypeOK == /\ cfg.n \in NS /\ cfg.lim \in Lims
          /\ \A p \in Procs : pc[p] \in {"off", "start", "mid", "undo", "evict", "wait", "count", "put", "index", "adm", "reg", "regc", "live", "refused", "rel", "evicted", "conflict", "other"}
          /\ lpc \in {"idle", "list", "prune", "done"}
          /\ \A i \in MX : lock[i] = 0 \/ pc[lock[i]] \in {"count", "put", "index", "evict"}
          /\ (IsQuota /\ Fixed) => \A p \in Procs : pc[p] \in {"count", "put", "index"} => lock[mx[p]] = p
          /\ nrr \in 0..MaxReRel /\ room \in 0..1 /\ retry \in 0..MaxN /\ claims \subseteq Procs
          /\ \A p \in Procs : saw[p] # NoSaw => pc[p] = "mid"

\* generation without VIEW: one line per maximal behaviour (every request refused, ended, evicted, or admitted for good)
Terminal == /\ lpc \in {"idle", "done"} /\ ~(HasLister /\ lpc = "idle")
            /\ \A p \in Procs : \/ pc[p] \in {"off", "refused", "rel", "evicted", "conflict", "other"}
                                \/ (pc[p] = "adm" /\ (IsQuota \/ ~Rel))
EmitMaximal == (EmitAll /\ Terminal) => PrintT("BEH " \o ToJson(Beh(hist, over)))
=============================================================================
