\* X06 demonstration, EXPECTED TO FAIL: every deviation repaired except Truncated (and ChunkedSmall, the routing that
\* sends a chunked upload down the small path in the first place)
CONSTANTS
  Fix = {"MultiReq", "MultiResp", "RedirectFollowed", "RespTruncated", "ChunkedRaw", "StuckKeepAlive"}
  Emit = FALSE
SPECIFICATION Spec
INVARIANTS TypeOK SameRequest SameResponse
CHECK_DEADLOCK FALSE
