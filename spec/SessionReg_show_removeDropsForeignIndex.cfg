\* C07 named deviation "removeDropsForeignIndex" (seeded changes C07-r4m1 / C07-r5m1): removeConnectionLocked
\* deletes clientIDMap[conn.ClientID] without checking that the entry points at conn.  Removing a connection that
\* is authenticated for X but not indexed (tunnel-type handshake, undeliverable response) wipes the entry of X's
\* live control connection; the next login of X finds nothing to evict: two current control connections.
\* TLC must report C07OneX violated: FirstLogin(c1) ; Login(c2,A,tunnel) | LoginLost(c2,A) ; Close(c2) ; Login(c3,A).
\* The as-is model (Faults = {}) passes: SessionReg_dup.cfg.
CONSTANTS
  Conn <- Conn3
  Client <- Client1
  MaxNonce = 2
  MaxFail = 3
  MaxCtl = 0
  Faults = {"removeDropsForeignIndex"}
  Ops = {"FirstLogin", "Login", "LoginLost", "LoginHold", "Close", "CloseCmd", "Kick"}
  Types = {"control", "tunnel"}
  PreAccept = TRUE
  Fixes = {"oneIdentity", "atomicEvict"}
  Split = FALSE
  MaxLevel = 8
  Emit = "no"
INIT InitX
NEXT NextX
VIEW viewX
INVARIANTS TypeOKX OnlyProven C07InvX C07OneX SweepComplete
CHECK_DEADLOCK FALSE
