\* Documentation only (not run by the check): named deviation "blankSkipsVerify" of Session.tla -
\* a record without an encrypted secret is accepted without verification: phase 1 for another identity
\* provides the pending challenge, phase 2 names the blank client.
\* TLC reports StepsOK / OnlyProven violated; the same configuration with Faults = {} (Session_c03key.cfg) passes.
CONSTANTS
  Conn <- Conn2
  Client <- Client2
  MaxNonce = 2
  MaxFail = 3
  MaxCtl = 0
  Faults = {"blankSkipsVerify"}
  Ops = {"Msg", "Corrupt", "Rekey"}
  Types = {"control"}
  PreAccept = TRUE
  Fixes = {"oneIdentity", "atomicEvict"}
  Split = FALSE
  MaxLevel = 7
  Emit = "no"
INIT Init
NEXT Next
VIEW view
INVARIANTS TypeOK OnlyProven StepsOK ProvenIssued C07InvMasked C07OneMasked
CHECK_DEADLOCK FALSE
