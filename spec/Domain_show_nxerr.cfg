\* C19 - deviation nxErrRelease (seeded change C19-r3m1): CreateMapping's shared rollback "release the index" also runs on the
\* path where the index SetNX returned an ERROR. Configuration gen:opf (sequential, one failing storage operation).
\* Expected: Invariant Consistent / NoIndexTheft / OneOwner is violated - mapping 1 (client c1) owns n1; client c2's claim of n1
\* fails at ClaimIndex with the injected error; RbIdx deletes index[n1] = 1 (rollbackForeignIndex): the live mapping 1 is no
\* longer indexed (its host stops routing) and the next claim of n1 is acknowledged: two live owners.
\*   tlc -config Domain_show_nxerr.cfg Domain.tla      (the same constants with Deviate = {} pass: `./check C19`)
CONSTANTS
  ProcsC1 = {"p1"}
  ProcsC2 = {"p2"}
  LookProcs = {"lk"}
  Names = {"n1"}
  MaxOps = 2
  MaxLook = 1
  Kinds = {"Create", "Delete"}
  Pre = TRUE
  Faults = 1
  Guess = FALSE
  HandlerProcs = {"p1"}
  Serial = TRUE
  MaxLegacy = 0
  Fix = TRUE
  Spell = {"plain"}
  CaseFold = TRUE
  OnlyDelete = {}
  OnlyCreate = {}
  Deviate = {"nxErrRelease"}
  DelFaults = TRUE
  CreateFaults = TRUE
  ReadFaults = FALSE
  TTLRollback = TRUE
  UpdFields = {"inactive", "expired"}
  LegStatus = {"active"}
  OnlyList = {}
  Emit = FALSE
INIT Init
NEXT Next
VIEW view
INVARIANTS TypeOK OneOwner Consistent NoIndexTheft
CHECK_DEADLOCK FALSE
