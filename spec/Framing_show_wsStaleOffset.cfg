\* Documentation only (not run by the check): the WebSocket wrapper with the named deviation "wsStaleOffset"
\* (see the header of Framing.tla) against the C01 contract on the message transport.  TLC reports a violation
\* of C01; with Dev = {} (Framing_mc.cfg, Chunking = "msg") the same bounds pass.
\* Counterexample (depth 9): messages of 2 and 4 bytes for the 6-byte packet T L1..L4 B1: the 1st message leaves the
\* remainder L1 (offset 0 -> 1 after it is read), the 2nd leaves the remainder B1 which the stale offset 1 hides: the body
\* never arrives (ReadTrunc => NoError violated).  A single remainder per connection never shows it.
CONSTANTS
  Mode = "honest"
  MaxPkts = 2
  MaxLen = 1
  BodyClasses = {"any"}
  Flags = {"none"}
  MaxFrames = 1
  Threads = {1}
  MaxStall = 1
  Chunking = "msg"
  Dev = {"wsStaleOffset"}
  Emit = FALSE
SPECIFICATION Spec
INVARIANTS C01
CHECK_DEADLOCK FALSE
