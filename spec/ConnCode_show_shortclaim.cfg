\* ConnCode.tla - the repaired design, but the claim key gets a TTL shorter than the code's remaining lifetime:
\* time passes (Tick, less than the code can still be activated) while an activation that holds the claim is still
\* in flight, or before a stale reader reaches its claim; the claim is gone, a second activator wins SetNX again.
\* EXPECTED RESULT: TLC reports "Invariant AtMostOneSuccess is violated". With ShortClaim = FALSE: no error.
\*   tlc -workers 8 -config ConnCode_show_shortclaim.cfg ConnCode.tla
CONSTANTS
  Acts = {"a1", "a2"}
  HasRev = FALSE
  CanExpire = FALSE
  MaxFault = 0
  PreSet = {}
  Quota = 3
  Claim = TRUE
  CreateRb = TRUE
  Node2 = {"a2"}
  ClaimLocal = FALSE
  SameAs = {}
  Reclaim = FALSE
  ResetOnFail = FALSE
  ResetCreate = FALSE
  RelScope = "fail"
  CanTick = TRUE
  ShortClaim = TRUE
  Emit = FALSE
INIT Init
NEXT Next
VIEW view
INVARIANTS TypeOK NoActivationAfterDeath LockOK AtMostOneSuccess AtMostOneMapping SuccessWasValid FailedLeavesNone FieldsOK
CHECK_DEADLOCK FALSE
