\* Deviation HbGiveUp = "lifetime" (seeded change C15-r3m2): the heartbeat loop returns after 3 failed renewals counted over
\* its whole life (the counter is never reset by a success).  Store faults are transient (never two in a row), the claim is
\* never in danger from them - yet after the third one the live node n1 stops renewing, its claim runs out three periods
\* later and n2 is handed the same node id (NodeUnique violated; HeartbeatRunsWhileLive / LeaseMargin fail earlier).
\* Not run by the check (it must fail); kept to show the counterexample:
\*   tlc -config IdGen_show_hbgiveup.cfg IdGen.tla
CONSTANTS
  Mode = "node"
  Procs = {"n1", "n2"}
  HasNX = "yes"
  NCands = 1
  MaxAttempts = 1
  MaxCalls = 1
  Layouts = {"distinct"}
  NSlots = 1
  RenewTier = "claim"
  Wiring = "split"
  TTLTicks = 3
  MaxTicks = 9
  Faults = {}
  MaxRenewFails = 3
  MaxConsecFails = 1
  HbGiveUp = "lifetime"
  GiveUpAfter = 3
  RenewTTLTicks = 3
  Realloc = FALSE
  StopChan = "once"
  MaxU = 1
  ExhaustionReturnsLast = FALSE
  ReturnedIdReleased = FALSE
  WithLapse = FALSE
  Emit = FALSE
INIT Init
NEXT Next
VIEW view
INVARIANTS TypeOK NoForeign NodeUnique
CHECK_DEADLOCK FALSE
