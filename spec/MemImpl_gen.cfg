\* C13 - behaviour generator over the implementation-shaped model (transition coverage, VIEW without hist):
\* a sweep is either the one locked section of the code as it is or a scan followed by a re-testing delete (Sweep = "any"):
\*   one behaviour per (reachable map/reference/clock, Sweep) - the sweep from every state, driven sequentially;
\*   one behaviour per (state with a sweep between scan and delete, operation) - what races the sweep (drivers/c13/sweep.go)
CONSTANTS
  Keys = @@KEYS@@
  Vals = {"a", "b"}
  MaxClock = 2
  OldCAS = FALSE
  OldSetExp = FALSE
  Procs = {"p1"}
  Sweepers = {"ex"}
  Sweep = "any"
  Evict = "recheck"
  LazyReads = FALSE
  Emit = TRUE
INIT Init
NEXT Next
VIEW view
INVARIANTS TypeOK StoresAgree AnswersAgree NeverExpiringStays
CHECK_DEADLOCK FALSE
