\* Named deviation "headerFirst" (the behaviour class of seeded change C04-r3m3) on the tree WITH
\* patches C04-1..3: CrossNodeListener.handleTargetReady resolves the bridge by the 16-byte id
\* of the frame header before the full id of the payload.  A request that names the long id T+
\* (validated on node B against T+'s routing record) is attached on node A to the bridge of the
\* short id T - another mapping's tunnel (both role assignments: prefixRemote, prefixRemoteRev).
\* Must FAIL (AttachedEntitled; dev headerBridgeLookup);
\* the check confirms it through TunnelOpen_show_all.cfg (one run for all named deviations):
\*   tlc -config TunnelOpen_show_headerFirst.cfg TunnelOpen.tla
CONSTANTS
  FIXES = {"validateJoin", "secretValidity", "bindMapping", "bindMappingPoll"}
  Idents = {"none", "noneHs", "listen", "target", "stranger"}
  Creds = {"idOnly", "rightSecret", "wrongSecret", "resume", "nothing", "otherId", "otherSecret"}
  MStates = {"active"}
  Shapes = {"std"}
  MUT = {"headerFirst"}
  TStates = {"prefixRemote", "prefixRemoteRev"}
  Orders = {"legitFirst"}
  Masked = FALSE
  Emit = FALSE
INIT Init
NEXT Next
INVARIANTS TypeOK AttachedEntitled RefusedClean OnlyAttachedRead LegitWorks
CHECK_DEADLOCK FALSE
