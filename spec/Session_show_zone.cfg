\* Documentation only (not run by the check): named deviation "zoneEscapesLists" of Session.tla - the handler takes the peer
\* address in its textual form, so a link-local IPv6 peer with a zone matches no list / ban entry.
\* TLC: Form("v6zone"), Blacklist(c1, ..), Msg(c1, FC) = ok (StepsOK violated); Session_c03form.cfg (Faults = {}) passes.
CONSTANTS
  Conn <- Conn2
  Client <- Client1
  MaxNonce = 2
  MaxFail = 3
  MaxCtl = 0
  Faults = {"zoneEscapesLists"}
  Ops = {"Msg", "Ban", "BanKinds", "Blacklist", "Whitelist", "AddrForm"}
  Types = {"control"}
  PreAccept = TRUE
  Fixes = {"oneIdentity", "atomicEvict"}
  Split = FALSE
  MaxLevel = 5
  Emit = "no"
INIT Init
NEXT Next
VIEW view
INVARIANTS TypeOK OnlyProven StepsOK ProvenIssued C07InvMasked C07OneMasked
CHECK_DEADLOCK FALSE
