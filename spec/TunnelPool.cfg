\* template used by harness/drivers/x03 (the driver substitutes the @@..@@ fields):
\*   mc:fixed  Fixed = TRUE   INVARIANTS Exclusive NoDupIdle HandoutOK IdleOpen MaxLive IdleBound CounterExact NoLeak ShutdownClosedIdle NoDeviation
\*   mc:asis   Fixed = FALSE  INVARIANTS Exclusive NoDupIdle HandoutOKOrDev IdleBound MaxLiveOrDev NoLeakOrDev ShutdownClosedIdle   (every overshoot / leak is a named deviation)
\*   gen / legacy: Emit = TRUE (one behaviour per transition; VIEW hides hist)
\* bounds: NP callers, MaxConn connections, MaxOps API calls, one Shutdown, one Expire, one Kill, one dial failure
CONSTANTS
  NP = @@NP@@
  MaxConn = @@MAXCONN@@
  MaxOps = @@MAXOPS@@
  HCs = @@HCS@@
  MaxIdles = @@MAXIDLES@@
  MaxActs = @@MAXACTS@@
  MaxExp = @@MAXEXP@@
  MaxKill = @@MAXKILL@@
  MaxFail = @@MAXFAIL@@
  MaxShut = 1
  MaxEvict = 1
  Fixed = @@FIXED@@
  Emit = @@EMIT@@
INIT Init
NEXT Next
VIEW view
INVARIANTS TypeOK @@INVS@@
CHECK_DEADLOCK FALSE
