\* C19 - deviation updateMovesClient (neighbour of C19-r5m3): the client-id term of the immutable-field check is missing.
\* Expected: Invariant UpdateKeepsIdentity / RouteOK is violated - the record, and with it the routing of the name, moves to the
\* other client; the creator can no longer delete it.
\*   tlc -config Domain_show_updclient.cfg Domain.tla      (the same constants with Deviate = {} pass: `./check C19`)
CONSTANTS
  ProcsC1 = {"p1"}
  ProcsC2 = {"p2"}
  LookProcs = {"lk"}
  Names = {"n1", "n2"}
  MaxOps = 2
  MaxLook = 1
  Kinds = {"Create", "Delete", "Update"}
  Pre = TRUE
  Faults = 0
  Guess = FALSE
  HandlerProcs = {}
  Serial = TRUE
  MaxLegacy = 0
  Fix = TRUE
  Spell = {"plain"}
  CaseFold = TRUE
  OnlyDelete = {}
  OnlyCreate = {"p2"}
  Deviate = {"updateMovesClient"}
  DelFaults = FALSE
  CreateFaults = FALSE
  ReadFaults = FALSE
  TTLRollback = TRUE
  UpdFields = {"inactive", "expired", "target", "desc", "created", "client", "sub", "base", "full"}
  LegStatus = {"active"}
  OnlyList = {}
  Emit = FALSE
INIT Init
NEXT Next
VIEW view
INVARIANTS TypeOK RouteOK UpdateKeepsIdentity
CHECK_DEADLOCK FALSE
