\* Deviation ExhaustionReturnsLast (seeded change C15-r5m2): the retry loop of IDManager.GenerateUniqueXxxID leaves with its attempt
\* budget used up and, instead of the resource-exhausted error, returns the LAST candidate - an id that exists in the
\* caller's repository and whose marker has just been deleted (NoTaken violated; HeldMarked as well).
\* Not run by the check (it must fail); kept to show the counterexample:
\*   tlc -config IdGen_show_exhaustion.cfg IdGen.tla
CONSTANTS
  Mode = "uniq"
  Procs = {"p1"}
  HasNX = "yes"
  NCands = 2
  MaxAttempts = 2
  MaxCalls = 1
  Layouts = {"distinct"}
  NSlots = 1
  RenewTier = "claim"
  Wiring = "split"
  TTLTicks = 3
  MaxTicks = 0
  Faults = {}
  MaxRenewFails = 0
  MaxConsecFails = 1
  HbGiveUp = "never"
  GiveUpAfter = 0
  RenewTTLTicks = 3
  Realloc = FALSE
  StopChan = "once"
  MaxU = 2
  ExhaustionReturnsLast = TRUE
  ReturnedIdReleased = FALSE
  WithLapse = FALSE
  Emit = FALSE
INIT Init
NEXT Next
VIEW view
INVARIANTS TypeOK NoTaken
CHECK_DEADLOCK FALSE
