\* Documentation only (not run by the check): a duplex command whose (client chosen) command id equals that of a command
\* still in flight is attached to it and gets the same result - the concurrent neighbour of seeded change C11-r3m2.
\* TLC reports EffIdIsAuth after <<D pa, D pb, R pa>> with sid = TRUE: pb is answered with what was produced for A.
CONSTANTS
  Pooled = FALSE
  Dedupe = TRUE
  Whos = {"vB:create", "vB:check", "c1:check"}
  SameIds = {FALSE, TRUE}
  Emit = FALSE
INIT Init
NEXT Next
INVARIANTS EffIdIsAuth ResponseToSender
CHECK_DEADLOCK FALSE
