\* (ii) UDP - the UDP side is a real *net.UDPConn (udpBatchWriter, BatchSize = 2 slots): the code flushes
\* inside the unpack loop whenever BatchSize datagrams are pending, so nothing is refused.  Sequences <= 3.
CONSTANTS
  MaxSend = 1
  EofWithData = TRUE
  ShapesA <- LocalShapes
  ShapesB <- AllShapes
  DevDeadlineAt = "none"
  DevDeadlineHits = {"read"}
  Monitor = FALSE
  IdleMax = 2
  DevMonNoFeed = FALSE
  Reactive = FALSE
  DevNoSignalOnError = FALSE
  DevCloseWriterFallback = FALSE
  Emit = FALSE
  Classes = {1, 2}
  BatchSize = 2
  BatchBuf = 22
  High = 100
  MaxT = 3
  MaxU = 1
  TSeqs <- TAll
  USeqs <- UNone
  Cuts = "all"
  Chunks = {0}
  Paces = {"burst"}
  DevSpin = FALSE
  DevNoUnblock = FALSE
  DevAliasFlush = FALSE
  SockBatch = TRUE
  DevNoInnerFlush = FALSE
  SockQueue = FALSE
  DevQueueRefs = FALSE
  DevSockDeadline = FALSE
  DevDropOnClose = FALSE
SPECIFICATION USpec
INVARIANTS UTypeOK UDatagrams UComplete UCompleteAny UEncoded UFlushed UMutex UBuf UBatchFits UNoSpuriousEnd
PROPERTIES UDelivMonotone UEventuallyFlushed UTermination
CHECK_DEADLOCK FALSE
