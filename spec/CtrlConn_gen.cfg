\* X05 behaviour generation (template filled in by harness/drivers/x05): Emit = TRUE prints one behaviour per transition of
\* the state graph (the history is hidden from the fingerprint by VIEW, so each state is reached by one - shortest - history).
\*   gen     Fixed = TRUE   schedules of the repaired design
\*   legacy  Fixed = FALSE  schedules of the code as found (they reach the named deviations)
\*   *:sim   -simulate: random deep schedules
CONSTANTS
  Users = {"u1", "u2"}
  MaxConn = @@MAXCONN@@
  Scenes <- @@SCENES@@
  RejKinds = @@REJKINDS@@
  MaxAttempts = @@MAXATT@@
  Fixed = @@FIXED@@
  Emit = TRUE
SPECIFICATION Spec
VIEW view
INVARIANTS TypeOK
CHECK_DEADLOCK FALSE
