------------------------------- MODULE Hybrid -------------------------------
(* C14 - implementation-shaped model of hybrid.Storage (cache + optional shared cache +      *)
(* persistent tier) for ONE key, at tier-operation granularity.                               *)
(*                                                                                            *)
(*   front = the cache tier the facade uses for the key's category (local cache, or the       *)
(*           shared cache for shared / shared-persistent keys when one is configured)         *)
(*   back  = the persistent tier (exists for categories persistent / sharedPersistent when    *)
(*           persistence is enabled)                                                          *)
(*                                                                                            *)
(* Code mapped (internal/core/storage/hybrid):                                                *)
(*   Get      hybrid.go Get/getSharedPersistent: front.Get; on miss back.Get; then            *)
(*            `go func(){ front.Set(k, v) }()`  (asynchronous write-back = process WB)        *)
(*   Set      setPersistent/setSharedPersistent: back.Set then front.Set                      *)
(*   Delete   Delete: front.Delete then back.Delete                                           *)
(*   Append / Remove   hybrid_ops.go: GetList (= Get) ... Set (get-modify-set, no lock)       *)
(*                                                                                            *)
(* Every tier value carries the ghost id of the facade write that produced it, so that        *)
(* "never an older value brought back" is a state predicate.                                  *)
EXTENDS Naturals, Sequences, FiniteSets, TLC, Json

CONSTANTS Procs,      \* client processes (goroutines calling the facade)
          MaxOps,     \* facade calls per process
          HasBack,    \* TRUE: two-tier category (persistent / sharedPersistent)
          Mode,       \* "kv" : Get/Set/Delete     "list" : Append/Remove/GetList
          SyncFill,   \* TRUE: model of the repaired code (per-key lock, synchronous fill)
          FaultProc,  \* a process whose FIRST call may see its front-tier Set fail once ("none": no tier failure)
          Invalidate, \* TRUE: repaired code - a failed cache write of a persisted Set drops the cache entry
          Emit

VARIABLES front, back,   \* tier contents: [p |-> present, id |-> ghost write id, v |-> value]
          pc, cur, tmp,  \* per process: program counter, current call, value read
          done,          \* per process: number of completed calls
          wb,            \* pending asynchronous write-backs: set of [n |-> serial, val |-> tier value]
          nwb, nid,      \* serial numbers (write-backs, write ids)
          before,        \* ghost: write id -> [ret |-> write ids that had returned when it was called, op |-> kind]
          returned,      \* ghost: write ids whose facade call has returned
          floor,         \* ghost: per process, `returned` at the moment its current Get was called
          stale,         \* ghost: some Get returned a value older than a write that had returned before it started
          lock,          \* SyncFill only: holder of the per-key lock or "none"
          hist
vars == <<front, back, pc, cur, tmp, done, wb, nwb, nid, before, returned, floor, stale, lock, hist>>
view == <<front, back, pc, cur, tmp, done, wb, before, returned, floor, stale, lock>>

Elems == 1..(Cardinality(Procs) * MaxOps)
None(id) == [p |-> FALSE, id |-> id, v |-> {}]
Val(id, v) == [p |-> TRUE, id |-> id, v |-> v]

Init == /\ front = IF HasBack THEN None(0) ELSE Val(0, {0})
        /\ back = IF HasBack THEN Val(0, {0}) ELSE None(0)   \* a value written long ago lives in the persistent tier
        /\ pc = [p \in Procs |-> "idle"] /\ cur = [p \in Procs |-> [op |-> "none"]]
        /\ tmp = [p \in Procs |-> None(0)] /\ done = [p \in Procs |-> 0]
        /\ wb = {} /\ nwb = 0 /\ nid = 0
        /\ before = [i \in {0} |-> [ret |-> {}, op |-> "init"]] /\ returned = {0}
        /\ floor = [p \in Procs |-> {}] /\ stale = FALSE
        /\ lock = "none" /\ hist = <<>>

Out(h) == IF Emit THEN PrintT("BEH " \o ToJson(h)) ELSE TRUE
Waits(p) == p \in Procs /\ pc'[p] = "W" /\ lock' \notin {"none", p}     \* after this step p is blocked on the key lock
Got == IF lock' # lock /\ lock' # "none" THEN lock' ELSE ""                    \* who obtained the key lock in this step
Log(p, a) == /\ hist' = Append(hist, [p |-> p, a |-> a, w |-> Waits(p), g |-> Got]) /\ Out(hist')

OpKinds == IF Mode = "kv" THEN {"Get", "Set", "Del"} ELSE {"App", "Rem", "GetL"}
IsWrite(o) == o \in {"Set", "Del", "App", "Rem"}
Locked(p) == SyncFill => lock = p
AfterLock(o) == CASE o = "Set" -> IF HasBack THEN "S1" ELSE "S2"
                  [] o = "Del" -> "D1"
                  [] OTHER -> "G1L"

\* ---- a process starts a facade call ------------------------------------------------------
Call(p, o) ==
  /\ pc[p] = "idle" /\ done[p] < MaxOps
  /\ LET id == nid + 1 IN
     /\ nid' = IF IsWrite(o) THEN id ELSE nid
     /\ before' = IF IsWrite(o) THEN before @@ (id :> [ret |-> returned, op |-> o]) ELSE before
     /\ cur' = [cur EXCEPT ![p] = [op |-> o, id |-> IF IsWrite(o) THEN id ELSE 0]]
     /\ floor' = [floor EXCEPT ![p] = returned]
     /\ pc' = [pc EXCEPT ![p] = IF SyncFill
                                  THEN (IF o \in {"Get", "GetL"} THEN "G1"
                                        ELSE IF lock = "none" THEN AfterLock(o) ELSE "W")   \* writes and list calls take the key lock first
                                  ELSE CASE o \in {"Get", "GetL", "App", "Rem"} -> "G1"
                                         [] o = "Set" -> IF HasBack THEN "S1" ELSE "S2"
                                         [] o = "Del" -> "D1"]
  /\ lock' = IF SyncFill /\ IsWrite(o) /\ lock = "none" THEN p ELSE lock
  /\ UNCHANGED <<front, back, tmp, done, wb, nwb, returned, stale>>
  /\ Log(p, "Call" \o o)

\* value a Get-like call hands to its caller; checks staleness (ghost)
IsStale(p, tv) == \E w \in floor[p] : w # tv.id /\ w \in DOMAIN before /\ tv.id \in before[w].ret

Finish(p, tv) ==  \* the facade call of p returns (tv = tier value it is returning, for reads)
  /\ done' = [done EXCEPT ![p] = done[p] + 1]
  /\ returned' = IF IsWrite(cur[p].op) THEN returned \cup {cur[p].id} ELSE returned
  /\ stale' = (stale \/ (cur[p].op \in {"Get", "GetL"} /\ IsStale(p, tv)))
  /\ LET waiters == {q \in Procs \ {p} : pc[q] = "W"} IN      \* unlocking hands the key lock to a waiter at once
     IF lock = p /\ waiters # {}
     THEN \E q \in waiters : /\ lock' = q
                              /\ pc' = [pc EXCEPT ![p] = "idle", ![q] = AfterLock(cur[q].op)]
     ELSE /\ lock' = IF lock = p THEN "none" ELSE lock
          /\ pc' = [pc EXCEPT ![p] = "idle"]

\* what a list call writes after its read phase
NewList(p, tv) == LET old == IF tv.p THEN tv.v ELSE {}
                  IN IF cur[p].op = "App" THEN old \cup {cur[p].id} ELSE old \ {0}

AfterRead(p, tv) ==  \* read phase of call p produced tv
  IF cur[p].op \in {"Get", "GetL"} THEN Finish(p, tv) /\ UNCHANGED <<tmp>>
  ELSE IF cur[p].op = "Rem" /\ ~tv.p THEN Finish(p, tv) /\ UNCHANGED <<tmp>>   \* RemoveFromList on a missing list: error, no write
  ELSE /\ tmp' = [tmp EXCEPT ![p] = Val(cur[p].id, NewList(p, tv))]
       /\ pc' = [pc EXCEPT ![p] = IF HasBack THEN "S1" ELSE "S2"]
       /\ UNCHANGED <<done, returned, stale, lock>>      \* repaired: the list call keeps the key lock from read to write

\* front read. Unrepaired code: the only front read of every Get-like phase.
\* Repaired code: the lock-free fast path of Get/GetList (a miss on a two-tier key goes on to the lock).
G1(p) == /\ pc[p] = "G1"
         /\ IF front.p THEN AfterRead(p, front) /\ UNCHANGED <<wb, nwb>>
            ELSE IF HasBack THEN /\ pc' = [pc EXCEPT ![p] = IF ~SyncFill THEN "G2" ELSE IF lock = "none" THEN "G1L" ELSE "W"]
                                 /\ lock' = IF SyncFill /\ lock = "none" THEN p ELSE lock
                                 /\ UNCHANGED <<tmp, done, returned, stale, wb, nwb>>
            ELSE AfterRead(p, front) /\ UNCHANGED <<wb, nwb>>
         /\ UNCHANGED <<front, back, cur, nid, before, floor>>
         /\ Log(p, "FrontGet")

\* repaired code: front read under the key lock (getLocked)
G1L(p) == /\ pc[p] = "G1L" /\ lock = p
          /\ IF front.p \/ ~HasBack THEN AfterRead(p, front)
             ELSE pc' = [pc EXCEPT ![p] = "G2"] /\ UNCHANGED <<tmp, done, returned, stale, lock>>
          /\ UNCHANGED <<front, back, cur, nid, before, floor, wb, nwb>>
          /\ Log(p, "FrontGet")

G2(p) == /\ pc[p] = "G2"
         /\ IF back.p
            THEN IF SyncFill
                 THEN /\ tmp' = [tmp EXCEPT ![p] = back] /\ pc' = [pc EXCEPT ![p] = "F"]   \* repaired: fill synchronously, still under the lock
                      /\ UNCHANGED <<wb, nwb, done, returned, stale, lock>>
                 ELSE /\ wb' = wb \cup {[n |-> nwb + 1, val |-> back]}    \* go func(){ front.Set(k, v) }()
                      /\ nwb' = nwb + 1
                      /\ AfterRead(p, back)
            ELSE AfterRead(p, back) /\ UNCHANGED <<wb, nwb>>
         /\ UNCHANGED <<front, back, cur, nid, before, floor>>
         /\ Log(p, "BackGet")

\* repaired code: synchronous cache fill under the key lock
F(p) == /\ pc[p] = "F" /\ lock = p
        /\ front' = tmp[p]
        /\ AfterRead(p, tmp[p])
        /\ UNCHANGED <<back, cur, nid, before, floor, wb, nwb>>
        /\ Log(p, "FrontSet")

WB(w) == /\ w \in wb
         /\ front' = w.val
         /\ wb' = wb \ {w}
         /\ UNCHANGED <<back, pc, cur, tmp, done, nwb, nid, before, returned, floor, stale, lock>>
         /\ Log("wb", "FrontSet")

WVal(p) == IF cur[p].op = "Set" THEN Val(cur[p].id, {cur[p].id}) ELSE tmp[p]

S1(p) == /\ pc[p] = "S1" /\ Locked(p)
         /\ back' = WVal(p)
         /\ pc' = [pc EXCEPT ![p] = "S2"]
         /\ lock' = lock
         /\ UNCHANGED <<front, cur, tmp, done, wb, nwb, nid, before, returned, floor, stale>>
         /\ Log(p, "BackSet")

S2(p) == /\ pc[p] = "S2" /\ Locked(p)
         /\ front' = WVal(p)
         /\ Finish(p, front')
         /\ UNCHANGED <<back, cur, tmp, wb, nwb, nid, before, floor>>
         /\ Log(p, "FrontSet")

\* single tier failure: the front (cache) write of a two-tier Set fails. The persistent write has
\* succeeded, the code only logs the error and acknowledges the call. Unrepaired: the older value
\* stays in the cache. Repaired (Invalidate): the cache entry is deleted (step S2x).
S2Fail(p) == /\ pc[p] = "S2" /\ Locked(p) /\ HasBack /\ p = FaultProc /\ done[p] = 0
             /\ front' = front
             /\ IF Invalidate THEN pc' = [pc EXCEPT ![p] = "S2x"] /\ UNCHANGED <<done, returned, stale, lock>>
                ELSE Finish(p, back)
             /\ UNCHANGED <<back, cur, tmp, wb, nwb, nid, before, floor>>
             /\ Log(p, "FrontSetFail")

S2x(p) == /\ pc[p] = "S2x" /\ Locked(p)
          /\ front' = None(cur[p].id)
          /\ Finish(p, front')
          /\ UNCHANGED <<back, cur, tmp, wb, nwb, nid, before, floor>>
          /\ Log(p, "FrontInval")

D1(p) == /\ pc[p] = "D1" /\ Locked(p)
         /\ front' = None(cur[p].id)
         /\ IF HasBack THEN pc' = [pc EXCEPT ![p] = "D2"] /\ UNCHANGED <<done, returned, stale, lock>>
            ELSE Finish(p, front')
         /\ UNCHANGED <<back, cur, tmp, wb, nwb, nid, before, floor>>
         /\ Log(p, "FrontDel")

D2(p) == /\ pc[p] = "D2"
         /\ back' = None(cur[p].id)
         /\ Finish(p, back')
         /\ UNCHANGED <<front, cur, tmp, wb, nwb, nid, before, floor>>
         /\ Log(p, "BackDel")

\* quiescence and what a reader would see then
Quiet == wb = {} /\ \A p \in Procs : pc[p] = "idle"
Visible == IF front.p THEN front.v ELSE IF HasBack /\ back.p THEN back.v ELSE {}
Ret(kind) == {i \in returned : before[i].op = kind}

Next == \/ \E p \in Procs : \/ \E o \in OpKinds : Call(p, o)
                            \/ G1(p) \/ G1L(p) \/ G2(p) \/ F(p) \/ S1(p) \/ S2(p) \/ S2Fail(p) \/ S2x(p) \/ D1(p) \/ D2(p)
        \/ \E w \in wb : WB(w)
Spec == Init /\ [][Next]_vars

\* ---- properties (C14) --------------------------------------------------------------------
\* (1) a read never returns a value older than a write/delete that had returned before the read began
NoStaleRead == ~stale
\* (2) list mode: at quiescence every element whose Append returned is in the list, and the element
\*     removed by a returned Remove is gone (Remove always targets the pre-existing element 0,
\*     Append(i) adds the fresh element i, so no call undoes another one's effect)
NoLostUpdate == (Mode = "list" /\ Quiet) => /\ Ret("App") \subseteq Visible
                                            /\ (Ret("Rem") # {} => 0 \notin Visible)
TypeOK == /\ front.p \in BOOLEAN /\ back.p \in BOOLEAN /\ \A p \in Procs : done[p] \in 0..MaxOps
=============================================================================
