\* X06 demonstration, EXPECTED TO FAIL (NoOrphan violated): the code as found, deviation orphan
CONSTANTS
  Variant = "tun"
  NW = 1
  NR = 1
  MaxReq = 1
  MaxMsg = 1
  MaxExp = 1
  MaxCancel = 0
  MaxOff = 0
  Kinds = {"ok"}
  Unknown = FALSE
  RegFirst = TRUE
  Atomic = FALSE
  Told = TRUE
  Wired = TRUE
  Eager = FALSE
  Emit = FALSE
SPECIFICATION Spec
INVARIANTS TypeOK NoOrphan
CHECK_DEADLOCK FALSE
