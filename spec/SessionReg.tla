----------------------------- MODULE SessionReg -----------------------------
(* C07 extension of the Session model (round 3): the heartbeat-timeout sweep at the granularity   *)
(* of the code, and generation of canonical operation histories.                                  *)
(*                                                                                                *)
(* ClientRegistry.CleanupStale has the same two-part shape as KickOldConnection (Session.tla,      *)
(* KickBegin / KickEnd): a locked section that takes every stale connection out of connMap and     *)
(* clientIDMap, and - after the lock is released - per stale connection the callback of            *)
(* SessionManager.cleanupStaleConnections (cloud-control offline notification, slow or failing      *)
(* when the store behind it is, then SessionManager.CloseConnection) followed by stream.Close().    *)
(* Anything may happen in between: the client logs in again on another connection, a late packet   *)
(* of the stale connection itself arrives (handleHandshake registers it anew), its peer finally    *)
(* disconnects, somebody is kicked.                                                                *)
(*                                                                                                *)
(*   sw.q  connection whose sweep is between the locked section and its callback ("none": no      *)
(*         sweep in flight)            sw.x  the client it was bound to                            *)
(*                                                                                                *)
(* Named deviations (constant Faults of Session.tla; {} = the code as it is):                      *)
(*   "sweepCloseFirst"  CleanupStale = collect the stale connections under the read lock, run the  *)
(*                      callbacks, then delete index entry (by client id, unconditionally) and      *)
(*                      connection - the sweep-side twin of "kickSendFirst"                         *)
(*   "sweepNeedsCloud"  the sweep callback gives up (no CloseConnection) when the offline           *)
(*                      notification fails - the sweep-side twin of "closeNeedsCloud"               *)
(*   "removeDropsForeignIndex" (in Session!Remove)  removeConnectionLocked deletes the index entry  *)
(*                      of the connection's client whichever connection it points at (seed r5m1)    *)
(*   "reRegisterKeepsIndex"  Register on an existing ConnID with the same stream overwrites the    *)
(*                      entry and keeps the old object's index entry (seed r7m2)                    *)
(* ReReg: re-registration of an existing connection id (same / other stream).                        *)
(* LoginLost / LoginHold / LoginResume: connections authenticated for X but not (yet) indexed.       *)
(* CloseCmd: the disconnect announced by the client (the second call site of CloseConnection).       *)
(* Emit = "canon": print the histories that reached MaxLevel operations and name connections in     *)
(* the order of their first use (one representative per renaming of the pre-accepted connections;   *)
(* only meaningful with PreAccept = TRUE and MaxCtl = 0, where connection names are symmetric).     *)
EXTENDS Session

VARIABLE sw
varsX == <<vars, sw>>
viewX == <<view, sw>>

NoSweep == [q |-> None, x |-> None, h |-> None]

\* ---- canonical histories
ConnsOf(e) == (IF "c" \in DOMAIN e THEN {e.c} ELSE {})
         \cup (IF "new" \in DOMAIN e /\ e.new # None THEN {e.new} ELSE {})
Canon(h) == \A i \in 1..Len(h) : \A x \in ConnsOf(h[i]) :
              LET seen == UNION {ConnsOf(h[j]) : j \in 1..(i-1)}
              IN x \in seen \/ (Cardinality(seen) < Len(Conn) /\ x = Conn[Cardinality(seen) + 1])
OutX(h) == IF Emit = "canon" /\ Len(h) >= MaxLevel /\ Canon(h) THEN PrintT("BEH " \o ToJson(h)) ELSE TRUE

\* ---- the sweep in two parts (one stale, authenticated connection: that is where the callback has
\* an I/O step - the offline notification - before CloseConnection)
SweepBegin(c) ==
  /\ "SweepBegin" \in Ops /\ ~Split /\ Go /\ st.kq = None /\ sw.q = None /\ sw.h = None
  /\ c \in st.reg /\ st.auth[c] # None /\ c \notin st.tcl /\ st.cloud = "up"
  /\ LET t == IF "sweepCloseFirst" \in Faults THEN st
              ELSE [st EXCEPT !.idx = DropIdx(st, c), !.reg = @ \ {c}]
     IN /\ st' = t /\ Record([op |-> "SweepBegin", c |-> c], t)
        /\ ctl' = ctl \cap t.reg
  /\ sw' = [q |-> c, x |-> st.auth[c], h |-> None]
  /\ UNCHANGED <<pc, proved, used, gv, dev>>

\* the callback returns from the notification: SessionManager.CloseConnection(c) (which removes whatever
\* registration c has by now), then the stream of the swept ControlConnection is closed; read loops end
SweepEnd ==
  /\ "SweepBegin" \in Ops /\ ~Split /\ Go /\ sw.q # None
  /\ LET c  == sw.q
         s1 == CloseConn(st, c)
         s2 == IF "sweepCloseFirst" \in Faults THEN [s1 EXCEPT !.idx[sw.x] = None, !.reg = @ \ {c}] ELSE s1
         t  == ReapAll(s2)
     IN /\ st' = t /\ Record([op |-> "SweepEnd"], t)
        /\ ctl' = ctl \cap t.reg
  /\ sw' = NoSweep
  /\ UNCHANGED <<pc, proved, used, gv, dev>>

\* a whole sweep (as Session!Tick) with the cloud-control fault point of the callback: as it is, the
\* callback logs a failed notification and goes on to CloseConnection
SweepX(s, S) ==
  LET stale == s.reg \ S
      kept  == IF "sweepNeedsCloud" \in Faults /\ s.cloud = "down" THEN {c \in stale : s.auth[c] # None} ELSE {}
  IN [Sweep(s, S) EXCEPT !.sess = s.sess \ (stale \ kept)]
TickX(S) ==
  /\ "TickX" \in Ops /\ ~Split /\ Go /\ st.kq = None /\ sw.q = None /\ st.reg # {} /\ S \subseteq st.reg
  /\ LET t == SweepX(st, S)
     IN /\ st' = t /\ Record([op |-> "Tick", keep |-> S], t)
        /\ dev' = dev \cup (IF (st.reg \ S) \cap t.sess # {} THEN {"sweepLeavesSessionEntry"} ELSE {})
        /\ ctl' = ctl \cap t.reg
  /\ UNCHANGED <<pc, proved, used, gv, sw>>

\* the client announces that it is leaving (JsonCommand Disconnect -> handleDisconnectCommand): for a registered
\* connection the server runs CloseConnection itself, the socket is still open on the peer's side; the other
\* call site of Session!Close (there the read loop ends first: adapter.cleanupConnection -> CloseConnection)
CloseCmd(c) ==
  /\ "CloseCmd" \in Ops /\ ~Split /\ Go /\ c \in st.sess /\ c \notin st.tcl /\ c # st.kq /\ c # sw.h /\ c \in st.reg
  /\ LET t == CloseConn(st, c)
     IN /\ st' = t /\ Record([op |-> "Close", c |-> c, how |-> "command"], t)
        /\ ctl' = ctl \cap t.reg
  /\ UNCHANGED <<pc, proved, used, gv, dev, sw>>

\* ---- authenticated but not indexed (round 5).  ServerAuthHandler.HandleHandshake sets ClientID / Authenticated on
\* the ControlConnection object; the index entry is written later, by handleHandshake's registry section
\* (GetByClientID, Remove(old), UpdateAuth) - which a tunnel-type handshake never enters (Session!Login with
\* type "tunnel"), which is skipped when the handshake response cannot be delivered (LoginLost), and which a
\* slow response write delays (LoginHold .. LoginResume).  Such a connection is registered and bound to X while
\* clientIDMap[X] points at another connection of X: every removal path must leave that entry alone.
HsHandler(s, c, X) ==
  LET a == Handler(s, c, [k |-> "P1", id |-> X, resp |-> None, type |-> "control"])
  IN IF a.out = "chal" THEN Handler(a.s, c, [k |-> "P2", id |-> X, resp |-> "ValidLatest", type |-> "control"]) ELSE a
HsEnabled(c, X) == /\ ~Split /\ Go /\ c \in st.sess /\ c \notin st.tcl /\ c # st.kq /\ c # sw.q /\ c # sw.h
                   /\ X \in st.issued /\ st.nn[c] < MaxNonce /\ AuthOf(st, c) = None
\* correct control-type login whose success response cannot be written (sendHandshakeResponse fails, handleHandshake
\* returns before its registry section); the connection itself stays open
LoginLost(c, X) ==
  /\ "LoginLost" \in Ops /\ HsEnabled(c, X)
  /\ LET r == HsHandler(st, c, X)
         t == ReapAll(r.s)
     IN /\ r.out = "ok"
        /\ st' = t /\ Record([op |-> "LoginLost", c |-> c, id |-> X, type |-> "control"], t)
        /\ ctl' = ctl \cap t.reg
  /\ proved' = [proved EXCEPT ![c] = @ \cup {X}]
  /\ UNCHANGED <<pc, used, gv, dev, sw>>
\* the same login, its read loop held in the write of the success response (a peer that does not drain its socket):
\* handler done, registry section outstanding; operations of other connections go on
LoginHold(c, X) ==
  /\ "LoginHold" \in Ops /\ HsEnabled(c, X) /\ sw.h = None /\ sw.q = None /\ st.kq = None
  /\ LET r == HsHandler(st, c, X)
         t == ReapAll(r.s)
     IN /\ r.out = "ok"
        /\ st' = t /\ Record([op |-> "LoginHold", c |-> c, id |-> X, type |-> "control"], t)
        /\ ctl' = ctl \cap t.reg
  /\ proved' = [proved EXCEPT ![c] = @ \cup {X}]
  /\ sw' = [sw EXCEPT !.h = c]
  /\ UNCHANGED <<pc, used, gv, dev>>
LoginResume ==
  /\ "LoginHold" \in Ops /\ ~Split /\ Go /\ sw.h # None
  /\ LET c == sw.h
         t == ReapAll(UpdAuth(Evict(st, c), c))
     IN /\ st' = t /\ Record([op |-> "LoginResume", c |-> c], t)
        /\ ctl' = Ctl("ok", c, "control", t)
  /\ sw' = [sw EXCEPT !.h = None]
  /\ UNCHANGED <<pc, proved, used, gv, dev>>
\* ---- re-registration of an existing connection id (round 7).  ClientRegistry.Register for a ConnID that is already in
\* connMap ("already exists, replacing"): removeConnectionLocked(existing) - the old object's stream is closed, its index
\* entry dropped - then the new, unauthenticated ControlConnection object is stored.  how = "same": the new object shares
\* the old one's stream (a second registration on one transport), "other": it has a stream of its own over the same
\* socket.  Either way the socket is closed by the removal, so the connection's read loop ends and CloseConnection takes
\* the new registration away too.  Fault "reRegisterKeepsIndex": with the same stream the entry is simply overwritten -
\* stream left open, the old object's index entry left behind (clientIDMap[X] points at a superseded object).
ReReg(c, how) ==
  /\ "ReReg" \in Ops /\ ~Split /\ Go /\ c \in st.reg /\ c \in st.sess /\ c \notin st.tcl /\ c # st.kq /\ c # sw.q /\ c # sw.h
  /\ LET s1 == Remove(st, c)
         s2 == [s1 EXCEPT !.reg = @ \cup {c}, !.auth[c] = None, !.pend[c] = 0, !.ord = Append(Live(s1), c)]
         t  == IF "reRegisterKeepsIndex" \in Faults /\ how = "same"
               THEN [st EXCEPT !.auth[c] = None, !.pend[c] = 0]
               ELSE CloseConn(s2, c)
     IN /\ st' = t /\ Record([op |-> "ReReg", c |-> c, how |-> how], t)
        /\ ctl' = ctl \ {c}
  /\ UNCHANGED <<pc, proved, used, gv, dev, sw>>

\* while a login is held no other operation concerns its connection (its read loop is busy; it is not indexed, so
\* no kick reaches it)
HeldUntouched == sw.h = None \/ LET e == hist'[Len(hist')] IN ~("c" \in DOMAIN e /\ e.c = sw.h)

InitX == Init /\ sw = NoSweep
NextX == /\ \/ Next /\ UNCHANGED sw /\ HeldUntouched
            \/ \E c \in ConnS, X \in ClientS : LoginLost(c, X) \/ LoginHold(c, X)
            \/ LoginResume
            \/ \E c \in ConnS, how \in {"same", "other"} : ReReg(c, how)
            \/ \E c \in ConnS : SweepBegin(c)
            \/ SweepEnd
            \/ \E S \in SUBSET ConnS : TickX(S)
            \/ \E c \in ConnS : CloseCmd(c)
         /\ OutX(hist')
SpecX == InitX /\ [][NextX]_varsX

\* ---- C07 with the sweep window: judged when no kick and no sweep is in flight
StableX == Stable /\ sw.q = None /\ sw.h = None
C07InvX == StableX => (LookupSound /\ ClosedGone /\ RemovedClosed)
C07OneX == StableX => OnePerClient
\* the sweep evicts completely: no swept connection keeps its session entry (observed right after the sweep,
\* before any read loop has tidied up)
SweepComplete == "sweepLeavesSessionEntry" \notin dev
TypeOKX == TypeOK /\ sw.q \in ConnS \cup {None} /\ sw.h \in ConnS \cup {None}
=============================================================================
