\* Named deviation "usageAsync" (the behaviour class of seeded change C04-r3m1) on the tree WITH
\* patches C04-1..3: HandleTunnelOpen starts RecordMappingUsage (read the record, set LastActive,
\* write the WHOLE record back) in the background; with a slow store its write is still pending
\* when the open is acknowledged, the mapping is revoked / expired / deactivated / deleted, the
\* stale copy lands (UsageLand) and restores the pre-change record: the next request is admitted.
\* Must FAIL (AttachedEntitled; dev staleUsageWriteBack);
\* the check confirms it through TunnelOpen_show_all.cfg (one run for all named deviations):
\*   tlc -config TunnelOpen_show_usageAsync.cfg TunnelOpen.tla
CONSTANTS
  FIXES = {"validateJoin", "secretValidity", "bindMapping", "bindMappingPoll"}
  Idents = {"none", "noneHs", "listen", "target", "stranger"}
  Creds = {"idOnly", "rightSecret", "wrongSecret", "resume", "nothing", "otherId", "otherSecret"}
  MStates = {"active", "revoked", "expired", "expiredJust", "lapsed", "inactive", "error", "suspended", "missing"}
  Shapes = {"std"}
  MUT = {"usageAsync"}
  TStates = {"waiting"}
  Orders = {"slowUsage"}
  Masked = FALSE
  Emit = FALSE
INIT Init
NEXT Next
INVARIANTS TypeOK AttachedEntitled RefusedClean OnlyAttachedRead LegitWorks
CHECK_DEADLOCK FALSE
