\* C03, handshake messages alone on THREE connections and two clients (control type): with both clients holding an
\* authenticated connection of their own there is still a fresh connection on which the phases of a handshake can name
\* different clients (phase 1 for one, phase 2 for the other, under either key); driven completely.
CONSTANTS
  Conn <- Conn3
  Client <- Client2
  MaxNonce = 2
  MaxFail = 3
  MaxCtl = 0
  Faults = {}
  Ops = {"Msg"}
  Types = {"control"}
  PreAccept = TRUE
  Fixes = @@FIXES@@
  Split = FALSE
  MaxLevel = @@LEVEL@@
  Emit = @@EMIT@@
INIT Init
NEXT Next
VIEW view
INVARIANTS TypeOK OnlyProven StepsOK ProvenIssued C07InvMasked C07OneMasked
CHECK_DEADLOCK FALSE
