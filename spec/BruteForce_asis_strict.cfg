\* C18, code as it stands, STRICT property: this configuration is EXPECTED TO FAIL - TLC exhibits
\* the lifted ban (BanHolds violated through deviation tempOverPerm after 9 steps, and - with
\* Fixed = {"order"} - through unbanLive: the `go UnbanIP` spawned for an expired ban runs after the
\* address was banned again and deletes the new ban). It is documentation, not part of ./check;
\* the same counterexamples are generated as behaviours by BruteForce_gen.cfg with EmitActs {"dev"}
\* and replayed on the real code.   tlc -config BruteForce_asis_strict.cfg BruteForce.tla
CONSTANTS
  IPs = {"a"}
  Procs = {"h1", "h2"}
  Threshold = 2
  PermAt = 3
  Win = 2
  Ban = 2
  BlDur = 2
  Burst = 2
  Refill = 500
  MaxClock = 4
  MaxTotal = 4
  MaxPend = 2
  MaxAdm = 4
  Acts = {"Bad", "Query", "Tick", "Unban", "MUnban", "Blk", "Unbl"}
  Atomic = FALSE
  Fixed = {}
  EmitActs = {}
  MaxHist = 999
INIT Init
NEXT Next
VIEW view
CONSTRAINT Bounded
INVARIANTS TypeOK BanHolds BlacklistHolds NeverSpurious
CHECK_DEADLOCK FALSE
