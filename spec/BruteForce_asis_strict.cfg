\* C18, code BEFORE the C18 repairs (Fixed = {}), STRICT property: EXPECTED TO FAIL - TLC exhibits the
\* lifted ban.  As written: BanHolds violated after 11 steps through deviation tempOverPerm (two
\* handshakes in flight: the one that decided "temporary" records its ban after the one that decided
\* "permanent").  With Fixed = {"order"}: BanHolds violated through unbanLive (the `go UnbanIP`
\* spawned for an expired ban runs after the address was banned again and deletes the new ban).
\* With Acts = {"Blk", "Query", "Tick", "Unbl"} and INVARIANTS BlacklistHolds: the same shape for
\* `go RemoveFromBlacklist` (unblLive); with Fixed = {"unban", "unbl", "order"} still BlacklistHolds through
\* expiredShadows (Blk ip - expiry - Blk net - Query).  With all four repairs everything passes.
\* Documentation only, not part of ./check: the same counterexamples are generated as behaviours
\* by BruteForce_gen.cfg with EmitActs {"dev"} and replayed on the real code.
\*     tlc -config BruteForce_asis_strict.cfg BruteForce.tla
CONSTANTS
  IPs = {"a"}
  Procs = {"h1", "h2"}
  Threshold = 2
  PermAt = 3
  Win = 2
  Ban = 2
  BlDur = 2
  Burst = 2
  Refill = 500
  MaxClock = 4
  MaxTotal = 4
  MaxPend = 2
  MaxAdm = 8
  Acts = {"Bad", "Query", "Tick", "Unban", "MUnban"}
  Atomic = FALSE
  BlForms = {"ip", "net"}
  Fixed = {}
  EmitActs = {}
  MaxHist = 999
INIT Init
NEXT Next
VIEW view
CONSTRAINT Bounded
INVARIANTS TypeOK BanHolds BlacklistHolds NeverSpurious
CHECK_DEADLOCK FALSE
