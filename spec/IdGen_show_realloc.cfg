\* Realloc = TRUE, the code as it is: stopCh is created once (constructor) and closed by Release; an allocator that allocates
\* again after Release starts a heartbeat goroutine that returns at once, the claim of the live node runs out after one TTL
\* and n2 gets the same node id.  No call site in tunnox-core re-uses an allocator (nor calls Release); driven only with
\* VERIF_C15_REALLOC=1.
\* Not run by the check (it must fail); kept to show the counterexample:
\*   tlc -config IdGen_show_realloc.cfg IdGen.tla
CONSTANTS
  Mode = "node"
  Procs = {"n1", "n2"}
  HasNX = "yes"
  NCands = 1
  MaxAttempts = 1
  MaxCalls = 2
  Layouts = {"distinct"}
  NSlots = 1
  RenewTier = "claim"
  Wiring = "split"
  TTLTicks = 3
  MaxTicks = 4
  Faults = {}
  MaxRenewFails = 0
  MaxConsecFails = 1
  HbGiveUp = "never"
  GiveUpAfter = 0
  RenewTTLTicks = 3
  Realloc = TRUE
  StopChan = "once"
  MaxU = 1
  ExhaustionReturnsLast = FALSE
  ReturnedIdReleased = FALSE
  WithLapse = FALSE
  Emit = FALSE
INIT Init
NEXT Next
VIEW view
INVARIANTS TypeOK NoForeign NodeUnique
CHECK_DEADLOCK FALSE
