\* Documentation only (not run by the check): target->source writes that hold sourceConnMu across the
\* Write against the strict liveness clauses.  TLC reports a lasso for ClosureSeen / Forgotten:
\* Stall(S), Send(T, ..), Attach, Read(t2s), Write(t2s) parked; ErrorEnd(T); Send(S, ..), Read(s2t),
\* Write(s2t) fails, the s2t copier is done - and CloseBridge never gets the lock.
CONSTANTS
  BUF = 3
  MaxSends = 2
  MaxSlow = 5
  Lims = {"none"}
  Classes = {"one"}
  Faults = TRUE
  Replace = FALSE
  ExtCloseOn = FALSE
  DevLimiter = FALSE
  DevNilFwd = FALSE
  DevStaleSrc = FALSE
  DevSleepLimiter = FALSE
  DevWriteLock = TRUE
  DevRouteFirst = FALSE
  DevCleanupFirst = FALSE
  RegLegs = {}
  DevIdleSweep = FALSE
  DevFwdNoEof = FALSE
  SrcKinds = {"direct"}
  ErrClasses = {"plain"}
  PollOn = FALSE
  RetryOn = {}
  RetryWriteOn = {}
  DevBufio = FALSE
  AttachKinds = {"local"}
  HoldOn = FALSE
  Gen = FALSE
  Emit = FALSE
SPECIFICATION LiveSpec
VIEW view
INVARIANTS TypeOK
PROPERTIES ClosureSeen Forgotten
CHECK_DEADLOCK FALSE
