\* (i) Bidirectional - SEEDED FAULT (C12/r3m2, not in the code): when one direction finishes, an absolute
\* read deadline is put on the conn the other direction reads from.  THIS RUN MUST FAIL with
\* "Invariant BNoSpuriousEnd is violated": time passes (Tick), the deadline is in the past, the surviving
\* direction's Read fails although its source is open and sending.
CONSTANTS
  MaxSend = 1
  EofWithData = TRUE
  ShapesA <- LocalShapes
  ShapesB <- AllShapes
  DevDeadlineAt = "halfclose"
  DevDeadlineHits = {"read"}
  Monitor = FALSE
  IdleMax = 2
  DevMonNoFeed = FALSE
  Reactive = FALSE
  DevNoSignalOnError = FALSE
  DevCloseWriterFallback = FALSE
  Emit = FALSE
  Classes = {1}
  BatchSize = 32
  BatchBuf = 22
  High = 100
  MaxT = 0
  MaxU = 0
  TSeqs <- TSmall
  USeqs <- USmall
  Cuts = "all"
  Chunks = {0}
  Paces = {"burst"}
  DevSpin = FALSE
  DevNoUnblock = FALSE
  DevAliasFlush = FALSE
  SockBatch = FALSE
  DevNoInnerFlush = FALSE
  SockQueue = FALSE
  DevQueueRefs = FALSE
  DevSockDeadline = FALSE
  DevDropOnClose = FALSE
INIT BInit
NEXT BNext
INVARIANTS BTypeOK BPipe BComplete BReverseKeepsFlowing BNoSpuriousEnd
CHECK_DEADLOCK FALSE
