\* C01/C05 exhaustive check of the framing contract (Dev = {}: reference reader/writer = the code
\* with patches C01-1, C01-2, C05-1).  All packet sequences <= MaxPkts over HB/CMD/PAY x flag x
\* body length 0..MaxLen, every chunking incl. MaxStall empty reads.  Chunking = "msg": the WebSocket wrapper model
\* (every partition into messages incl. empty ones; invariants WsOK).  MCFLAGS: {"none", "enc", "zpre"} for the stream
\* transports; the quick-tier message-transport run uses {"none"} with longer bodies (flags are orthogonal to the wrapper).
CONSTANTS
  Mode = "honest"
  MaxPkts = @@PKTS@@
  MaxLen = @@LEN@@
  BodyClasses = {"any"}
  Flags = @@MCFLAGS@@
  MaxFrames = 1
  Threads = {1}
  MaxStall = 1
  Chunking = "@@CHUNK@@"
  Dev = {}
  Emit = FALSE
SPECIFICATION Spec
INVARIANTS TypeOK C01 AllocBound WsOK ProgressPossible
PROPERTY Termination
CHECK_DEADLOCK FALSE
