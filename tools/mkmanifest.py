#!/usr/bin/env python3
"""Regenerates /verif/MANIFEST.json from the table below (keeps it schema-valid at all times)."""
import json, subprocess, os
CLAIMED = {
 # id: (text, note, technique, design_ref)
 "C14": ("TLC model-checks hybrid.Storage at tier-operation granularity (spec/Hybrid.tla: two callers x two facade calls, per-key lock, cache fill, list read-modify-write; the pre-repair design with the asynchronous write-back is kept as a second configuration in which TLC finds the stale read and the lost append) and emits one behaviour per (state, tier step) transition; each is forced on the real hybrid.Storage over gate-controlled tier doubles for all four key categories; call/return histories, the quiescent probe and the tier classes touched by every facade operation are judged by TLC (spec/HybridTrace.tla). Seeded free-running stress runs are judged by the same spec.",
         "trusts TLC, spec/HybridTrace.tla as the reading of C14, the gate scheduler and tier doubles; one facade instance (callers are goroutines of one node); cache-TTL expiry not exercised",
         "TLA+ model of the tiered store; TLC transition-coverage generation; gate-scheduled replay on real code; TLC trace validation", "DESIGN.md §5 C14"),
 "C10": ("TLC model-checks the cross-node frame writer/reader (spec/CrossFrame.tla: write segmentation into <=MAX frames, reader buffer/offset/EOF, foreign-tunnel, colliding-id and unknown-type frames, half-close/close; decoder length/truncation classes) and enumerates write-size x injection x reader-buffer scripts; each runs on the real crossnode.FrameStream pair over loopback TCP, the real ReadFrameFromReader and the real runBidirectionalForward; deliveries, end-of-stream, decoder outcomes and allocation are judged by TLC (spec/CrossFrameTrace.tla).",
         "trusts TLC, spec/CrossFrameTrace.tla as the reading of C10, byte-class attribution and allocation measurement in drivers/c10, loopback TCP; scaled-down MAX in the model",
         "TLA+ model of frame stream; TLC-enumerated scripts replayed on real code; TLC trace validation", "DESIGN.md §5 C10"),
 "C12": ("TLC model-checks the client relays (spec/Relay.tla): iocopy.Bidirectional as two copier processes with read/write/half-close steps against endpoints that half-close, close or fail in any order (safety: byte-pipe per direction, reverse direction keeps flowing; liveness under weak fairness: returns once both directions finished), and iocopy.UDP's batching writer and de-framing reader transcribed from the loop with the tunnel stream cut at every offset (liveness <>returned; the pre-repair model is kept and TLC must still find its lasso). Transition-coverage behaviours and every cut offset are replayed on the real iocopy.Bidirectional / iocopy.UDP / tunnel.Tunnel with scripted endpoints and a watchdog; deliveries, datagram boundaries and Returned/Hung are judged by TLC (spec/RelayTrace.tla).",
         "trusts TLC, spec/RelayTrace.tla as the reading of C12, scripted endpoints and loopback sockets, 5 s watchdog as 'promptly'; size classes stand for 1/2/255/65535 bytes",
         "TLA+ model with liveness; TLC-generated schedules and cut offsets replayed on real code; TLC trace validation", "DESIGN.md §5 C12"),
 "C20": ("The RFC 1928/1929 grammar is a byte-level reference parser in TLA+ (spec/Socks5Ref.tla) with a chunked-stream parser model (spec/Socks5.tla) model-checked for conformance, no read past the message, termination and UDP header round trip; TLC enumerates every grammar path x truncation point x chunking class; each is concretised (seeded fillers, domain lengths swept) and run on the real socks5.Listener.Handshake, SocksAdapter handshake/request handlers and parseUDPHeader/buildUDPHeader; outcome, reply bytes, bytes left unread and round trip are judged by TLC against the reference (spec/Socks5Trace.tla).",
         "trusts TLC, spec/Socks5Ref.tla as the reading of RFC 1928/1929, the concretisation in drivers/c20; the verif-tagged export shims add no behaviour",
         "TLA+ reference parser; TLC-enumerated grammar paths replayed on real parsers; TLC trace validation", "DESIGN.md §5 C20"),
 "C13": ("TLC enumerates every (state, operation) transition of the reference TTL key-value state graph (spec/KV.tla, per key-type family) and random deep histories; each is replayed on the real memory backend and on the real Redis backend over miniredis; TLC judges every recorded result against the reference (spec/KVTrace.tla).",
         "trusts TLC, spec/KVRef.tla as the reading of the statement, the result normalisation in drivers/c13, miniredis as Redis, real sleeps (120 ms TTL / 200 ms tick) for the clock",
         "TLA+ reference model; TLC transition-coverage generation; trace validation of real-code results by TLC", "DESIGN.md §5 C13"),
}
ALL = [f"C{i:02d}" for i in range(1, 21)]
NA_REASON = "check not built yet in this round (planned: TLA+ model + TLC-generated behaviours replayed on the real code, see DESIGN.md §5); not claimed until its check exists and passes on the unchanged tree"
hooks_commits = []
try:
    hooks_commits = [l.split()[0] for l in subprocess.check_output(["git","-C","/repo","log","--format=%h %s"]).decode().splitlines() if l.split(' ',1)[1].startswith("verif hook")]
except Exception:
    pass
m = {
 "version": 1,
 "setup_cmd": "sh /verif/tools/setup.sh",
 "hooks": {"guard": "verif", "enable": "go build -tags verif (done by ./check for every driver)",
           "baseline_off_cmd": "sh /verif/tools/baseline.sh", "source_commits": hooks_commits, "add_only": True},
 "engines": [{"name": "tla-mbt", "path": "/verif/harness", "serves_properties": sorted(CLAIMED),
              "kind_free_text": "explicit TLA+ specs (spec/*.tla) checked by TLC; TLC-generated behaviours replayed on the real Go code by per-property drivers; recorded traces validated by TLC against property-level trace specs"}],
 "checks": [],
 "notes": "Exit codes: 0 held (KNOWN-FINDING lines possible), 1 VIOLATION (real-code trace rejected by the TLA+ judge), 2 inconclusive (tool/driver failure; never a verdict). VERIF_SEED seeds TLC simulation, sampling and concretisation.",
 "not_applicable": [{"property_id": p, "reason": NA_REASON} for p in ALL if p not in CLAIMED],
}
for pid in sorted(CLAIMED):
    text, note, tech, ref = CLAIMED[pid]
    m["checks"].append({
        "property_id": pid, "quick_cmd": f"./check {pid} --tier quick", "thorough_cmd": f"./check {pid} --tier thorough",
        "evidence_file": f"/verif/evidence/{pid}.json", "replay_cmd_template": f"./check {pid} --replay {{path}}", "engine": "tla-mbt",
        "level_claimed": {"category": "model_checking", "text": text, "design_ref": ref}, "level_note": note, "technique": tech})
json.dump(m, open("/verif/MANIFEST.json", "w"), indent=1)
print("claimed:", sorted(CLAIMED))
