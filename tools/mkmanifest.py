#!/usr/bin/env python3
"""Regenerates /verif/MANIFEST.json from the table below (keeps it schema-valid at all times)."""
import json, subprocess, os
CLAIMED = {
 # id: (text, note, technique, design_ref)
 "C14": ("TLC model-checks hybrid.Storage at tier-operation granularity (spec/Hybrid.tla: two callers x two facade calls, per-key lock, cache fill, list read-modify-write; the pre-repair design with the asynchronous write-back is kept as a second configuration in which TLC finds the stale read and the lost append) and emits one behaviour per (state, tier step) transition; each is forced on the real hybrid.Storage over gate-controlled tier doubles for all four key categories; call/return histories, the quiescent probe and the tier classes touched by every facade operation are judged by TLC (spec/HybridTrace.tla). Seeded free-running stress runs are judged by the same spec.",
         "trusts TLC, spec/HybridTrace.tla as the reading of C14, the gate scheduler and tier doubles; one facade instance (callers are goroutines of one node); cache-TTL expiry not exercised",
         "TLA+ model of the tiered store; TLC transition-coverage generation; gate-scheduled replay on real code; TLC trace validation", "DESIGN.md §5 C14"),
 "C10": ("TLC model-checks the cross-node frame writer/reader (spec/CrossFrame.tla: write segmentation into <=MAX frames, reader buffer/offset/EOF, foreign-tunnel, colliding-id and unknown-type frames, half-close/close; decoder length/truncation classes) and enumerates write-size x injection x reader-buffer scripts; each runs on the real crossnode.FrameStream pair over loopback TCP, the real ReadFrameFromReader and the real runBidirectionalForward; deliveries, end-of-stream, decoder outcomes and allocation are judged by TLC (spec/CrossFrameTrace.tla).",
         "trusts TLC, spec/CrossFrameTrace.tla as the reading of C10, byte-class attribution and allocation measurement in drivers/c10, loopback TCP; scaled-down MAX in the model",
         "TLA+ model of frame stream; TLC-enumerated scripts replayed on real code; TLC trace validation", "DESIGN.md §5 C10"),
 "C12": ("TLC model-checks the client relays (spec/Relay.tla): iocopy.Bidirectional as two copier processes with read/write/half-close steps against endpoints that half-close, close or fail in any order (safety: byte-pipe per direction, reverse direction keeps flowing; liveness under weak fairness: returns once both directions finished), and iocopy.UDP's batching writer and de-framing reader transcribed from the loop with the tunnel stream cut at every offset (liveness <>returned; the pre-repair model is kept and TLC must still find its lasso). Transition-coverage behaviours and every cut offset are replayed on the real iocopy.Bidirectional / iocopy.UDP / tunnel.Tunnel with scripted endpoints and a watchdog; deliveries, datagram boundaries and Returned/Hung are judged by TLC (spec/RelayTrace.tla).",
         "trusts TLC, spec/RelayTrace.tla as the reading of C12, scripted endpoints and loopback sockets, 5 s watchdog as 'promptly'; size classes stand for 1/2/255/65535 bytes",
         "TLA+ model with liveness; TLC-generated schedules and cut offsets replayed on real code; TLC trace validation", "DESIGN.md §5 C12"),
 "C20": ("The RFC 1928/1929 grammar is a byte-level reference parser in TLA+ (spec/Socks5Ref.tla) with a chunked-stream parser model (spec/Socks5.tla) model-checked for conformance, no read past the message, termination and UDP header round trip; TLC enumerates every grammar path x truncation point x chunking class; each is concretised (seeded fillers, domain lengths swept) and run on the real socks5.Listener.Handshake, SocksAdapter handshake/request handlers and parseUDPHeader/buildUDPHeader; outcome, reply bytes, bytes left unread and round trip are judged by TLC against the reference (spec/Socks5Trace.tla).",
         "trusts TLC, spec/Socks5Ref.tla as the reading of RFC 1928/1929, the concretisation in drivers/c20; the verif-tagged export shims add no behaviour",
         "TLA+ reference parser; TLC-enumerated grammar paths replayed on real parsers; TLC trace validation", "DESIGN.md §5 C20"),
 "C01": ("TLC model-checks writer / chunking transport / reader (spec/Framing.tla: one action per Read call, short and empty reads, the contract model and the as-found model with named deviations) and enumerates packet sequences x all chunkings; each is written by the real StreamProcessor.WritePacket and read back by the real ReadPacket through a chunk-controlled reader (thorough: also a real WebSocket pair); decoded sequence, exact consumption and errors are judged by TLC (spec/FramingTrace.tla).",
         "trusts TLC, spec/FramingTrace.tla as the reading of C01, body equality computed in Go; QUIC/KCP represented by the generic short-read transport",
         "TLA+ framing model; TLC-enumerated chunkings replayed on real reader/writer; TLC trace validation", "DESIGN.md §5 C01"),
 "C05": ("The hostile-writer part of spec/Framing.tla (type/flag byte classes x declared-length classes x availability x gzip classes incl. bombs, allocation ledger, termination) is model-checked and its 592 frame classes enumerated; each is concretised and fed to the real ReadPacket and the real SessionManager.HandlePacket on a fresh connection with recover(), watchdog and allocation measurement; outcome class, panic/hang flags and allocation bound are judged by TLC (spec/FramingTrace.tla, FramingTraceX.cfg).",
         "class-exhaustive, not a byte-level fuzzer (seeded fillers and bit mutants beyond the classes); allocation measured process-wide; bound 6*MAX+1MiB for decode, 12*MAX+1MiB for dispatch",
         "TLA+ hostile-input model; TLC-enumerated frame classes replayed on real decoder/dispatcher; TLC trace validation", "DESIGN.md §5 C05"),
 "C03": ("TLC model-checks the per-connection handshake state machine with registries (spec/Session.tla: first-connect, challenge, response classes, control/tunnel types, bans, blacklist, credential expiry; ghost proved/used sets) and generates message sequences (transition coverage + simulation); each runs on a real in-process server (SessionManager + ServerAuthHandler + BuiltinCloudControl, real HMACs); the logged post-state after every message is judged by TLC (spec/SessionTrace.tla).",
         "trusts TLC, spec/SessionTrace.tla as the reading of C03, harness/srvkit fake transports; one server node",
         "TLA+ auth state machine; TLC-generated message sequences replayed on real server; TLC trace validation", "DESIGN.md §5 C03"),
 "C07": ("spec/Session.tla also models the registries at critical-section granularity (register, evict, UpdateAuth, kick, sweep, close, reap; Split mode interleaves handler/evict/update-auth of several connections); TLC checks the C07 invariants on the complete 3x2 graph and generates operation sequences; each runs on the real SessionManager/ClientRegistry (srvkit) incl. concurrent login rounds; the full projection after every operation is judged by TLC (spec/SessionTraceReg.tla).",
         "trusts TLC, spec/SessionTraceReg.tla as the reading of C07, srvkit; staleness via 120 ms heartbeat timeout with margins; concurrent mode judges quiescent projections",
         "TLA+ registry model; TLC-generated operation sequences replayed on real registries; TLC trace validation", "DESIGN.md §5 C07"),
 "C04": ("The open-tunnel dispatcher is modelled as a decision structure (spec/TunnelOpen.tla: identity x credential x mapping state x tunnel state x arrival order, 1200 cells; branches and attachment points as coded; ghost entitled()); TLC checks attached => entitled on the repaired design and must still find the violation on the as-found model; every cell is driven on a real server (srvkit + ServerTunnelHandler + conncode.Service; thorough: two nodes with a loopback cross-node listener) and ack / attachment / marker delivery are judged by TLC (spec/TunnelOpenTrace.tla).",
         "trusts TLC, spec/TunnelOpenTrace.tla as the reading of 'entitled', srvkit transports; opens are sequential",
         "TLA+ decision-table model; TLC-enumerated cells replayed on real server; TLC trace validation", "DESIGN.md §5 C04"),
 "C06": ("TLC model-checks connection-code activation at storage-operation granularity (spec/ConnCode.tla: activators, revoker, expiry, one failing write, atomic claim, rollbacks; as-is model kept) and emits transition-coverage behaviours; each interleaving is forced on the real conncode.Service over a gate-controlled store double; call/return histories and the final store are judged by TLC (spec/ConnCodeTrace.tla).",
         "trusts TLC, spec/ConnCodeTrace.tla as the reading of C06, gate scheduler and store double; one code per behaviour; expiry via 150 ms TTL with margins",
         "TLA+ storage-step model; gate-scheduled replay on real service; TLC trace validation", "DESIGN.md §5 C06"),
 "C08": ("TLC model-checks cross-node connection state (spec/ConnState.tla: nodes sharing a store, register/unregister/heartbeat/late cleanup/expiry, backend value shapes, fix subsets) and generates event histories; each runs on real SessionManagers sharing memory / Redis(miniredis) / tiered stores; Find(X) from every node after every event is judged by TLC (spec/ConnStateTrace.tla).",
         "trusts TLC, spec/ConnStateTrace.tla as the reading of C08, miniredis, real sleeps with margins (inconclusive when overrun); nodes are objects in one process",
         "TLA+ connection-state model; TLC-generated histories replayed on real nodes over three backends; TLC trace validation", "DESIGN.md §5 C08"),
 "C09": ("TLC model-checks the waiting-tunnel routing table (spec/Routing.tla: register/lookup/remove/expire, value transformers) and generates all orders; each runs on the real RoutingTable and the real bridge start/end call sites over memory / Redis / tiered backends with seeded field values; lookups are judged by TLC (spec/RoutingTrace.tla).",
         "field fidelity is generative (seeded), not exhaustive; timing margins as C08",
         "TLA+ routing model; TLC-generated orders replayed on real RoutingTable; TLC trace validation", "DESIGN.md §5 C09"),
 "C11": ("A policy table (spec/CommandsPolicy.tla) classifies every command type the real server dispatches (read from the real registry at run time; an unclassified type is exit 2); spec/Commands.tla model-checks commands interleaved with all 32 handshake states; the product command x identity x claimed fields x object is driven on a real server with real handlers; response, store diff and packets delivered to other clients are judged by TLC (spec/CommandsTrace.tla).",
         "trusts TLC, the hand-written policy table as the reading of C11, the driver's store snapshot and transport observation; one node, three clients",
         "TLA+ policy/identity model; TLC-generated command cases replayed on real server; TLC trace validation", "DESIGN.md §5 C11"),
 "C17": ("TLC model-checks N admissions racing at occupancy limit-1 for each limit with the atomicity the code gives it (spec/Limits.tla: connection cap, control cap with evict-oldest, tunnel cap, per-mapping limit incl. slot lifetime, code/mapping quotas at storage-step granularity, one and two nodes) and emits the interleavings; each is forced on the real SessionManager / ClientRegistry / BaseMappingHandler / conncode.Service (gates: supplied reader, verifhook point, store double); admissions, refusals and occupancy are judged by TLC (spec/LimitsTrace.tla).",
         "trusts TLC, spec/LimitsTrace.tla, gate scheduler, the hook point mapping.quota.checked; cross-node quota overshoot is a listed known finding",
         "TLA+ check/insert model; gate-scheduled replay on real code; TLC trace validation", "DESIGN.md §5 C17"),
 "C18": ("TLC model-checks the lock-out logic with a discrete clock (spec/BruteForce.tla: failure window, temp/permanent bans as two critical sections, lazy asynchronous unban / unblacklist as independent processes, clean-ups, whitelist, token bucket) and generates histories incl. every placement of the asynchronous paths; each runs on the real BruteForceProtector / IPManager / RateLimiter / ServerAuthHandler with millisecond configuration, async paths parked at verifhook points; timed predicates on measured timestamps are judged by TLC (spec/BruteForceTrace.tla).",
         "trusts TLC, spec/BruteForceTrace.tla, real sleeps with margins (behaviours outside their margin are discarded), the hook points",
         "TLA+ timed model; TLC-generated histories/schedules replayed on real code; TLC trace validation", "DESIGN.md §5 C18"),
 "C19": ("TLC model-checks HTTP-domain ownership at storage-operation granularity (spec/Domain.tla: create with rollbacks, guarded cascade delete, update, three lookup sources, one failing write, host-spelling table) and emits transition-coverage behaviours; each is forced on the real HTTPDomainMappingRepository (two instances over one store double, and two real hybrid.Storage nodes) with lookups through the real DomainProxyModule; create/delete/lookup results and the final store are judged by TLC (spec/DomainTrace.tla).",
         "trusts TLC, spec/DomainTrace.tla, gate scheduler and doubles; two legacy-source defects are listed known findings",
         "TLA+ storage-step model; gate-scheduled replay on real repository/proxy; TLC trace validation", "DESIGN.md §5 C19"),
 "C13": ("TLC enumerates every (state, operation) transition of the reference TTL key-value state graph (spec/KV.tla, per key-type family) and random deep histories; each is replayed on the real memory backend and on the real Redis backend over miniredis; TLC judges every recorded result against the reference (spec/KVTrace.tla).",
         "trusts TLC, spec/KVRef.tla as the reading of the statement, the result normalisation in drivers/c13, miniredis as Redis, real sleeps (120 ms TTL / 200 ms tick) for the clock",
         "TLA+ reference model; TLC transition-coverage generation; trace validation of real-code results by TLC", "DESIGN.md §5 C13"),
}
ALL = [f"C{i:02d}" for i in range(1, 21)]
NA_REASON = "check not built yet in this round (planned: TLA+ model + TLC-generated behaviours replayed on the real code, see DESIGN.md §5); not claimed until its check exists and passes on the unchanged tree"
hooks_commits = []
try:
    hooks_commits = [l.split()[0] for l in subprocess.check_output(["git","-C","/repo","log","--format=%h %s"]).decode().splitlines() if l.split(' ',1)[1].startswith("verif hook")]
except Exception:
    pass
m = {
 "version": 1,
 "setup_cmd": "sh /verif/tools/setup.sh",
 "hooks": {"guard": "verif", "enable": "go build -tags verif (done by ./check for every driver)",
           "baseline_off_cmd": "sh /verif/tools/baseline.sh", "source_commits": hooks_commits, "add_only": True},
 "engines": [{"name": "tla-mbt", "path": "/verif/harness", "serves_properties": sorted(CLAIMED),
              "kind_free_text": "explicit TLA+ specs (spec/*.tla) checked by TLC; TLC-generated behaviours replayed on the real Go code by per-property drivers; recorded traces validated by TLC against property-level trace specs"}],
 "checks": [],
 "notes": "Exit codes: 0 held (KNOWN-FINDING lines possible), 1 VIOLATION (real-code trace rejected by the TLA+ judge), 2 inconclusive (tool/driver failure; never a verdict). VERIF_SEED seeds TLC simulation, sampling and concretisation.",
 "not_applicable": [{"property_id": p, "reason": NA_REASON} for p in ALL if p not in CLAIMED],
}
for pid in sorted(CLAIMED):
    text, note, tech, ref = CLAIMED[pid]
    m["checks"].append({
        "property_id": pid, "quick_cmd": f"./check {pid} --tier quick", "thorough_cmd": f"./check {pid} --tier thorough",
        "evidence_file": f"/verif/evidence/{pid}.json", "replay_cmd_template": f"./check {pid} --replay {{path}}", "engine": "tla-mbt",
        "level_claimed": {"category": "model_checking", "text": text, "design_ref": ref}, "level_note": note, "technique": tech})
json.dump(m, open("/verif/MANIFEST.json", "w"), indent=1)
print("claimed:", sorted(CLAIMED))
