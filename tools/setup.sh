#!/bin/sh
# Offline setup: syntax-check the TLA+ modules and warm the Go build cache for the claimed checks' drivers.
cd /verif/spec
for f in *.tla; do
  d=$(mktemp -d); cp *.tla "$d"/; (cd "$d" && timeout 120 tla-sany "$f" >/dev/null 2>&1) || echo "warning: SANY failed: $f"; rm -rf "$d"
done
cd /verif/harness
cp /repo/go.sum go.sum
export GOFLAGS=-mod=mod GOPROXY=off
mkdir -p /verif/bin
rc=0
for id in $(python3 -c "import json;print(' '.join(c['property_id'].lower() for c in json.load(open('/verif/MANIFEST.json'))['checks']))"); do
  extra=""; [ -f "drivers/$id/build.flags" ] && extra=$(cat "drivers/$id/build.flags")
  ( [ -f "drivers/$id/build.env" ] && export $(grep -v '^#' "drivers/$id/build.env" | xargs); go build $extra -tags verif -o "/verif/bin/$id" "./drivers/$id" ) || { echo "build failed: $id"; rc=1; }
done
[ $rc = 0 ] && echo setup ok || echo "setup finished with build failures (the affected checks will report exit 2)"
exit 0
