#!/bin/sh
# Offline setup: syntax-check every TLA+ module and warm the Go build cache for all drivers.
set -e
cd /verif/spec
for f in *.tla; do
  d=$(mktemp -d); cp *.tla "$d"/; (cd "$d" && timeout 120 tla-sany "$f" >/dev/null 2>&1) || { echo "SANY failed: $f"; rm -rf "$d"; exit 1; }; rm -rf "$d"
done
cd /verif/harness
cp /repo/go.sum go.sum
export GOFLAGS=-mod=mod GOPROXY=off
mkdir -p /verif/bin
for d in drivers/*/; do
  n=$(basename "$d")
  go build -tags verif -o "/verif/bin/$n" "./$d" || { echo "build failed: $n"; exit 1; }
done
echo setup ok
