#!/bin/sh
# tools/round.sh <basedir> <tag> <Cxx>... — confirm (tools/confirmseed.sh) and evaluate (tools/tryseeds.sh) freshly delivered seeded changes
base="$1"; tag="$2"; shift 2
for c in "$@"; do
  git -C /repo worktree remove --force "$base/$c" 2>/dev/null
  ok=1
  for m in m1 m2 m3; do
    r=$(CONFIRM_TEST_FLAGS="-skip LargeScale|Million|Benchmark" /verif/tools/confirmseed.sh "$base/$c-out/$m" 2>&1 | tail -2 | tr '\n' ' ')
    echo "CONFIRM $c $m: $r"
  done
  /verif/tools/tryseeds.sh "$c" "$base" "$tag" 2>&1 | grep -E "^==|violated clause|^OK|INCONCL" | cut -c1-200 | awk '/^==/{n=0} {n++; if(n<=4) print}'
done
