#!/bin/sh
# tools/tryseeds.sh <Cxx> [dir] [tag] — run tools/tryseed.sh for <dir>/<Cxx>-out/m1..m3 (default /tmp/mut), copy to seeded/<Cxx>-<tag>m<i>, record the outcome
id="$1"; base="${2:-/tmp/mut}"; tag="${3:-}"
for m in m1 m2 m3; do
  d=$base/$id-out/$m
  [ -f $d/patch.diff ] || continue
  mkdir -p /verif/seeded/$id-$tag$m
  cp $d/patch.diff $d/meta.json /verif/seeded/$id-$tag$m/ 2>/dev/null
  cp $d/*.go /verif/seeded/$id-$tag$m/ 2>/dev/null
  out=$(/verif/tools/tryseed.sh $id $d/patch.diff 2>&1 | tail -12)
  rc=$(echo "$out" | grep -o "exit=[0-9]*" | tail -1)
  echo "== $id $m $rc"; echo "$out" | grep -v "^exit=" | head -6
  SEEDTAG="$tag" python3 - "$id" "$m" "$rc" "$out" <<'PY'
import json,sys
id,m,rc,out=sys.argv[1:5]
import os
tag=os.environ.get('SEEDTAG','')
p=f'/verif/seeded/{id}-{tag}{m}/meta.json'
try: meta=json.load(open(p))
except Exception: meta={"property":id}
cl=[l.replace('violated clause ','').split(' (first')[0] for l in out.splitlines() if l.startswith('violated clause')]
oc={'exit=1':'detected','exit=0':'MISSED','exit=2':'INCONCLUSIVE'}.get(rc,rc)
meta['verif_result']={'check':id,'outcome':oc,'clauses':'; '.join(cl[:6]),'command':f'tools/tryseed.sh {id} /verif/seeded/{id}-{tag}{m}/patch.diff'}
json.dump(meta,open(p,'w'),indent=1)
PY
done
