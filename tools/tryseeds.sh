#!/bin/sh
# tools/tryseeds.sh <Cxx> — run tools/tryseed.sh for /tmp/mut/<Cxx>-out/m1..m3, copy to seeded/, record the outcome
id="$1"
for m in m1 m2 m3; do
  d=/tmp/mut/$id-out/$m
  [ -f $d/patch.diff ] || continue
  mkdir -p /verif/seeded/$id-$m
  cp $d/patch.diff $d/meta.json /verif/seeded/$id-$m/ 2>/dev/null
  cp $d/*.go /verif/seeded/$id-$m/ 2>/dev/null
  out=$(/verif/tools/tryseed.sh $id $d/patch.diff 2>&1 | tail -12)
  rc=$(echo "$out" | grep -o "exit=[0-9]*" | tail -1)
  echo "== $id $m $rc"; echo "$out" | grep -v "^exit=" | head -6
  python3 - "$id" "$m" "$rc" "$out" <<'PY'
import json,sys
id,m,rc,out=sys.argv[1:5]
p=f'/verif/seeded/{id}-{m}/meta.json'
try: meta=json.load(open(p))
except Exception: meta={"property":id}
cl=[l.replace('violated clause ','').split(' (first')[0] for l in out.splitlines() if l.startswith('violated clause')]
oc={'exit=1':'detected','exit=0':'MISSED','exit=2':'INCONCLUSIVE'}.get(rc,rc)
meta['verif_result']={'check':id,'outcome':oc,'clauses':'; '.join(cl[:6]),'command':f'tools/tryseed.sh {id} seeded/{id}-{m}/patch.diff'}
json.dump(meta,open(p,'w'),indent=1)
PY
done
