#!/bin/sh
# tools/watchround.sh <basedir> <tag> <logfile> — evaluate seeded changes as mutation agents deliver them (m1..m3 complete and quiet for 3 minutes)
base="$1"; tag="$2"; log="$3"
while :; do
  for d in "$base"/C??-out; do
    c=$(basename "$d" -out)
    [ -f "$base/$c.done" ] && continue
    [ -f "$d/m1/meta.json" ] && [ -f "$d/m2/meta.json" ] && [ -f "$d/m3/meta.json" ] && [ -f "$d/m3/patch.diff" ] || continue
    [ -z "$(find "$d" -mmin -3 -type f | head -1)" ] || continue
    touch "$base/$c.done"
    /verif/tools/round.sh "$base" "$tag" "$c" >> "$log" 2>&1
  done
  [ -f "$base/STOP" ] && exit 0
  sleep 60
done
