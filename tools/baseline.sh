#!/bin/sh
# Runs the repository's pinned test suite with the verif tag OFF and compares with BASELINE.json's stable_pass list.
out=${1:-/tmp/baseline.$$.json}
cd /repo && GOFLAGS= go test -mod=mod -json -vet=off -count=1 -timeout 25m ./... > "$out" 2>/dev/null
python3 - "$out" <<'PY'
import json,sys
passed=set(); failed=set()
for line in open(sys.argv[1], errors='replace'):
    try: e=json.loads(line)
    except Exception: continue
    if e.get('Test') and e.get('Action') in ('pass','fail'):
        (passed if e['Action']=='pass' else failed).add(e['Package']+'::'+e['Test'])
b=json.load(open('/root/.vp/BASELINE.json'))
stable=set(b['stable_pass'])
missing=sorted(stable-passed)
print(f"stable_pass={len(stable)} passed_now={len(passed)} failed_now={len(failed)} stable_not_passing={len(missing)}")
for m in missing[:40]: print("  NOT PASSING:",m)
sys.exit(1 if missing else 0)
PY
rc=$?
rm -f "$out"
exit $rc
