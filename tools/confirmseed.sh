#!/bin/sh
# tools/confirmseed.sh <dir> — confirm a seeded change independently: in a scratch worktree of /repo HEAD the demo passes
# without the patch, the patch applies and builds, the demo fails with it, and the affected packages' existing tests pass.
d="$1"
export GOFLAGS=-mod=mod GOPROXY=off
wt=$(mktemp -d /tmp/confwt.XXXXXX); rmdir "$wt"
git -C /repo worktree add -q --detach "$wt" HEAD || exit 3
fin(){ git -C /repo worktree remove --force "$wt"; }
eval "$(python3 - "$d" <<'PY'
import json,sys,re,os,glob
d=sys.argv[1]
m=json.load(open(d+'/meta.json'))
demo=str(m.get('demo',''))
dst=re.search(r'((?:internal|cmd)/[\w/\.\-]+\.go)',demo)
run=re.search(r'(go (?:test|run) [^;`\n"()]*)',demo)
pk=sorted({'./'+os.path.dirname(f) for f in m.get('files',[]) if f.endswith('.go')})
src=[f for f in glob.glob(d+'/*.go')]
print(f"dst='{dst.group(1) if dst else ''}'")
print(f"run='{run.group(1).strip() if run else ''}'")
print(f"pk='{' '.join(pk)}'")
print(f"src='{src[0] if src else ''}'")
PY
)"
echo "demo: $src -> $dst ; run: $run ; pkgs: $pk"
[ -n "$dst" ] && [ -n "$run" ] && [ -n "$src" ] || { echo "CANNOT PARSE DEMO"; fin; exit 3; }
mkdir -p "$wt/$(dirname $dst)"; cp "$src" "$wt/$dst"
(cd "$wt" && timeout 900 sh -c "$run" >/tmp/conf.$$.a 2>&1); a=$?
git -C "$wt" apply "$d/patch.diff" || { echo "PATCH DOES NOT APPLY"; fin; exit 3; }
(cd "$wt" && go build ./... ) || { echo "DOES NOT BUILD"; fin; exit 3; }
(cd "$wt" && timeout 900 sh -c "$run" >/tmp/conf.$$.b 2>&1); b=$?
rm -f "$wt/$dst"
(cd "$wt" && timeout 1500 go test -count=1 -timeout 20m $CONFIRM_TEST_FLAGS $pk >/tmp/conf.$$.c 2>&1); c=$?
echo "demo without patch: exit=$a ; demo with patch: exit=$b ; existing tests of $pk with patch: exit=$c"
[ $a = 0 ] || tail -5 /tmp/conf.$$.a
[ $b != 0 ] || tail -5 /tmp/conf.$$.b
[ $c = 0 ] || grep -E "^(FAIL|---|panic)" /tmp/conf.$$.c | head
rm -f /tmp/conf.$$.*
fin
[ $a = 0 ] && [ $b != 0 ] && [ $c = 0 ] && { echo CONFIRMED; exit 0; }
echo NOT-CONFIRMED; exit 1
