#!/usr/bin/env python3
# development helper: judge a dumped list of traces (X07_SELFTEST_DUMP / evidence/debug/X07-traces.json) offline
import json,sys,subprocess,tempfile,shutil,os,glob
ts=json.load(open(sys.argv[1]))
d=tempfile.mkdtemp()
for f in glob.glob('/verif/spec/*.tla'): shutil.copy(f,d)
shutil.copy('/verif/spec/NotifyTrace.cfg',d)
with open(d+'/trace.ndjson','w') as o:
    for t in ts:
        tid=t['behaviour']['id']
        for e in t['events']:
            e=dict(e); e['tr']=tid; o.write(json.dumps(e)+'\n')
        o.write(json.dumps({'ev':'End','tr':tid})+'\n')
r=subprocess.run(['tlc','-workers','1','-metadir',d+'/md','-config','NotifyTrace.cfg','NotifyTrace.tla'],cwd=d,capture_output=True,text=True)
src={t['behaviour']['id']:t['behaviour'].get('src','') for t in ts}
for l in r.stdout.splitlines():
    if l.startswith('"VERDICT'):
        v=json.loads(json.loads(l)[8:])
        print(v['tr'],src.get(v['tr']),[x['c']+'/'+x['d'] for x in v['viol']])
    elif 'rror' in l: print(l)
shutil.rmtree(d)
