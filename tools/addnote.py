#!/usr/bin/env python3
"""addnote.py <Cxx> <file> - append the paragraph in <file> to the Cxx bullet of DESIGN.md §10.1 (idempotent on identical text)."""
import sys,re
pid,f=sys.argv[1:3]
note=open(f).read().strip()
note='\n'.join('  '+l.strip() for l in note.splitlines() if l.strip())
p='/verif/DESIGN.md'
s=open(p).read()
base=s.index('### 10.1')
mm=[x for x in re.finditer(r'^\* \*\*([C0-9 /]+)\*\*', s[base:], re.M) if pid in x.group(1)]
start=base+mm[0].start()
if '/' in mm[0].group(1): note=note.replace('Round 3:', pid+' round 3:',1)
m=re.search(r'\n(\* \*\*C\d\d[C0-9 /]*\*\* |## 11\.|\n### |\n## )', s[start+5:])
end=start+5+m.start()
if note.strip()[:60] in s[start:end]:
    print('already there'); sys.exit(0)
s=s[:end].rstrip('\n')+'\n'+note+s[end:]
open(p,'w').write(s)
print('added to',pid)
