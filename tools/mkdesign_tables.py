#!/usr/bin/env python3
"""Regenerates the generated tables of DESIGN.md §11 (between the BEGIN/END markers) from
known_findings.json and seeded/*/meta.json."""
import json, glob, os, re
kf = json.load(open('/verif/known_findings.json'))
lines = ["| property | status | key (clause/detail) | commit | what |", "|---|---|---|---|---|"]
for x in sorted(kf, key=lambda x: (x['property'], x['status'], x['key'])):
    lines.append(f"| {x['property']} | {x['status']} | `{x['key']}` | {x.get('commit','')} | {x['what']} |")
t1 = "\n".join(lines)
lines = ["| seeded change | property | clause broken (author's words) | needs | outcome of the check | clauses reported |", "|---|---|---|---|---|---|"]
for d in sorted(glob.glob('/verif/seeded/*/meta.json')):
    m = json.load(open(d))
    name = os.path.basename(os.path.dirname(d))
    vr = m.get('verif_result', {})
    def cell(s): return str(s).replace('|', '/').replace('\n', ' ')[:260]
    lines.append(f"| {name} | {m.get('property','')} | {cell(m.get('clause',''))} | {cell(m.get('needs',''))} | {cell(vr.get('outcome','not run yet'))} | {cell(vr.get('clauses',''))} |")
t2 = "\n".join(lines)
p = '/verif/DESIGN.md'
s = open(p).read()
def put(s, tag, body):
    b, e = f"<!-- BEGIN {tag} -->", f"<!-- END {tag} -->"
    if b not in s:
        return s
    i, j = s.index(b) + len(b), s.index(e)
    return s[:i] + "\n" + body + "\n" + s[j:]
s = put(s, "FINDINGS", t1)
s = put(s, "SEEDED", t2)
open(p, 'w').write(s)
print("tables updated:", len(kf), "findings,", len(glob.glob('/verif/seeded/*/meta.json')), "seeded")
