#!/bin/sh
# tools/tryseed.sh <Cxx> <patch.diff> [tier]  — run a check against a scratch worktree of /repo HEAD with the patch applied.
id="$1"; patch="$2"; tier="${3:-quick}"
wt=$(mktemp -d /tmp/seedwt.XXXXXX); rmdir "$wt"
git -C /repo worktree add -q "$wt" HEAD || exit 3
if ! git -C "$wt" apply "$patch" 2>/dev/null && ! git -C "$wt" apply -3 "$patch"; then echo "PATCH DOES NOT APPLY"; git -C /repo worktree remove --force "$wt"; exit 3; fi
(cd "$wt" && GOFLAGS=-mod=mod GOPROXY=off go build ./... ) || { echo "DOES NOT BUILD"; git -C /repo worktree remove --force "$wt"; exit 3; }
cd /verif && VERIF_REPO="$wt" ./check "$id" --tier "$tier" > "/tmp/tryseed.$$.log" 2>&1
rc=$?
grep -E "^(VIOLATION|KNOWN-FINDING|OK|INCONCLUSIVE|violated clause)" "/tmp/tryseed.$$.log" | head -12
echo "exit=$rc"
rm -f "/tmp/tryseed.$$.log" "/verif/bin/"*"$(echo "$wt" | tr -c 'A-Za-z0-9' '_')"* "/verif/bin/mod/"*"$(echo "$wt" | tr -c 'A-Za-z0-9' '_')"* 2>/dev/null
git -C /repo worktree remove --force "$wt"
exit $rc
