#!/usr/bin/env python3
"""mkprompt.py <Cxx> [extra-file] -> prompt text for a strengthening agent (missed seeds of that property)."""
import json,sys,os,glob
pid=sys.argv[1]
extra=open(sys.argv[2]).read() if len(sys.argv)>2 else ''
prop=[json.loads(l) for l in open('/verif/properties.jsonl') if json.loads(l)['id']==pid][0]
ptext=f"{pid} - {prop['title']}\nStatement: {prop['statement']}\nQuantifier: {prop['quantifier']['text']}\nAnchor files: {', '.join(prop['anchors']['files'])}"
missed=[];alls=[]
for d in sorted(glob.glob(f'/verif/seeded/{pid}-*')):
    n=os.path.basename(d); alls.append(n)
    try: m=json.load(open(d+'/meta.json'))
    except Exception: continue
    oc=str(m.get('verif_result',{}).get('outcome',''))
    if 'detected' not in oc:
        missed.append(f" - /verif/seeded/{n}/  ({str(m.get('clause',''))[:200]})")
t=open('/verif/tools/prompts/strengthen.tmpl').read()
t=t.replace('@ID@',pid).replace('@LID@',pid.lower()).replace('@PROPERTY@',ptext).replace('@SEEDS@','\n'.join(missed)).replace('@ALLSEEDS@',' '.join(alls)).replace('@EXTRA@',extra)
print(t)
