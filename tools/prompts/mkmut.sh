#!/bin/sh
# mkmut.sh <Cxx> <basedir> — create a scratch worktree + prompt for a mutation agent (property text only)
id="$1"; base="$2"
mkdir -p "$base/$id-out"
git -C /repo worktree add -q --detach "$base/$id" HEAD || exit 1
python3 - "$id" "$base" <<'PY'
import json,sys
pid,base=sys.argv[1:3]
p=[json.loads(l) for l in open('/verif/properties.jsonl') if json.loads(l)['id']==pid][0]
prop=f"{p['title']}\n\n{p['statement']}\n\nQuantification: {p['quantifier']['text']}\n\nCode the property is anchored in: {', '.join(p['anchors']['files'])}"
t=open('/verif/tools/prompts/mutate.tmpl').read().replace('@@WT@@',f'{base}/{pid}').replace('@@OUT@@',f'{base}/{pid}-out').replace('@@PROP@@',prop).replace('@@ID@@',pid)
open(f'{base}/{pid}.prompt.txt','w').write(t)
PY
echo "$base/$id.prompt.txt"
