#!/usr/bin/env python3
"""Show one example trace per violated clause from the latest replay file of a property."""
import json, sys, glob
pid = sys.argv[1]
pat = sys.argv[2] if len(sys.argv) > 2 else ''
f = sorted(glob.glob(f'/verif/replays/{pid}/*.json'))[-1]
r = json.load(open(f))
dbg = f'/verif/evidence/debug/{pid}-traces.json'
try:
    alltr = {t['behaviour']['id']: t for t in json.load(open(dbg))}
except Exception:
    alltr = {t['behaviour']['id']: t for t in r['traces']}
seen = {}
for v in r['violations']:
    seen.setdefault(v['clause'] + '/' + v['detail'], v['trace_id'])
for k, i in seen.items():
    if pat and pat not in k: continue
    t = alltr.get(i)
    print('==', k, 'trace', i)
    if t:
        print('   beh:', json.dumps(t['behaviour']['data'])[:400])
        for e in t['events']:
            print('    ', json.dumps(e)[:300])
