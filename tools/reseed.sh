#!/bin/sh
# tools/reseed.sh <seed-dir-name> [tier] — re-evaluate a stored seeded change (seeded/<name>/patch.diff or patch_rebased.diff) and update its meta.json
name="$1"; tier="${2:-quick}"
d=/verif/seeded/$name
id=$(echo "$name" | cut -d- -f1)
p=$d/patch.diff; [ -f $d/patch_rebased.diff ] && p=$d/patch_rebased.diff
out=$(/verif/tools/tryseed.sh $id $p $tier 2>&1 | tail -14)
rc=$(echo "$out" | grep -o "exit=[0-9]*" | tail -1)
echo "== $name $rc"; echo "$out" | grep -v "^exit=" | cut -c1-300 | head -6
python3 - "$name" "$rc" "$out" "$p" <<'PY'
import json,sys
name,rc,out,pp=sys.argv[1:5]
p=f'/verif/seeded/{name}/meta.json'
meta=json.load(open(p))
cl=[l.replace('violated clause ','').split(' (first')[0] for l in out.splitlines() if l.startswith('violated clause')]
old=meta.get('verif_result',{})
oc={'exit=1':'detected','exit=0':'MISSED','exit=2':'INCONCLUSIVE'}.get(rc,rc)
if oc=='detected' and 'MISSED' in str(old.get('outcome','')) or 'history' in old:
    hist=old.get('history',[]) + [old.get('outcome')]
    if oc=='detected' and any('MISSED' in str(h) for h in hist): oc='detected after strengthening'
    meta['verif_result']={'check':name.split('-')[0],'outcome':oc,'clauses':'; '.join(cl[:6]),'command':f'tools/tryseed.sh {name.split("-")[0]} {pp}','history':hist}
else:
    meta['verif_result']={'check':name.split('-')[0],'outcome':oc if oc!='detected' or 'after' not in str(old.get('outcome')) else old['outcome'],'clauses':'; '.join(cl[:6]),'command':f'tools/tryseed.sh {name.split("-")[0]} {pp}'}
json.dump(meta,open(p,'w'),indent=1)
PY
