#!/bin/sh
# tools/applypatch.sh <patch-base-name-without-ext>   — apply /verif/patches/<name>.diff to /repo and commit with <name>.msg
n="$1"
cd /repo || exit 1
git apply --check --exclude='*_test.go' "/verif/patches/$n.diff" || { echo "does not apply: $n"; exit 1; }
git apply --exclude='*_test.go' "/verif/patches/$n.diff" || exit 1
GOFLAGS=-mod=mod go build ./... || { echo "build failed"; git checkout -- .; git clean -fdq; exit 1; }
GOFLAGS=-mod=mod go build -tags verif ./... || { echo "verif build failed"; git checkout -- .; git clean -fdq; exit 1; }
git add -A && git commit -q -F "/verif/patches/$n.msg" && git log --oneline | head -1
